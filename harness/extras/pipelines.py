"""Extra module Pipelines: race control's set-up and pipeline layer (esrally/racecontrol.py without the actor message protocol proper, which
specs/RaceDriver and specs/Mechanic cover).  Specified in specs/Pipelines: the registry (four built-in pipelines, docker not stable and
not listed), the decision table of run(cfg) (explicit --pipeline; else from-distribution iff distribution.version is given, else
from-sources, written back to the cfg; Rally Docker image => benchmark-only only; unknown name => SystemSetupError), what a pipeline
hands to race() (one provisioning mode, default target host, car "external"), BenchmarkCoordinator.setup (version question to the target
iff not a source build and no version given, before the track is loaded; too old => refused; serverless mode / operator recorded unless
pre-set; challenge: default / named / auto-generated / none / unknown), the coordinator's book-keeping (initial race record at
PreparationComplete, results computed + stored + summarised exactly once and only by a clean BenchmarkComplete, metrics store closed,
ResetRelativeTime per TaskFinished) and the answer -> outcome mapping of race() / run().
Invariants (TLC + L1 on every recorded run of the REAL code): OnePipelineOrRefusal, ModeMatchesPipeline, TeardownIffCreated,
VersionBeforeTrack, ServerlessDetected, ChallengeResolved, ResultsOnce, NothingStoredOnFailure, ResetPerTask, OutcomeMapping (+ Registry).
/repo does not meet the strong forms SuccessHasResults (a cancellation only the actors noticed makes run() return normally -> SUCCESS, exit 0,
without results) nor StoreClosedIfOpened (after a failure / cancellation the coordinator's metrics store is never closed): pinned behind
ActorCancelIsInterrupt / CloseOnExit (FALSE = /repo).

Leg M   : TLC on Pipelines.quick.cfg (thorough: all 1728 scenarios, 3 tasks) + repaired cfg + 2 self-tests.
Leg S2C : TLC -simulate behaviours -> scripts -> REAL racecontrol.run -> Pipeline -> race -> BenchmarkActor handlers -> BenchmarkCoordinator
          on a synchronous fake actor system with scripted mechanic / driver messages, fake client.factory.cluster_distribution_version,
          track.load_track, metrics stores, calculate_results, reporter.summarize; recorded events must equal the behaviour's.
Leg C2S : every recorded run (S2C + enumerated decision table + seeded random scripts) judged by TLC against TracePipelines.tla.
"""
import datetime
import glob
import logging
import os
import random
import re
import types
from unittest import mock

from .. import tlc, tracecheck
from ..core import Violation
from ..tlaparse import parse_value, to_json

SPEC = "Pipelines"
PINNED = {
    "SuccessHasResults": (
        "ActorCancelIsInterrupt",
        "a cancellation that only the actors notice (a load generator sends BenchmarkCancelled, the main process gets no SIGINT) makes race() log "
        "`User has cancelled the benchmark (detected by actor).` and return: run(cfg) returns normally, rally reports SUCCESS / exit code 0 although "
        "no results were computed or stored (a Ctrl-C seen by the main process gives UserInterrupted / 130)",
    ),
    "StoreClosedIfOpened": (
        "CloseOnExit",
        "the coordinator's metrics store is closed only by on_benchmark_complete: after a BenchmarkFailure / cancellation the benchmark actor is "
        "told to exit with the store (opened in setup, filled by on_task_finished) neither flushed nor closed",
    ),
}
PIPES = ("", "from-sources", "from-distribution", "benchmark-only", "docker", "bogus")
CHALS = ("default", "named", "unknown")
TRACKS = ("std", "auto", "empty")
BOOT_KINDS = ("ok", "exc", "KI", "rallyerr", "sysexit")
INFO_KINDS = ("ok", "old", "sls", "slsop", "exc")
CASE_KEYS = ("scn", "script")
NODE_PORT = 39222
CHAL_NAME = {"default": "", "named": "append-only", "unknown": "no-such-challenge"}


class _Divergence(Exception):
    """The real code did something the harness has no vocabulary for / does not end."""


def obs0(scn):
    pre = "preset" if scn["preset"] else "unset"
    return {
        "cfgpipe": scn["pipe"], "npipe": 0, "chosen": "none", "hostsdef": "none", "car": "none", "nboot": 0, "bootr": "none", "nactor": 0, "nexit": 0,
        "mode": "none", "smode": "none", "ninfo": 0, "info": "none", "dvcfg": "given" if scn["dv"] else "none", "flavor": "none",
        "slsmode": pre, "slsop": pre, "nload": 0, "chal": "none", "ncreate": 0, "tags": "none", "rpipe": "none", "nopen": 0,
        "nmech": 0, "nstart": 0, "teamrev": False, "ndriver": 0, "nprep": 0, "rmeta": False, "store0": 0, "nstartb": 0,
        "ntask": 0, "nbulk": 0, "nreset": 0, "ncomplete": 0, "cflag": "none", "nflush": 0, "ncalc": 0, "storeR": 0,
        "nresults": 0, "nsummary": 0, "nclose": 0, "ndexit": 0, "nstop": 0, "err": False, "canc": False,
        "nreply": 0, "reply": "none", "reason": "none", "ki": False, "result": "none",
    }  # fmt: skip


def _flags(o):
    on = [k for k in ("sources", "distribution", "external", "docker") if getattr(o, k, False) is True]
    return on[0] if len(on) == 1 else "flags:%s" % ",".join(on)


# ===================================================================================================
# the REAL code against scripted fakes
# ===================================================================================================
def execute(case):
    """case: {"scn": {...}, "script": {"boot": kind, "info": kind, "load": "ok"|"fail", "stim": [stimulus...], "late": bool}}.
    stimulus = message name of mechanic / driver or "KI".  Returns (item, info)."""
    import thespian.actors

    from esrally import actor, config, driver, exceptions, mechanic, metrics, racecontrol, track
    from esrally.utils import opts

    from ..racesim import ensure_rally_home

    ensure_rally_home()
    scn, script = case["scn"], case["script"]
    st = obs0(scn)
    events, anomalies, keep, known = [], [], [], {}
    stim = list(script.get("stim", []))
    world = {"actor": None, "reply": None, "ki": False, "recording": False, "flagged": False}

    # ---- cfg ----
    class RecCfg(config.Config):
        def add(self_, scope, section, key, value):
            super().add(scope, section, key, value)
            if world["recording"] and (section, key) == ("race", "pipeline"):
                emit("cfgpipe", str(value), "" if scope == config.Scope.applicationOverride else str(scope))

    cfg = RecCfg()
    A = config.Scope.applicationOverride
    cfg.add(A, "race", "pipeline", scn["pipe"])
    cfg.add(A, "system", "race.id", "verif-race-id")
    cfg.add(A, "system", "env.name", "verif")
    cfg.add(A, "system", "time.start", datetime.datetime(2020, 1, 1, 0, 0, 0))
    cfg.add(A, "provisioning", "node.http.port", NODE_PORT)
    given_hosts = opts.TargetHosts("10.1.2.3:9201" if scn["hosts"] else "")
    cfg.add(A, "client", "hosts", given_hosts)
    cfg.add(A, "client", "options", opts.ClientOptions("timeout:60", target_hosts=given_hosts))
    cfg.add(A, "mechanic", "car.names", ["defaults"])
    cfg.add(A, "mechanic", "car.params", {})
    cfg.add(A, "mechanic", "plugin.params", {})
    cfg.add(A, "track", "params", {})
    cfg.add(A, "track", "challenge.name", CHAL_NAME[scn["chal"]])
    cfg.add(A, "race", "user.tags", {"intention": "verif"} if scn["tags"] else {})
    if scn["dv"]:
        cfg.add(A, "mechanic", "distribution.version", "8.11.0")
    if scn["preset"]:
        cfg.add(A, "driver", "serverless.mode", False)
        cfg.add(A, "driver", "serverless.operator", False)

    def cfg_get(section, key):
        return cfg.opts(section, key, mandatory=False)

    def snap():
        coord = getattr(world["actor"], "coordinator", None) if world["actor"] is not None else None
        st["cfgpipe"] = str(cfg_get("race", "pipeline"))
        dv = cfg_get("mechanic", "distribution.version")
        st["dvcfg"] = "none" if dv is None else "given" if dv == "8.11.0" and scn["dv"] else "serverless" if dv == "serverless" else "derived" if dv in ("8.12.1", "2.4.6") else "other:%s" % dv
        fl = cfg_get("mechanic", "distribution.flavor")
        st["flavor"] = "none" if fl is None else fl if fl in ("default", "serverless") else "other:%s" % fl
        for k, key in (("slsmode", "serverless.mode"), ("slsop", "serverless.operator")):
            v = cfg_get("driver", key)
            st[k] = "unset" if v is None else ("preset" if scn["preset"] and v is False else "T" if v is True else "F" if v is False else "other:%r" % (v,))
        if coord is not None:
            st["err"], st["canc"] = bool(coord.error), bool(coord.cancelled)
            race = coord.race
            if race is not None:
                st["tags"] = "T" if race.user_tags == {"intention": "verif"} else "F" if race.user_tags == {} else "other"
                st["rpipe"] = str(race.pipeline)
                st["teamrev"] = race.team_revision == "teamrev-abc"
            ch = coord.current_challenge
            if ch is not None:
                st["chal"] = "auto" if ch.auto_generated else "default" if ch.default else "named" if ch.name == CHAL_NAME["named"] else "other:%s" % ch.name
        return dict(st)

    def emit(a, r, x=""):
        events.append({"a": a, "r": r, "x": x, "st": snap()})
        if len(events) > 200:
            raise _Divergence("run does not end")

    def exc_for(kind, label):
        ex = {"KI": KeyboardInterrupt, "exc": lambda: RuntimeError("verif: scripted failure"), "sysexit": lambda: SystemExit(3),
              "rallyerr": lambda: exceptions.LaunchError("verif: scripted RallyError")}[kind]()  # fmt: skip
        known[id(ex)] = label
        keep.append(ex)
        return ex

    # ---- the benchmark actor on a synchronous fake actor system ----
    ADDR = {n: thespian.actors.ActorAddress("verif-" + n) for n in ("main", "rc", "mech", "driver", "other")}

    class Ref:
        address = ADDR["rc"]
        globalName = None

        def actor_send(self_, target, msg):
            if target == ADDR["main"]:
                if world["reply"] is not None:
                    anomalies.append("second answer to the start sender: %s" % type(msg).__name__)
                world["reply"] = msg
            elif target == ADDR["mech"]:
                if isinstance(msg, mechanic.StartEngine):
                    st["nstart"] += 1
                    st["smode"] = _flags(msg)
                    if msg.cfg is not cfg or not callable(msg.open_metrics_context):
                        anomalies.append("StartEngine carries another cfg / no metrics context")
                    emit("start", "ok", st["smode"])
                elif isinstance(msg, mechanic.ResetRelativeTime):
                    st["nreset"] += 1
                elif isinstance(msg, mechanic.StopEngine):
                    st["nstop"] += 1
                else:
                    anomalies.append("to mechanic: %s" % type(msg).__name__)
            elif target == ADDR["driver"]:
                if isinstance(msg, driver.PrepareBenchmark):
                    st["nprep"] += 1
                elif isinstance(msg, driver.StartBenchmark):
                    st["nstartb"] += 1
                elif isinstance(msg, thespian.actors.ActorExitRequest):
                    st["ndexit"] += 1
                else:
                    anomalies.append("to driver: %s" % type(msg).__name__)
            else:
                anomalies.append("send to %r: %s" % (target, type(msg).__name__))

        def createActor(self_, actor_class, targetActorRequirements=None, globalName=None, sourceHash=None):
            if actor_class is mechanic.MechanicActor:
                st["nmech"] += 1
                return ADDR["mech"]
            if actor_class is driver.DriverActor:
                st["ndriver"] += 1
                return ADDR["driver"]
            anomalies.append("createActor(%s)" % getattr(actor_class, "__name__", actor_class))
            return ADDR["other"]

    def deliver(msg, sender):
        world["actor"].receiveMessage(msg, sender)

    def make_msg(name):
        if name == "EngineStarted":
            return mechanic.EngineStarted("teamrev-abc"), ADDR["mech"]
        if name == "PreparationComplete":
            return driver.PreparationComplete("flv", "9.9.9", "rev-123"), ADDR["driver"]
        if name == "TaskFinished":
            return driver.TaskFinished([{"m": 1}], 2), ADDR["driver"]
        if name == "BenchmarkComplete":
            return driver.BenchmarkComplete([{"m": 2}]), ADDR["driver"]
        if name == "EngineStopped":
            return mechanic.EngineStopped(), ADDR["mech"]
        if name == "BenchmarkFailure":
            return actor.BenchmarkFailure("verif: forwarded failure", None), ADDR["driver"]
        if name == "BenchmarkCancelled":
            return actor.BenchmarkCancelled(), ADDR["driver"]
        if name == "Poison":
            return thespian.actors.PoisonMessage("verif-poison", "details"), ADDR["driver"]
        raise _Divergence("unknown stimulus %r" % (name,))

    def handle(name, x=""):
        msg, sender = make_msg(name)
        if name == "TaskFinished":
            st["ntask"] += 1
        if name == "BenchmarkComplete":
            st["ncomplete"] += 1
            st["cflag"] = "flagged" if world["flagged"] else "clean"  # the harness' own knowledge, not the coordinator's flags
        if name in ("BenchmarkFailure", "Poison", "BenchmarkCancelled"):
            world["flagged"] = True
        deliver(msg, sender)
        emit("msg", name, x)

    def reason_of(msg):
        text = str(getattr(msg, "message", ""))
        for needle, lab in (("verif: forwarded failure", "forwarded"), ("Cluster version must be at least", "oldversion"), ("verif: info failed", "info"),
                            ("verif: track load failed", "load"), ("does not provide challenge", "nochallenge"), ("Unknown challenge [", "unknownchallenge")):  # fmt: skip
            if needle in text:
                return lab
        return "other:" + text[-80:]

    def take_reply(kiflag):
        msg, world["reply"] = world["reply"], None
        if isinstance(msg, racecontrol.Success):
            r, x = "success", "none"
        elif isinstance(msg, actor.BenchmarkFailure):
            r, x = "failure", reason_of(msg)
            known[id(msg)] = "failure"
        elif isinstance(msg, actor.BenchmarkCancelled):
            r, x = "cancelled", "ki" if kiflag else "actor"
        elif isinstance(msg, thespian.actors.PoisonMessage):
            r, x = "poison", "forwarded"
        else:
            r, x = "other:%s" % type(msg).__name__, ""
        st["nreply"] += 1
        st["reply"], st["reason"] = r, x
        emit("reply", r, x)
        keep.append(msg)
        return msg

    class FakeSystem:
        def createActor(self_, actor_class, targetActorRequirements=None, **kw):
            if actor_class is not racecontrol.BenchmarkActor or targetActorRequirements != {"coordinator": True}:
                anomalies.append("system.createActor(%r, %r)" % (actor_class, targetActorRequirements))
            inst = actor_class()
            inst._myRef = Ref()  # pylint: disable=protected-access
            world["actor"] = inst
            st["nactor"] += 1
            emit("create", "ok", actor_class.__name__)
            return ADDR["rc"]

        def ask(self_, addr, msg, *a, **kw):
            if addr != ADDR["rc"]:
                anomalies.append("ask(%r)" % (addr,))
            if isinstance(msg, racecontrol.Setup):
                st["mode"] = _flags(msg)
                emit("ask", "Setup", st["mode"])
                deliver(msg, ADDR["main"])
                while world["reply"] is None:
                    if not stim:
                        raise _Divergence("script exhausted while race() waits for an answer")
                    nxt = stim.pop(0)
                    if nxt == "KI":
                        st["ki"] = True
                        world["ki"] = world["flagged"] = True
                        emit("ki", "", "")
                        raise exc_for("KI", "ask:KI")
                    handle(nxt)
                return take_reply(False)
            if isinstance(msg, actor.BenchmarkCancelled):
                deliver(msg, ADDR["main"])
                if world["reply"] is None:
                    raise _Divergence("no answer to BenchmarkCancelled")
                return take_reply(True)
            raise _Divergence("ask(%s)" % type(msg).__name__)

        def tell(self_, addr, msg):
            if addr != ADDR["rc"] or not isinstance(msg, thespian.actors.ActorExitRequest):
                anomalies.append("tell(%r, %s)" % (addr, type(msg).__name__))
                return
            if script.get("late") and st["nstartb"] == 1 and st["ncomplete"] == 0 and world["actor"] is not None:
                handle("BenchmarkComplete", "late")
            st["nexit"] += 1
            if world["actor"] is not None:
                deliver(msg, ADDR["main"])  # as thespian does before it kills the actor (receiveMsg_ActorExitRequest, if there is one)
            emit("tell", "exit", "")

    def bootstrap(try_join=False, prefer_local_only=False, **kw):
        r = script.get("boot", "ok")
        st["nboot"] += 1
        st["bootr"] = r
        hosts = cfg.opts("client", "hosts")
        if hosts is given_hosts:
            st["hostsdef"] = "kept" if scn["hosts"] else "unset"
        else:
            d = hosts.default
            st["hostsdef"] = "nodeport" if d == [{"host": "127.0.0.1", "port": NODE_PORT}] else "9200" if d == [{"host": "127.0.0.1", "port": 9200}] else "other:%s" % (d,)
        car = cfg.opts("mechanic", "car.names")
        st["car"] = "external" if car == ["external"] else "given" if car == ["defaults"] else "other:%s" % (car,)
        emit("boot", r, "join" if (try_join and not prefer_local_only and not kw) else "tj=%s,plo=%s,%s" % (try_join, prefer_local_only, sorted(kw)))
        if r != "ok":
            raise exc_for(r, "boot:" + r)
        return FakeSystem()

    # ---- environment of BenchmarkCoordinator ----
    def fake_cdv(hosts, client_options, *a, **kw):
        r = script.get("info", "ok")
        st["ninfo"] += 1
        st["info"] = r
        if hosts != cfg.opts("client", "hosts").default or a or kw:
            anomalies.append("cluster_distribution_version called with other hosts / arguments")
        emit("info", r, "")
        if r == "exc":
            raise RuntimeError("verif: info failed")
        if r == "ok":
            return "default", "8.12.1", "hash-1", False
        if r == "old":
            return "default", "2.4.6", "hash-0", False
        return "serverless", "serverless", "hash-s", r == "slsop"

    def fake_load_track(c, install_dependencies=False, **kw):
        r = script.get("load", "ok")
        st["nload"] += 1
        if c is not cfg or install_dependencies is not True:
            anomalies.append("load_track(install_dependencies=%r)" % (install_dependencies,))
        emit("load", r, "")
        if r != "ok":
            raise exceptions.TrackSyntaxError("verif: track load failed")
        if scn["track"] == "std":
            chs = [track.Challenge("append-no-conflicts", default=True), track.Challenge(CHAL_NAME["named"])]
        elif scn["track"] == "auto":
            chs = [track.Challenge("schedule", default=True, auto_generated=True)]
        else:
            chs = []
        return track.Track(name="verif-track", challenges=chs)

    real_create_race = metrics.create_race

    def create_race(*a, **kw):
        st["ncreate"] += 1
        return real_create_race(*a, **kw)

    class FakeMetricsStore:
        open_context = staticmethod(lambda: None)

        def bulk_add(self_, docs):
            st["nbulk"] += 1

        def flush(self_, *a, **kw):
            st["nflush"] += 1

        def close(self_):
            st["nclose"] += 1

    def metrics_store(c, track=None, challenge=None, read_only=True):  # pylint: disable=redefined-outer-name
        st["nopen"] += 1
        if read_only is not False:
            anomalies.append("metrics_store(read_only=%r)" % (read_only,))
        return FakeMetricsStore()

    class FakeRaceStore:
        def store_race(self_, race):
            if race.results:
                st["storeR"] += 1
                if st["ncalc"] == 0:
                    anomalies.append("race stored with results nobody calculated")
            else:
                st["store0"] += 1
                # what the initial record carries at the moment it is stored
                st["rmeta"] = (race.distribution_flavor, race.distribution_version, race.revision) == ("flv", "9.9.9", "rev-123")

    class FakeResultsStore:
        def store_results(self_, race):
            st["nresults"] += 1
            if not race.results:
                anomalies.append("results stored without results")

    def calculate_results(store, race):
        st["ncalc"] += 1
        return {"verif": "results"}

    def summarize(results, c):
        st["nsummary"] += 1

    def classify(ex):
        if id(ex) in known:
            return "rallyerr:boot" if known[id(ex)] == "boot:rallyerr" else "other:" + known[id(ex)]
        msg = str(ex.args[0]) if getattr(ex, "args", None) else ""
        if isinstance(ex, exceptions.SystemSetupError):
            if msg.startswith("Unknown pipeline [%s]" % scn["pipe"]):
                return "sse:unknown"
            if msg.startswith("Only the [benchmark-only] pipeline is supported by the Rally Docker image"):
                return "sse:docker-image"
            return "sse:other:" + msg[:40]
        if isinstance(ex, exceptions.UserInterrupted):
            return "ui"
        if type(ex) is exceptions.RallyError:  # pylint: disable=unidiomatic-typecheck
            if msg == "This race ended with a fatal crash.":
                return "crash"
            if msg.startswith("Got an unexpected result during benchmarking"):
                return "rallyerr:unexpected"
            if st["reply"] == "failure" and "verif" in msg or "Traceback" in msg:
                return "rallyerr:failure"
        return "other:%s:%s" % (type(ex).__name__, msg[:40])

    fake_console = types.SimpleNamespace(info=lambda *a, **kw: None, println=lambda *a, **kw: None, warn=lambda *a, **kw: None)
    registry = [{"name": p.name, "stable": bool(p.stable)} for p in racecontrol.pipelines.values()]
    listed = [row[0] for row in racecontrol.available_pipelines()]
    printed = []
    with mock.patch.object(racecontrol, "console", types.SimpleNamespace(println=lambda *a, **kw: printed.append(" ".join(map(str, a))), info=lambda *a, **kw: None)):
        racecontrol.list_pipelines()
    rows = [ln.split()[0] for ln in "\n".join(printed).splitlines()[4:] if ln.strip()]  # after "Available pipelines:", blank, header, rule
    if rows != listed:
        listed = ["printed:%s" % ",".join(rows)] + listed
    targets = {}

    def wrap(name, target):
        def f(c):
            st["npipe"] += 1
            st["chosen"] = name
            emit("pipeline", name, "")
            return target(c)

        return f

    patches = [
        mock.patch.object(actor, "bootstrap_actor_system", bootstrap),
        mock.patch.object(racecontrol.client.factory, "cluster_distribution_version", fake_cdv),
        mock.patch.object(racecontrol.track, "load_track", fake_load_track),
        mock.patch.object(metrics, "create_race", create_race),
        mock.patch.object(metrics, "metrics_store", metrics_store),
        mock.patch.object(metrics, "race_store", lambda c: FakeRaceStore()),
        mock.patch.object(metrics, "results_store", lambda c: FakeResultsStore()),
        mock.patch.object(metrics, "calculate_results", calculate_results),
        mock.patch.object(racecontrol.reporter, "summarize", summarize),
        mock.patch.object(racecontrol, "console", fake_console),
        mock.patch.dict(os.environ, {"RALLY_RUNNING_IN_DOCKER": "True" if scn["indocker"] else ""}),
    ]
    for p in racecontrol.pipelines.values():
        targets[p.name] = p.target
        p.target = wrap(p.name, p.target)
    old_disable = logging.root.manager.disable
    logging.disable(logging.CRITICAL)
    try:
        for p in patches:
            p.start()
        world["recording"] = True
        try:
            try:
                v = racecontrol.run(cfg)
                res = "ret" if v is None else "ret:%r" % (v,)
            except _Divergence:
                raise
            except BaseException as ex:  # pylint: disable=broad-except
                res = classify(ex)
            st["result"] = res
            emit("ret", res, "")
        finally:
            world["recording"] = False
            for p in reversed(patches):
                p.stop()
            for p in racecontrol.pipelines.values():
                p.target = targets[p.name]
    finally:
        logging.disable(old_disable)
    item = {"scn": dict(scn), "init": obs0(scn), "registry": registry, "listed": listed, "events": events}
    return item, {"anomalies": anomalies, "left": len(stim), "final": dict(st)}


# ===================================================================================================
# cases
# ===================================================================================================
_RE_SIM_STATE = re.compile(r"^STATE_\d+ ==\s*$", re.M)
_RE_SIM_ACT = re.compile(r"^/\\ act = (.*)$", re.M)
_RE_SIM_SCN = re.compile(r"^/\\ scn = (.*?)(?=^/\\ |^\s*$|^\\\*|\Z)", re.M | re.S)
_RE_SIM_PC = re.compile(r'\bpc \|-> "(\w+)"')


def _behaviour(path):
    with open(path, "r", encoding="utf-8") as f:
        text = f.read()
    cuts = [m.start() for m in _RE_SIM_STATE.finditer(text)] + [len(text)]
    bodies = [text[cuts[i] : cuts[i + 1]] for i in range(len(cuts) - 1)]
    if not bodies:
        return None, [], None
    scn = to_json(parse_value(" ".join(_RE_SIM_SCN.search(bodies[0]).group(1).split())))
    steps, pc = [], None
    for b in bodies[1:]:
        ma, mp = _RE_SIM_ACT.search(b), _RE_SIM_PC.search(b)
        if not ma or not mp:
            raise tlc.MachineryError("cannot read a state of %s" % path)
        steps.append(to_json(parse_value(ma.group(1))))
        pc = mp.group(1)
    return scn, steps, pc


def script_of(steps):
    script = {"stim": [], "late": False}
    for e in steps:
        a, r = e["a"], e["r"]
        if a in ("boot", "info", "load"):
            script[a] = r
        elif a == "msg" and e["x"] == "late":
            script["late"] = True
        elif a == "msg":
            script["stim"].append(r)
        elif a == "ki":
            script["stim"].append("KI")
    return script


def cases_from_tlc(ctx, out, cfg, num, seed):
    wd = tlc.prepare_workdir(SPEC, "xplsim")
    os.makedirs(os.path.join(wd, "sim"))
    res = tlc.run_tlc(wd, "MC_Pipelines", cfg, workers=1, timeout=280, simulate={"num": num, "file": "sim/b"}, depth=40, seed=seed)
    if not res.ok:
        raise tlc.MachineryError("simulation reported a model violation: %s" % res.out[-2000:])
    out.add_tlc(res)
    cases = []
    for fn in sorted(glob.glob(os.path.join(wd, "sim", "b_*"))):
        scn, steps, pc = _behaviour(fn)
        if not steps:
            continue
        cases.append({"src": "tlc-simulate", "scn": scn, "script": script_of(steps), "model_events": [[e["a"], e["r"], e["x"]] for e in steps], "complete": pc == "done"})
    return cases


def _scn(pipe="", dv=False, indocker=False, hosts=False, chal="default", track="std", tags=False, preset=False):
    return {"pipe": pipe, "dv": dv, "indocker": indocker, "hosts": hosts, "chal": chal, "track": track, "tags": tags, "preset": preset}


FULL = ["EngineStarted", "PreparationComplete", "TaskFinished", "BenchmarkComplete", "EngineStopped"]


def message_scripts():
    """Protocol-conformant message sequences, systematically: the full race and every way to leave it early."""
    res = [("full", list(FULL), False), ("full3", FULL[:2] + ["TaskFinished"] * 3 + FULL[3:], False)]
    for k, name in ((0, "engine"), (1, "prep"), (2, "racing"), (3, "racing1"), (4, "stop")):
        for bad in ("BenchmarkFailure", "Poison", "BenchmarkCancelled", "KI"):
            if bad == "BenchmarkCancelled" and k in (0, 4):
                continue
            for late in (False, True):
                if late and k not in (2, 3):
                    continue
                res.append(("%s@%s%s" % (bad, name, "+late" if late else ""), FULL[:k] + [bad], late))
    return res


def enumerated_cases():
    cases = []
    # the decision table of run(): every pipeline name x distribution.version x docker image x hosts, full race
    for pipe in PIPES:
        for dv in (False, True):
            for indocker in (False, True):
                for hosts in (False, True):
                    cases.append({"src": "enum", "scn": _scn(pipe, dv, indocker, hosts), "script": {"stim": list(FULL)}})
    # exception -> outcome before the actor exists
    for pipe in ("", "benchmark-only", "docker"):
        for boot in BOOT_KINDS:
            cases.append({"src": "enum", "scn": _scn(pipe), "script": {"boot": boot, "stim": list(FULL)}})
    # setup: version question x challenge selection
    for pipe in ("benchmark-only", "from-distribution", "docker", "from-sources"):
        for dv in (False, True):
            for info in INFO_KINDS:
                for preset in (False, True):
                    for tags in (False, True):
                        cases.append({"src": "enum", "scn": _scn(pipe, dv, tags=tags, preset=preset), "script": {"info": info, "stim": list(FULL)}})
            for chal in CHALS:
                for trk in TRACKS:
                    for load in ("ok", "fail"):
                        cases.append({"src": "enum", "scn": _scn(pipe, dv, chal=chal, track=trk), "script": {"load": load, "stim": list(FULL)}})
    # the race: every way to leave it
    for name, stim, late in message_scripts():
        for pipe in ("benchmark-only", "from-sources"):
            cases.append({"src": "enum", "scn": _scn(pipe, tags=True), "script": {"stim": list(stim), "late": late}, "msgs": name})
    return cases


def random_case(rnd):
    scn = _scn(rnd.choice(PIPES + ("benchmark-only", "")), rnd.random() < 0.4, rnd.random() < 0.15, rnd.random() < 0.5, rnd.choice(CHALS + ("default", "default")),
               rnd.choice(TRACKS + ("std", "std")), rnd.random() < 0.5, rnd.random() < 0.25)  # fmt: skip
    stim = []
    p_bad = rnd.choice([0.0, 0.05, 0.2])
    for i, m in enumerate(FULL[:2] + ["TaskFinished"] * rnd.randrange(0, 6) + FULL[3:]):
        if rnd.random() < p_bad:
            opts_ = ["BenchmarkFailure", "Poison", "KI"] + (["BenchmarkCancelled"] if 1 <= i and m not in ("EngineStopped",) else [])
            stim.append(rnd.choice(opts_))
            break
        stim.append(m)
    script = {"boot": "ok" if rnd.random() < 0.9 else rnd.choice(BOOT_KINDS), "info": rnd.choice(INFO_KINDS + ("ok", "ok", "sls")),
              "load": "ok" if rnd.random() < 0.9 else "fail", "stim": stim, "late": rnd.random() < 0.4}  # fmt: skip
    return {"src": "random", "scn": scn, "script": script}


# ===================================================================================================
# running and judging
# ===================================================================================================
def run_cases(cases, out, label, stats):
    items, index = [], {}
    for ci, case in enumerate(cases):
        try:
            item, info = execute(case)
        except _Divergence as ex:
            out.drift.append("%s-%d: %s; case %s" % (label, ci, ex, {k: case.get(k) for k in CASE_KEYS}))
            continue
        item["id"] = "%s-%d" % (label, ci)
        items.append(item)
        index[item["id"]] = (case, item)
        fin, evs = info["final"], item["events"]
        out.add_case({k: case.get(k) for k in CASE_KEYS}, nontrivial=len(evs) >= 2)
        stats["runs"] += 1
        stats["events"] += len(evs)
        stats["events_max"] = max(stats["events_max"], len(evs))
        for key in ("result", "chosen", "reason", "cflag", "info", "chal"):
            stats[key][str(fin[key])] = stats[key].get(str(fin[key]), 0) + 1
        stats["results_stored"] += fin["storeR"] == 1
        stats["late_complete_flagged"] += fin["cflag"] == "flagged"
        stats["ki"] += bool(fin["ki"])
        stats["serverless"] += fin["slsmode"] == "T"
        stats["preset_kept"] += fin["slsmode"] == "preset" and fin["info"] in ("sls", "slsop")
        stats["tasks"] += fin["ntask"]
        if info["anomalies"]:
            out.drift.append("%s: %s" % (item["id"], info["anomalies"][:2]))
        if case.get("model_events") is not None and case["complete"]:
            stats["s2c_complete"] += 1
            mine = [[e["a"], e["r"], e["x"]] for e in evs]
            if mine == case["model_events"]:
                stats["s2c_followed"] += 1
            else:
                n = next((i for i, (a, b) in enumerate(zip(mine, case["model_events"])) if a != b), min(len(mine), len(case["model_events"])))
                out.drift.append(
                    "S2C %s: the real code leaves the TLC behaviour at event %d: model %s, code %s; scn %s"
                    % (item["id"], n + 1, case["model_events"][n : n + 1], mine[n : n + 1], case["scn"])
                )
    return items, index


def judge(out, stats, items, index):
    if not items:
        return
    verdicts = tracecheck.validate(SPEC, "TracePipelines", "TracePipelines.cfg", items, name="xpltrace", chunk=1500, timeout=280)
    out.states += verdicts.n_events
    out.transitions += verdicts.n_events
    bad = set(verdicts.l2) | {tid for tid, fails in verdicts.l1.items() if any(c not in PINNED for _, cl in fails for c in cl)}
    out.traces_validated += len(items) - len(bad)
    for tid, fails in sorted(verdicts.l1.items()):
        case, item = index[tid]
        for c in sorted({c for _, cl in fails for c in cl if c in PINNED}):
            rec = out.extra.setdefault("pinned_behaviour_observed", {}).setdefault(c, {"runs": 0, "switch": PINNED[c][0], "what": PINNED[c][1], "size": 10**9, "example": None})
            rec["runs"] += 1
            if len(item["events"]) < rec["size"]:
                rec["size"], rec["example"] = len(item["events"]), {"scn": case["scn"], "script": case["script"], "events": [[e["a"], e["r"], e["x"]] for e in item["events"]]}
        fails = [(ln, [c for c in cl if c not in PINNED]) for ln, cl in fails]
        fails = [(ln, cl) for ln, cl in fails if cl]
        if not fails:
            continue
        clauses = sorted({c for _, cl in fails for c in cl})
        line = fails[0][0]
        key = ",".join(clauses)
        stats["l1"][key] = stats["l1"].get(key, 0) + 1
        if stats["l1"][key] <= 10:
            ev = item["events"][line - 1] if 1 <= line <= len(item["events"]) else {}
            init = item["init"]
            out.violations.append(
                Violation(
                    "+".join(clauses),
                    {k: case.get(k) for k in CASE_KEYS},
                    {"module": "Pipelines", "pipe": case["scn"]["pipe"], "clauses": clauses},
                    "run %s, event %d (%s %s): recorded state %s; events %s"
                    % (tid, line, ev.get("a"), ev.get("r"), {k: v for k, v in (ev.get("st") or {}).items() if v != init.get(k)}, [[e["a"], e["r"]] for e in item["events"]][:40]),
                )
            )
    for tid, lines in sorted(verdicts.l2.items())[:15]:
        case, item = index[tid]
        ln = lines[0]
        what = {k: item["events"][ln - 1][k] for k in ("a", "r", "x")} if 1 <= ln <= len(item["events"]) else ("initial state / registry" if ln == 0 else "end of run (the model has steps left)")
        out.drift.append(
            "run %s: event %d (%s) is not a step of Pipelines.tla; scn %s, events %s"
            % (tid, ln, what, case["scn"], [[e["a"], e["r"]] for e in item["events"]][: ln + 1][-8:])
        )
    stats["l2_rejected"] += len(verdicts.l2)
    if verdicts.l2:
        import copy

        v = tracecheck.validate(SPEC, "TracePipelines", "TracePipelines.repaired.cfg", copy.deepcopy([index[tid][1] for tid in sorted(verdicts.l2)][:300]), name="xplvariant", timeout=280)
        if not v.l2:
            out.drift.insert(0, "the %d runs that are not steps of the model of the code as it is are all accepted with ActorCancelIsInterrupt = CloseOnExit = TRUE: "
                             "this behaviour seems to have been repaired; switch the cfgs of specs/Pipelines over" % len(verdicts.l2))


def run(ctx, out):
    out.rule = (
        "case = scenario (--pipeline value, distribution.version given?, Rally Docker image?, target hosts given?, challenge name, kind of "
        "track, user tags?, serverless settings pre-set?) + script (outcome of bootstrap, of the version question, of track loading, the "
        "mechanic / driver messages or Ctrl-C, a late BenchmarkComplete); distinct by hash of that input; non-trivial = at least 2 recorded events"
    )
    out.assumptions = [
        "the environment is the scripted fake of harness/extras/pipelines.py: a synchronous actor system (the REAL BenchmarkActor is instantiated, "
        "its handlers are called directly, its sends / createActor calls recorded), client.factory.cluster_distribution_version, track.load_track, "
        "metrics.metrics_store / race_store / results_store / calculate_results and reporter.summarize are replaced; metrics.create_race, "
        "track.Track / Challenge, config.Config, opts.TargetHosts are real",
        "mechanic / driver messages arrive in protocol-conformant orders only (the protocol itself is specs/RaceDriver, specs/Mechanic); "
        "KeyboardInterrupt strikes only while race() waits for the answer, after a handler has run to completion",
        "failures inside a handler reach the start sender through actor.no_retry (BenchmarkFailure with the traceback text), as in thespian",
        "console output and log messages are not modelled",
    ]
    q = ctx.quick
    # ---- leg M ----
    wd = tlc.prepare_workdir(SPEC, "xplmc")
    cfg = "Pipelines.quick.cfg" if q else "Pipelines.thorough.cfg"
    res = tlc.run_tlc(wd, "MC_Pipelines", cfg, workers=2 if q else 4, timeout=280 if q else 900)
    out.add_tlc(res)
    if not res.ok:
        raise tlc.MachineryError("model violates %s in %s: %s" % (res.invariant_violated, cfg, res.out[-1500:]))
    out.note("leg M %s: %d distinct states, depth %d, %.1fs" % (cfg, res.distinct, res.depth, res.wall_s))
    res = tlc.run_tlc(wd, "MC_Pipelines", "Pipelines.repaired.cfg", workers=2, timeout=280)
    out.add_tlc(res)
    if not res.ok:
        raise tlc.MachineryError("repaired model violates %s: %s" % (res.invariant_violated, res.out[-1500:]))
    for scfg, clause in (("Pipelines.selftest.cancel.cfg", "SuccessHasResults"), ("Pipelines.selftest.close.cfg", "StoreClosedIfOpened")):
        res = tlc.run_tlc(wd, "MC_Pipelines", scfg, workers=1, timeout=120, allow_violation=True)
        if res.invariant_violated != clause:
            raise tlc.MachineryError("self-test failed: %s no longer violates %s" % (scfg, clause))
        out.extra.setdefault("model_selftests", []).append("%s violates %s in the model, as expected: %s" % (scfg, clause, PINNED[clause][1]))
    # ---- legs S2C / C2S ----
    stats = {"runs": 0, "events": 0, "events_max": 0, "result": {}, "chosen": {}, "reason": {}, "cflag": {}, "info": {}, "chal": {}, "results_stored": 0,
             "late_complete_flagged": 0, "ki": 0, "serverless": 0, "preset_kept": 0, "tasks": 0, "s2c_complete": 0, "s2c_followed": 0, "l1": {}, "l2_rejected": 0}  # fmt: skip
    sim = cases_from_tlc(ctx, out, "Pipelines.sim.cfg", 500 if q else 5000, ctx.seed + 1)
    items, index = run_cases(sim, out, "sim", stats)
    if items:
        longest = max(items, key=lambda it: len(it["events"]))
        out.sample({"source": "tlc-simulate", "scn": longest["scn"], "recorded_events": [[e["a"], e["r"], e["x"]] for e in longest["events"]]})
    enum = enumerated_cases()
    i2, x2 = run_cases(enum, out, "enum", stats)
    rnd = random.Random(ctx.seed + 77)
    rc = [random_case(rnd) for _ in range(500 if q else 8000)]
    i3, x3 = run_cases(rc, out, "rnd", stats)
    index.update(x2)
    index.update(x3)
    judge(out, stats, items + i2 + i3, index)
    out.extra["runs"] = stats
    out.note(
        "legs S2C/C2S: %d runs of the real code (%d TLC behaviours, %d enumerated, %d random), %d events (longest run %d); S2C: %d/%d complete TLC "
        "behaviours reproduced event by event; outcomes %s; pipelines %s; failure reasons %s; BenchmarkComplete clean/flagged %s; results stored in %d "
        "runs, Ctrl-C in %d, serverless detected in %d (pre-set kept in %d), %d TaskFinished; L2 rejected %d"
        % (stats["runs"], len(sim), len(enum), len(rc), stats["events"], stats["events_max"], stats["s2c_followed"], stats["s2c_complete"],
           dict(sorted(stats["result"].items())), dict(sorted(stats["chosen"].items())), dict(sorted(stats["reason"].items())), dict(sorted(stats["cflag"].items())),
           stats["results_stored"], stats["ki"], stats["serverless"], stats["preset_kept"], stats["tasks"], stats["l2_rejected"])
    )  # fmt: skip
    for key in ("results_stored", "late_complete_flagged", "ki", "serverless", "preset_kept", "tasks", "s2c_followed"):
        if not stats.get(key):
            out.vacuous.append("no executed run exercised: " + key)
    for r in ("ret", "sse:unknown", "sse:docker-image", "rallyerr:failure", "rallyerr:unexpected", "rallyerr:boot", "ui", "crash"):
        if not stats["result"].get(r):
            out.vacuous.append("no run ended with outcome " + r)
    for c, rec in sorted(out.extra.get("pinned_behaviour_observed", {}).items()):
        rec.pop("size", None)
        out.note("pinned behaviour of /repo (strong clause %s fails in %d runs; model switch %s = FALSE): %s; smallest example %s" % (c, rec["runs"], rec["switch"], rec["what"], str(rec["example"])[:600]))
    for c in PINNED:
        if c not in out.extra.get("pinned_behaviour_observed", {}):
            out.vacuous.append("pinned behaviour not observed: " + c)
    if out.vacuous:
        out.note("VACUOUS (kinds of runs this seed did not produce): %s" % out.vacuous)
    if out.drift:
        out.note("MODEL-DRIFT in %d places, first: %s" % (len(out.drift), out.drift[0][:700]))
    for v in out.violations[:5]:
        out.note("L1 FAILED %s: %s" % (v.clause, v.detail[:700]))
