"""EXTRA plugins: how Rally resolves and installs Elasticsearch plugins (specs/Plugins: Plugins.tla + PluginInstall.tla).

Part 1 (Plugins.tla, function-like): team.load_plugins / load_plugin / PluginLoader.plugins on a world = lines of plugins/v1/core-plugins.txt +
plugin directories with <config>.ini ([config] base=..., [variables]).  Clauses: name:cfg:junk is a ValueError (SpecSyntax); an unknown configuration /
unknown plugin / no config base at all is a SystemSetupError naming the FIRST such spec and nothing else is refused (Refusals); descriptors keep the
requested order (OrderKept); a bare name always loads (PlainLoads); core flag and moved_to_module (CoreFlag); variables = configurations in the requested
order, then the plugin params (ParamsWin); config paths = bases by first mention, once, empty ones skipped (PathsOrder); the listing is complete
(ListComplete).  Strong clauses /repo does not meet (pinned, switches CoreKeepsParams / ListSorted): PlainParams, ListSorted.
Part 2 (PluginInstall.tla, state machine build -> es -> plugins -> hooks): Elasticsearch first, plugins in the requested order each once (InOrderOnce),
templates of a plugin right after ITS installation (CfgFollowsInstall), a failing installer (64 SystemSetupError, 74 SupplyError, other RallyError) is
the last event and no hook runs (AbortOnFailure, FailureDocumented), a bad hook file fails before anything is installed (BadHookEarly), hooks after ALL
installations, car first (HooksAfterAllInstalls, HookOrder), ONE variable namespace car < plugin1 < plugin2 for all templates and hooks (VarsMerged).
Legs: M (TLC, both specs + self-tests of the pinned switches), S2C (every TLC world built as a real directory tree, real functions), C2S (TLC validates
every recorded execution incl. seeded random worlds; L1 clauses, L2 = transcription Code / Run).
"""
import builtins
import copy
import json
import os
import random
import shutil
import sys

from .. import fastdump, tlc, tracecheck

SPEC = "Plugins"
KEYS = ("x", "y")
NAME_ORDER = ["analysis-icu", "ghost", "my-plug", "my_plug", "repository-s3", "x-pack"]
# strong clause -> (switch, what /repo does)
PINNED = {
    "PlainParams": ("CoreKeepsParams", "a core plugin requested without configuration and without a directory below plugins/v1 loses --plugin-params (variables = {})"),
    "ListSorted": ("ListSorted", "PluginLoader.plugins() computes sorted(known_plugins, ...) and throws the result away: the listing is in file / directory order"),
}
URL = "file:///verif/plugin-%d.zip"


def _novars():
    return {k: "-" for k in KEYS}


def _vars_of(d):
    return {k: str(d.get(k, "-")) for k in KEYS}


def _dict_of(v):
    return {k: x for k, x in v.items() if x != "-"}


# ---------------------------------------------------------------------------------------------------------------------------------
# part 1: resolution
# ---------------------------------------------------------------------------------------------------------------------------------
def build_world(root, w):
    """The abstract world as a team repository: <root>/plugins/v1/core-plugins.txt, <root>/plugins/v1/<name with _>/<config>.ini."""
    pdir = os.path.join(root, "plugins", "v1")
    os.makedirs(pdir)
    with open(os.path.join(pdir, "core-plugins.txt"), "w", encoding="utf-8") as f:
        f.write("# core plugins of this world\n")
        for i, n in enumerate(w["core"]):
            f.write(n + (",future-value" if i % 2 else "") + "\n")
    for d in w["dirs"]:
        dd = os.path.join(pdir, d["name"].replace("-", "_"))
        os.makedirs(dd)
        with open(os.path.join(dd, "README.md"), "w", encoding="utf-8") as f:
            f.write("no configuration\n")
        for c in d["cfgs"]:
            with open(os.path.join(dd, c["c"] + ".ini"), "w", encoding="utf-8") as f:
                f.write("[meta]\ndescription=world\n")
                if c["bases"]:
                    f.write("[config]\nbase=%s\n" % ",".join(c["bases"]))
                vs = _dict_of(c["vars"])
                if vs:
                    f.write("[variables]\n" + "".join("%s=%s\n" % kv for kv in sorted(vs.items())))
            for b in c["bases"]:
                if b:
                    os.makedirs(os.path.join(dd, b, "templates", "config"), exist_ok=True)
    return root


def spec_text(s):
    if s["colons"] == 0:
        return s["name"]
    if s["colons"] == 1:
        return s["name"] + ":" + "+".join(s["cfgs"])
    return s["name"] + ":" + "+".join(s["cfgs"]) + ":junk"


def _project_desc(root, d):
    own = os.path.join(root, "plugins", "v1", d.name.replace("-", "_"))
    paths = []
    for p in d.config_paths:
        head, tail = os.path.split(p)
        r2, b = os.path.split(head)
        paths.append(b if tail == "templates" and r2 == own else "?" + p)
    return {
        "name": d.name,
        "core": bool(d.core_plugin),
        "config": [str(c) for c in (d.config or [])],
        "root": "-" if d.root_path is None else ("own" if d.root_path == own else "other"),
        "paths": paths,
        "vars": _vars_of(d.variables),
        "moved": bool(d.moved_to_module),
    }


def _msg_kind(text):
    if "does not provide configuration" in text:
        return "noconfig"
    if "Unknown plugin" in text:
        return "unknown"
    if "At least one config base" in text:
        return "nobase"
    if "Unrecognized plugin specification" in text:
        return "spec"
    return "other"


def execute_load(root, w, q, route):
    from esrally import exceptions
    from esrally.mechanic import team
    from esrally.utils import opts

    if q["k"] == "list":
        ds = team.PluginLoader(root).plugins()
        names = [d.name for d in ds]
        core = [d for d in ds if d.config is None]
        conf = [d for d in ds if d.config is not None]
        pos = {}
        for i, d in enumerate(w["dirs"]):
            for j, c in enumerate(d["cfgs"]):
                pos[(d["name"], c["c"])] = (i, j)
        conf.sort(key=lambda d: pos.get((d.name, d.config), (99, 99)))
        out = []
        for d in core + conf:
            p = _project_desc(root, d)
            p["config"] = [] if d.config is None else [str(d.config)]
            out.append(p)
        return {"ok": True, "exc": "-", "msg": "-", "at": 0, "ds": out, "srt": names == sorted(names)}
    params = _dict_of(q["params"])
    completed = [0]
    real = team.load_plugin

    def counting(*a, **kw):
        r = real(*a, **kw)
        completed[0] += 1
        return r

    try:
        if route == "direct":
            s = q["specs"][0]
            ds = [team.load_plugin(root, s["name"], list(s["cfgs"]) if (s["cfgs"] or params) else None, params)]
        else:
            team.load_plugin = counting
            try:
                text = ",".join(spec_text(s) for s in q["specs"])
                ds = team.load_plugins(root, opts.csv_to_list(text), params if params else None)
            finally:
                team.load_plugin = real
        return {"ok": True, "exc": "-", "msg": "-", "at": 0, "ds": [_project_desc(root, d) for d in ds], "srt": False}
    except (exceptions.RallyError, ValueError) as ex:
        return {"ok": False, "exc": type(ex).__name__, "msg": _msg_kind(str(ex)), "at": completed[0] + 1, "ds": [], "srt": False}


def random_world(rnd):
    names = ["analysis-icu", "my-plug", "repository-s3", "x-pack"]
    core = rnd.sample(names, rnd.randint(0, 3))
    dirs = []
    for n in rnd.sample(names, rnd.randint(0, 3)):
        cfgs = []
        for c in rnd.sample(["c1", "c2", "v", "e", "t"], rnd.randint(0, 4)):
            bases = [rnd.choice(["b1", "b2", "b3", ""]) for _ in range(rnd.randint(0, 3))]
            cfgs.append({"c": c, "bases": bases, "vars": {k: rnd.choice(["-", "-", c + k, "same"]) for k in KEYS}})
        dirs.append({"name": n, "cfgs": cfgs})
    return {"core": core, "dirs": dirs}


def random_request(rnd):
    if rnd.random() < 0.05:
        return {"k": "list", "specs": [], "params": _novars()}
    specs = []
    for _ in range(rnd.randint(1, 3)):
        n = rnd.choice(NAME_ORDER)
        x = rnd.random()
        if x < 0.3:
            specs.append({"name": n, "colons": 0, "cfgs": []})
        else:
            cfgs = [rnd.choice(["c1", "c2", "v", "e", "t", "nope", ""]) for _ in range(rnd.randint(1, 3))]
            specs.append({"name": n, "colons": 2 if x > 0.95 else 1, "cfgs": cfgs})
    return {"k": "load", "specs": specs, "params": {k: rnd.choice(["-", "-", "p" + k]) for k in KEYS}}


class _Trees:
    """One real directory tree per distinct world."""

    def __init__(self, scratch):
        self.scratch = scratch
        self.known = {}

    def root(self, w):
        key = json.dumps(w, sort_keys=True)
        if key not in self.known:
            self.known[key] = build_world(os.path.join(self.scratch, "w%d" % len(self.known)), w)
        return self.known[key]


def _report(out, stats, v, index, label, what):
    bad = set(v.l2) | {tid for tid, fails in v.l1.items() if any(c not in PINNED for _, cl in fails for c in cl)}
    out.traces_validated += max(0, v.n_items - len(bad))
    from ..core import Violation

    for tid, fails in sorted(v.l1.items()):
        item = index[tid]
        for _ln, clauses in fails:
            for c in clauses:
                stats["l1"][c] = stats["l1"].get(c, 0) + 1
                if c in PINNED:
                    rec = out.extra.setdefault("pinned_behaviour_observed", {}).setdefault(c, {"switch": PINNED[c][0], "what": PINNED[c][1], "cases": 0, "example": None, "size": 10**9})
                    rec["cases"] += 1
                    size = len(json.dumps(item))
                    if size < rec["size"]:
                        rec["size"], rec["example"] = size, item
                elif len(out.violations) < 20:
                    out.violations.append(Violation(c, item, {"clause": c, "part": what}, "%s: clause %s does not hold for the recorded execution %s" % (tid, c, json.dumps(item, sort_keys=True)[:700])))
    for tid in sorted(v.l2):
        stats["l2"] += 1
        if len(out.drift) < 20:
            out.drift.append("%s case %s (%s): the recorded execution is not the one of the transcription in specs/Plugins: %s" % (what, tid, label, json.dumps(index[tid], sort_keys=True)[:900]))


def run_load_cases(trees, cases, out, label, stats):
    items, index = [], {}
    for ci, case in enumerate(cases):
        w, q = case["w"], case["q"]
        root = trees.root(w)
        routes = ["plugins"]
        if q["k"] == "load" and len(q["specs"]) == 1 and q["specs"][0]["colons"] < 2 and (q["specs"][0]["colons"] == 0) == (not q["specs"][0]["cfgs"]):
            routes.append("direct")
        for route in routes:
            tid = "%s-%d-%s" % (label, ci, route)
            r = execute_load(root, w, q, route)
            item = {"id": tid, "w": w, "q": q, "r": r}
            items.append(item)
            index[tid] = item
            out.add_case({"part": "load", "w": w, "q": q, "route": route}, nontrivial=bool(w["core"] or w["dirs"]))
            stats["load_cases"] += 1
            key = "res_" + ("list" if q["k"] == "list" else "ok" if r["ok"] else r["msg"])
            stats[key] = stats.get(key, 0) + 1
            if case.get("model") is not None:
                stats["s2c"] += 1
                m = dict(case["model"], srt=r["srt"])
                stats["s2c_followed"] += json.dumps(m, sort_keys=True) == json.dumps(r, sort_keys=True)
    v = tracecheck.validate(SPEC, "TracePlugins", "TracePlugins.cfg", items, name="xpltrace", timeout=600, chunk=4000)
    out.states += v.n_events
    out.transitions += v.n_events
    _report(out, stats, v, index, label, "resolution")
    return items


# ---------------------------------------------------------------------------------------------------------------------------------
# part 2: installation
# ---------------------------------------------------------------------------------------------------------------------------------
HOOK_PY = '''import builtins


def _rec(n):
    def hook(config_names, variables, **kwargs):
        builtins._verif_plugins_log.append({"k": "hook", "i": %(i)d, "b": "-", "n": n,
            "v": {k: str(variables.get(k, "-")) for k in ("x", "y")},
            "m": list(variables["cluster_settings"].get("plugin.mandatory", []))})
        # a hook may change what it got: nobody else must notice
        variables["x"] = "changed-by-hook"
    hook.__name__ = "hook%%d" %% n
    return hook


%(register)s
'''
REGISTER = {
    "empty": "def register(registry):\n    pass\n",
    "one": "def register(registry):\n    registry.register('post_install', _rec(1))\n",
    "two": "def register(registry):\n    registry.register('post_install', _rec(1))\n    registry.register('post_install', _rec(2))\n",
    "badphase": "def register(registry):\n    registry.register('post_install', _rec(1))\n    registry.register('pre_install', _rec(2))\n",
    "noreg": "def setup(registry):\n    pass\n",
}
TEMPLATE = '{{x|default("-")}}|{{y|default("-")}}|{{cluster_settings.get("plugin.mandatory", [])|join(",")}}'


def _write_hook(d, entry, i, hk):
    os.makedirs(d, exist_ok=True)
    if hk != "none":
        with open(os.path.join(d, entry + ".py"), "w", encoding="utf-8") as f:
            f.write(HOOK_PY % {"i": i, "register": REGISTER[hk]})


def _write_templates(path, fname):
    os.makedirs(os.path.join(path, "config"), exist_ok=True)
    with open(os.path.join(path, "config", fname), "w", encoding="utf-8") as f:
        f.write(TEMPLATE)


def execute_install(scratch, w):
    """Real ElasticsearchInstaller (unpacking replaced) + real PluginInstallers + real BareProvisioner.prepare with the real _apply_config;
    process.run_subprocess_with_logging is scripted with the return codes of the world."""
    from esrally import exceptions
    from esrally.mechanic import provisioner, team

    shutil.rmtree(scratch, ignore_errors=True)
    os.makedirs(scratch)
    log = []
    builtins._verif_plugins_log = log
    sys_path = list(sys.path)
    es_home = os.path.join(scratch, "node", "install", "elasticsearch-1.0")
    car_root = os.path.join(scratch, "team", "cars", "v1", "vanilla")
    _write_hook(car_root, "config", 0, w["car"]["hk"])
    car_paths = []
    src_of = {}
    for b in range(w["car"]["nb"]):
        p = os.path.join(car_root, "cb%d" % (b + 1), "templates")
        _write_templates(p, "car_%d.txt" % b)
        car_paths.append(p)
        src_of[p] = ("carcfg", 0, "cb%d" % (b + 1), "car_%d.txt" % b)
    car_vars = dict(_dict_of(w["car"]["vars"]), **{"runtime.jdk": "17", "runtime.jdk.bundled": "true"})
    car = team.Car("vanilla", car_root, car_paths, car_vars)
    descriptors = []
    binaries = {"elasticsearch": "/verif/elasticsearch.tar.gz"}
    for i, p in enumerate(w["ps"], 1):
        root = os.path.join(scratch, "team", "plugins", "v1", p["name"].replace("-", "_"))
        _write_hook(root, "plugin", i, p["hk"])
        paths = []
        for j, b in enumerate(p["paths"]):
            cp = os.path.join(root, b, "templates")
            _write_templates(cp, "plugin_%d_%d.txt" % (i, j))
            paths.append(cp)
            src_of[cp] = ("cfg", i, b, "plugin_%d_%d.txt" % (i, j))
        descriptors.append(team.PluginDescriptor(p["name"], core_plugin=p["core"], config=["c1"] if paths else None, root_path=root if p["hk"] != "none" or paths else None, config_paths=paths, variables=_dict_of(p["vars"])))
        if p["url"]:
            binaries[p["name"]] = URL % i

    class EsInstaller(provisioner.ElasticsearchInstaller):
        def install(self, binary):
            os.makedirs(os.path.join(es_home, "config"))
            os.makedirs(os.path.join(es_home, "bin"))
            self.es_home_path = es_home
            self.data_paths = self._data_paths()
            log.append({"k": "es", "i": 0, "b": "-", "n": 0, "v": _novars(), "m": []})

    calls = [0]

    def fake_run(cmd, *args, **kwargs):
        calls[0] += 1
        i = calls[0]
        p = w["ps"][i - 1] if i <= len(w["ps"]) else None
        want = os.path.join(es_home, "bin", "elasticsearch-plugin") + ' install --batch "%s"'
        if p is not None and cmd == want % (URL % i):
            b = "url"
        elif p is not None and cmd == want % p["name"]:
            b = "name"
        else:
            b = "?" + str(cmd)
        log.append({"k": "inst", "i": i, "b": b, "n": 0, "v": _novars(), "m": []})
        return p["rc"] if p is not None else 0

    def apply_config(source_root_path, target_root_path, config_vars):
        k, i, b, fname = src_of.get(source_root_path, ("cfg", 0, "?" + source_root_path, None))
        provisioner._apply_config(source_root_path, target_root_path, config_vars)  # pylint: disable=protected-access
        v, m = _novars(), []
        if fname:
            with open(os.path.join(target_root_path, "config", fname), encoding="utf-8") as f:
                x, y, mand = f.read().rstrip("\n").split("|")
            v, m = {"x": x, "y": y}, [t for t in mand.split(",") if t]
        log.append({"k": k, "i": i, "b": b, "n": 0, "v": v, "m": m})

    real_run = provisioner.process.run_subprocess_with_logging
    provisioner.process.run_subprocess_with_logging = fake_run
    pc, err = "done", "-"
    try:
        try:
            es = EsInstaller(car, None, "node0", "cluster", os.path.join(scratch, "node"), ["127.0.0.1"], ["node0"], "127.0.0.1", 39200)
            installers = [provisioner.PluginInstaller(d, None) for d in descriptors]
        except exceptions.RallyError as ex:
            return {"pc": "failed", "err": type(ex).__name__, "log": list(log)}
        prov = provisioner.BareProvisioner(es, installers, distribution_version="1.0", apply_config=apply_config)
        try:
            prov.prepare(binaries)
        except exceptions.RallyError as ex:
            pc, err = "failed", type(ex).__name__
    finally:
        provisioner.process.run_subprocess_with_logging = real_run
        sys.path[:] = sys_path
        del builtins._verif_plugins_log
    return {"pc": pc, "err": err, "log": list(log)}


def random_install_world(rnd):
    hks = ["none", "none", "empty", "one", "one", "two"]
    names = rnd.sample(["analysis-icu", "my-plug", "repository-s3", "repository-gcs", "x-pack", "zeta"], rnd.randint(0, 4))
    bad = rnd.random() < 0.1
    ps = []
    for n in names:
        ps.append(
            {
                "name": n,
                "core": rnd.random() < 0.4,
                "vars": {k: rnd.choice(["-", "-", n[:2] + k]) for k in KEYS},
                "paths": rnd.sample(["b1", "b2", "b3"], rnd.randint(0, 3)),
                "hk": rnd.choice(hks + (["badphase", "noreg"] if bad else [])),
                "rc": rnd.choice([0, 0, 0, 0, 0, 0, 64, 74, 1, 2, 65, 130]),
                "url": rnd.random() < 0.4,
            }
        )
    return {"car": {"vars": {k: rnd.choice(["-", "c" + k]) for k in KEYS}, "hk": rnd.choice(hks + (["badphase"] if bad and rnd.random() < 0.3 else [])), "nb": rnd.randint(1, 2)}, "ps": ps}


def run_install_cases(scratch, cases, out, label, stats):
    items, index = [], {}
    for ci, case in enumerate(cases):
        w = case["w"]
        tid = "%s-%d" % (label, ci)
        r = execute_install(os.path.join(scratch, "inst"), w)
        item = {"id": tid, "w": w, "pc": r["pc"], "err": r["err"], "log": r["log"]}
        items.append(item)
        index[tid] = item
        out.add_case({"part": "install", "w": w}, nontrivial=bool(w["ps"]))
        stats["install_cases"] += 1
        stats["inst_" + (r["err"] if r["pc"] == "failed" else "done")] = stats.get("inst_" + (r["err"] if r["pc"] == "failed" else "done"), 0) + 1
        stats["hooks_run"] += sum(1 for e in r["log"] if e["k"] == "hook")
        stats["templates_rendered"] += sum(1 for e in r["log"] if e["k"] in ("cfg", "carcfg"))
        if case.get("model") is not None:
            stats["s2c"] += 1
            stats["s2c_followed"] += json.dumps(case["model"], sort_keys=True) == json.dumps(r, sort_keys=True)
    v = tracecheck.validate(SPEC, "TracePluginInstall", "TracePluginInstall.cfg", items, name="xpitrace", timeout=600, chunk=2000)
    out.states += v.n_events
    out.transitions += v.n_events
    _report(out, stats, v, index, label, "installation")
    return items


# ---------------------------------------------------------------------------------------------------------------------------------
def _run_tlc(module, cfg, dump=False, **kw):
    wd = tlc.prepare_workdir(SPEC, "xplmc")
    d = os.path.join(wd, "states") if dump else None
    res = tlc.run_tlc(wd, module, cfg, dump=d, **kw)
    if dump:
        res.dump = d if os.path.exists(d) else d + ".dump"
    return res


SELFTESTS = [
    ("Plugins.pinned.params.cfg", "IPlainParams", "CoreKeepsParams=FALSE (code): core plugin analysis-icu without directory, --plugin-params x:px -> variables {}"),
    ("Plugins.pinned.list.cfg", "IListSorted", "ListSorted=FALSE (code): core-plugins.txt = repository-s3, analysis-icu is listed in that order"),
]


def run(ctx, out):
    out.rule = (
        "case = world (core-plugins.txt lines, plugin directories with ini files: bases + variables) + request (plugin specs name[:cfg+cfg], plugin params | listing) + route "
        "(load_plugins via opts.csv_to_list | load_plugin directly), resp. world of an installation (car variables/hooks/bases, plugin descriptors with variables, config paths, "
        "hook file kind, installer return code, download URL); distinct by hash of that input. Sources: every state of the TLC runs (S2C, exhaustive for the configuration), "
        "seeded random worlds (C2S only)."
    )
    out.exhaustive = True
    out.assumptions = [
        "variables are two keys (x, y); values are plain words (no ${...} interpolation of configparser.ExtendedInterpolation, no Jinja logic in values)",
        "installation: PluginDescriptors are built directly (not via load_plugin); ElasticsearchInstaller.install is replaced (no archive is unpacked), everything else is the real code: "
        "hook files are loaded by the real BootstrapHookHandler / ComponentLoader, templates are rendered by the real _apply_config and read back, "
        "process.run_subprocess_with_logging is scripted with the world's return codes",
        "not modelled: hooks that raise, team.list_plugins' console output, DockerProvisioner, a plugins/v1 directory that is missing, plugin names containing ':' or ',', "
        "config base directories that do not exist, PluginInstaller.sub_plugin_name / env (JAVA_HOME)",
    ]
    import logging

    logging.getLogger("esrally").addHandler(logging.NullHandler())
    scratch = ctx.scratch("xplugins")
    stats = {k: 0 for k in "load_cases install_cases s2c s2c_followed l2 hooks_run templates_rendered".split()}
    stats["l1"] = {}
    try:
        _run(ctx, out, scratch, stats)
    finally:
        shutil.rmtree(scratch, ignore_errors=True)


def _run(ctx, out, scratch, stats):
    tier = "quick" if ctx.quick else "thorough"
    # ---- leg M
    main = _run_tlc("MC_Plugins", "Plugins.%s.cfg" % tier, dump=True, timeout=600, workers=4)
    out.add_tlc(main)
    out.note("leg M Plugins.%s.cfg: %d distinct states, %.1fs" % (tier, main.distinct, main.wall_s))
    inst = _run_tlc("MC_PluginInstall", "PluginInstall.%s.cfg" % tier, dump=True, timeout=600, workers=4)
    out.add_tlc(inst)
    out.note("leg M PluginInstall.%s.cfg: %d distinct states, %.1fs" % (tier, inst.distinct, inst.wall_s))
    intended = _run_tlc("MC_Plugins", "Plugins.intended.cfg", timeout=300, workers=4)
    out.add_tlc(intended)
    for cfg, inv, text in SELFTESTS:
        res = _run_tlc("MC_Plugins", cfg, timeout=120, workers=1, allow_violation=True)
        if res.invariant_violated != inv:
            raise tlc.MachineryError("self-test failed: %s no longer violates %s (%s)" % (cfg, inv, res.invariant_violated or res.error))
        out.extra.setdefault("model_selftests", []).append("%s violates %s in the model, as expected: %s" % (cfg, inv[1:], text))
    # ---- leg S2C + C2S, part 1
    table = []
    for st in fastdump.parse_dump(main.dump, skip_containing="done = FALSE"):
        if st is None:
            continue
        st = fastdump._norm(st)  # pylint: disable=protected-access
        table.append({"w": st["w"], "q": st["q"], "model": st["res"]})
    table.sort(key=lambda c: json.dumps([c["w"], c["q"]], sort_keys=True))
    if len(table) * 2 != main.distinct:
        raise tlc.MachineryError("dump has %d evaluated states, TLC reports %d distinct states" % (len(table), main.distinct))
    trees = _Trees(os.path.join(scratch, "trees"))
    s0 = stats["s2c_followed"]
    items = run_load_cases(trees, table, out, "tab", stats)
    out.note("leg S2C resolution: %d (world, request) pairs from TLC on %d directory trees, the real code gives the model's result in %d of %d executions" % (len(table), len(trees.known), stats["s2c_followed"] - s0, stats["s2c"]))
    ex = next((it for it in items if it["r"]["ok"] and it["q"]["k"] == "load" and it["r"]["ds"][0]["paths"]), items[0])
    out.sample({"source": "tlc", "part": "resolution", "world": ex["w"], "request": ex["q"], "recorded": ex["r"]})
    rnd = random.Random(ctx.seed + 31)
    rc = []
    for _ in range(150 if ctx.quick else 1500):
        w = random_world(rnd)
        rc.extend({"w": w, "q": random_request(rnd)} for _ in range(12))
    ritems = run_load_cases(trees, rc, out, "rnd", stats)
    out.sample({"source": "random", "part": "resolution", "world": ritems[0]["w"], "request": ritems[0]["q"], "recorded": ritems[0]["r"]})
    # ---- part 2
    itable = []
    for st in fastdump.parse_dump(inst.dump):
        st = fastdump._norm(st)  # pylint: disable=protected-access
        if st["pc"] in ("done", "failed"):
            itable.append({"w": st["w"], "model": {"pc": st["pc"], "err": st["err"], "log": st["log"]}})
    itable.sort(key=lambda c: json.dumps(c["w"], sort_keys=True))
    if not itable:
        raise tlc.MachineryError("no terminal state in the dump of PluginInstall")
    s0, n0 = stats["s2c_followed"], stats["s2c"]
    iitems = run_install_cases(scratch, itable, out, "itab", stats)
    out.note("leg S2C installation: %d worlds from TLC, the real provisioning gives the model's log and outcome in %d of %d executions" % (len(itable), stats["s2c_followed"] - s0, stats["s2c"] - n0))
    ex = next((it for it in iitems if it["pc"] == "done" and len(it["w"]["ps"]) >= 2 and any(e["k"] == "hook" and e["i"] > 0 for e in it["log"])), iitems[0])
    out.sample({"source": "tlc", "part": "installation", "world": ex["w"], "recorded": {"pc": ex["pc"], "err": ex["err"], "log": [[e["k"], e["i"], e["b"], e["n"]] for e in ex["log"]]}})
    rnd = random.Random(ctx.seed + 32)
    run_install_cases(scratch, [{"w": random_install_world(rnd)} for _ in range(400 if ctx.quick else 5000)], out, "irnd", stats)
    out.extra["coverage_of_cases"] = stats
    out.note("leg C2S: %d resolution and %d installation executions validated by TLC, %d accepted; %s" % (stats["load_cases"], stats["install_cases"], out.traces_validated, json.dumps({k: v for k, v in sorted(stats.items()) if k.startswith(("res_", "inst_"))})))
    for key in "res_ok res_list res_spec res_noconfig res_unknown res_nobase inst_done inst_SystemSetupError inst_SupplyError inst_RallyError hooks_run templates_rendered".split():
        if not stats.get(key):
            out.vacuous.append("no executed case exercised: " + key)
    # ---- binding self-test: corrupted recordings must be rejected
    _binding_selftest(out, items, iitems)
    for key, rec in sorted(out.extra.get("pinned_behaviour_observed", {}).items()):
        rec.pop("size", None)
        ex = rec["example"]
        out.note("pinned behaviour of /repo (strong clause %s fails in %d cases; model switch %s = FALSE): %s; smallest example %s" % (key, rec["cases"], rec["switch"], rec["what"], json.dumps({"w": ex["w"], "q": ex["q"], "r": ex["r"]}, sort_keys=True)[:600]))
    for c in PINNED:
        if c not in out.extra.get("pinned_behaviour_observed", {}) and not (out.violations or out.drift):
            out.note("pinned behaviour %s (switch %s) was NOT observed on this tree" % (c, PINNED[c][0]))
    if out.vacuous:
        out.note("VACUOUS: %s" % out.vacuous)


def _binding_selftest(out, items, iitems):
    base = next((it for it in items if it["r"]["ok"] and it["q"]["k"] == "load" and it["q"]["params"]["x"] != "-" and it["r"]["ds"][0]["paths"] and len(it["r"]["ds"][0]["paths"]) > 1), None)
    ibase = next((it for it in iitems if it["pc"] == "done" and len(it["w"]["ps"]) >= 2 and sum(1 for e in it["log"] if e["k"] == "hook") >= 2), None)
    if base is None or ibase is None:
        if not (out.violations or out.drift):
            raise tlc.MachineryError("binding self-test: no suitable recorded case")
        out.note("binding self-test skipped: no recorded case is suitable")
        return
    m1 = copy.deepcopy(base)
    m1["id"] = "bind-params"
    m1["r"]["ds"][0]["vars"]["x"] = "c1x"
    m2 = copy.deepcopy(base)
    m2["id"] = "bind-paths"
    m2["r"]["ds"][0]["paths"].reverse()
    v = tracecheck.validate(SPEC, "TracePlugins", "TracePlugins.cfg", [m1, m2], name="xplbind")
    want = {"bind-params": "ParamsWin", "bind-paths": "PathsOrder"}
    missed = [m for m, c in want.items() if not any(c in cl for _, cl in v.l1.get(m, [])) or m not in v.l2]
    n1 = copy.deepcopy(ibase)
    n1["id"] = "bind-hookfirst"
    hooks = [e for e in n1["log"] if e["k"] == "hook"]
    rest = [e for e in n1["log"] if e["k"] != "hook"]
    n1["log"] = rest[:-1] + hooks[:1] + rest[-1:] + hooks[1:]
    n2 = copy.deepcopy(ibase)
    n2["id"] = "bind-order"
    insts = [j for j, e in enumerate(n2["log"]) if e["k"] == "inst"]
    n2["log"][insts[0]]["i"], n2["log"][insts[1]]["i"] = n2["log"][insts[1]]["i"], n2["log"][insts[0]]["i"]
    v2 = tracecheck.validate(SPEC, "TracePluginInstall", "TracePluginInstall.cfg", [n1, n2], name="xpibind")
    want2 = {"bind-hookfirst": "HooksAfterAllInstalls", "bind-order": "InOrderOnce"}
    missed += [m for m, c in want2.items() if not any(c in cl for _, cl in v2.l1.get(m, [])) or m not in v2.l2]
    if missed:
        raise tlc.MachineryError("binding self-test failed: corrupted recordings accepted: %s (%s / %s)" % (missed, sorted(v.l1.items()), sorted(v2.l1.items())))
    out.extra["binding_selftest"] = "recordings with a configuration value instead of the plugin param (ParamsWin), reversed config paths (PathsOrder), a hook before the last installation (HooksAfterAllInstalls) and swapped installations (InOrderOnce) are rejected by TLC (L1 and L2)"
