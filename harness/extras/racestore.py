"""RaceStore (extra) - the history of races as a store (esrally/metrics.py: Race.as_dict / from_dict, FileRaceStore, EsRaceStore,
CompositeRaceStore, race_store, list_races; racecontrol.BenchmarkCoordinator as the writer), specs/RaceStore.
Specified: sequences of store_race / find_by_race_id / list (filters --track, --benchmark-name, --from-date, --to-date, --challenge,
--limit) / delete_race / storing a loaded race / a cancelled benchmark, under the file store (races/<id>/race.json below the root
directory), the Elasticsearch store (_id = race id in index rally-races-YYYY-MM, template put on every store) and the composite
(writes both, reads Elasticsearch), with interventions (unreadable / foreign race.json, removed directory, malformed document in an index).
Invariants (L1, intended behaviour): StoreExact (find(store(r)) = r field by field: everything survives except microseconds, empty vs
absent params and the meta data; one document per race id - a second store replaces, results added later are visible; nothing else
changes), CompositeAgree, FindExact (NotFound iff the store holds no readable race of that id), ListTotal / ListSorted / ListLimit /
ListSound / ListComplete (exactly the stored readable races matching ALL filters, newest first, at most limit, each once; unreadable
files are skipped, not raised), DeleteExact (exactly the races of the ids in the configuration's environment; race.json files stay),
ReadOnly, EsLayout.  The code as it is deviates (model switches, each with a pinned self-test; reported as L1 findings):
NameFilterSound (file list with --benchmark-name: a race tagged name AND benchmark-name is listed twice; with --track the races
matching only by benchmark-name are dropped), FileChallengeFilter (file list ignores --challenge), StoreByRaceId (FileRaceStore.store_race
writes races/<cfg race.id>/race.json, not races/<race.race_id>/; latent: the ids agree for races made by create_race), EsOneDocPerRace
(a race id stored again with a timestamp in another month leaves two documents and find_by_race_id raises RallyAssertionError).

Leg M   : TLC on specs/RaceStore (history of 2 ids x 3 backends, record round trip over all special field combinations, 5 self-tests).
Leg S2C : TLC -simulate behaviours and the Store states of the record configuration (TLC dump) are executed on the REAL classes: scratch
          root directory, real EsClient + elasticsearch.helpers.bulk on a fake Elasticsearch that evaluates the query DSL subset used.
Leg C2S : every execution (S2C ones, directed ones, seeded random ones) is recorded (stores read back from disk / the fake index by the
          harness itself, returned races projected field by field) and validated by TLC against TraceRaceStore.tla (L1 / L2).
"""
import calendar
import copy
import datetime
import fnmatch
import glob
import json
import logging
import os
import random
import re
import shutil
import zlib
from unittest import mock

from .. import tlc, tracecheck
from ..core import Violation
from ..tlaparse import parse_simulation_file, parse_state, to_json
from . import esstore as _es

TPD = 2
DPM = 2
MONTHS = [(2025, 12), (2026, 1), (2026, 2)]
NTICKS = TPD * DPM * len(MONTHS)
DIRS = ["a", "b", "c", "d"]
ENVS = ["e1", "e2"]
TP = {"bulk_size": 500, "nested": {"a": [1, 2]}}
CP = {"heap_size": "4g"}
PP = {"x-pack": ["security"]}
PARAM_VALUES = {"tp": TP, "cp": CP, "pp": PP}
PARAM_KEYS = {"tp": "track-params", "cp": "car-params", "pp": "plugin-params"}
DIST = {  # distribution version, flavor, revision, team revision
    "none": (None, None, None, None),
    "v1": ("8.11.0", "default", "abcdef1", "t123"),
    "mix": ("8.11.0", None, None, "t123"),
}
TAG_KEYS = {"name": "name", "bname": "benchmark-name", "other": "other"}
NO_TAGS = {"name": "", "bname": "", "other": ""}
NO_DOC = {
    "id": "", "env": "", "ts": 0, "track": "", "chal": "", "car": [], "tags": NO_TAGS, "tp": "none", "cp": "none", "pp": "none",
    "trev": "none", "dist": "none", "res": 0, "meta": 0, "rv": "", "rr": "none", "pipe": "",
}  # fmt: skip
NO_RET = {"err": "none", "races": []}
NO_QUERY = {"env": "", "from": -1, "to": -1, "fmt": "", "track": "", "name": "", "chal": "", "size": -1, "order": "", "index": "", "other": 0}
MANDATORY = ("rally-version", "environment", "race-id", "race-timestamp", "pipeline", "track", "car")
BAD_FLAVOURS = ("truncated", "empty", "nokey", "nodict", "badts", "binary", "nullts")
TS_FMT = "%Y%m%dT%H%M%SZ"


def _repo():
    return os.environ.get("VERIF_REPO", "/repo")


def _quiet():
    _es._quiet()  # pylint: disable=protected-access
    for name in ("esrally.racecontrol", "esrally.reporter"):
        lg = logging.getLogger(name)
        lg.addHandler(logging.NullHandler())
        lg.propagate = False
        lg.setLevel(logging.CRITICAL + 1)


# ---------------------------------------------------------------------------------------------------
# time: ticks of the specification <-> datetimes / dates / index names
# ---------------------------------------------------------------------------------------------------
def tick_to_dt(t, sub=0):
    y, m = MONTHS[t // (TPD * DPM)]
    day = 1 if (t // TPD) % DPM == 0 else calendar.monthrange(y, m)[1]
    h, mi, s = (0, 0, 0) if t % TPD == 0 else (23, 59, 59)
    return datetime.datetime(y, m, day, h, mi, s, 123456 if sub else 0)


_TICK_OF = {tick_to_dt(t): t for t in range(NTICKS)}


def dt_to_tick(dt):
    """(tick, sub); tick -1 when the value is not a datetime of the grid"""
    if not isinstance(dt, datetime.datetime) or dt.tzinfo is not None:
        return -1, 0
    return _TICK_OF.get(dt.replace(microsecond=0), -1), 1 if dt.microsecond else 0


def day_to_str(k):
    return tick_to_dt(k * TPD).strftime("%Y%m%d")


def str_to_day(s):
    for k in range(NTICKS // TPD):
        if day_to_str(k) == s:
            return k
    return -2


def index_name(month):
    return "rally-races-%04d-%02d" % MONTHS[month]


def month_of_index(name):
    for i in range(len(MONTHS)):
        if index_name(i) == name:
            return i
    return -1


# ---------------------------------------------------------------------------------------------------
# abstract race <-> real objects / JSON documents
# ---------------------------------------------------------------------------------------------------
def results_obj(k):
    from esrally import metrics

    g = metrics.GlobalStats()
    g.young_gc_time = 100 * k
    g.total_time = 1.5 * k
    g.total_time_per_shard = {"min": 0.25 * k, "median": 0.5, "max": 2.75, "unit": "min"}
    g.add_op_metrics(
        "index #%d" % k, "bulk", {"min": 1000.5 * k, "mean": 1200.25, "median": 1250, "max": 1500, "unit": "docs/s"},
        {"50_0": 2.5, "100_0": 3.75 * k, "mean": 2.9, "unit": "ms"}, {"50_0": 2.25, "unit": "ms"}, {"50_0": 2.0, "unit": "ms"}, 0.0, 12345 * k, {"k": k},
    )  # fmt: skip
    return g


_RES_JSON = {}


def results_json(k):
    if k not in _RES_JSON:
        _RES_JSON[k] = json.loads(json.dumps(results_obj(k).as_dict()))
    return _RES_JSON[k]


def _res_version(val):
    """0 = no results, k = the results of version k (deep equality after a JSON round trip), -1 = anything else"""
    if val is None or val == {}:
        return 0
    if hasattr(val, "as_dict"):
        val = json.loads(json.dumps(val.as_dict()))
    for k in (1, 2, 3):
        if val == results_json(k):
            return k
    return -1


def _param(val, which):
    if val is None:
        return "none"
    if val == {}:
        return "empty"
    return "set" if val == PARAM_VALUES[which] else "other"


def _param_value(p, which):
    return None if p == "none" else {} if p == "empty" else copy.deepcopy(PARAM_VALUES[which])


def _tags_record(d):
    if not isinstance(d, dict) or any(k not in TAG_KEYS.values() for k in d):
        return {"name": "?", "bname": "?", "other": "?"}
    return {f: (d[k] if isinstance(d.get(k), str) else "" if k not in d else "?") for f, k in TAG_KEYS.items()}


def _tags_dict(tags):
    return {TAG_KEYS[f]: v for f, v in tags.items() if v != ""}


def _dist_name(tup):
    for k, v in DIST.items():
        if tuple(tup) == v:
            return k
    return "other"


def _s(v, none="none"):
    return none if v is None else v if isinstance(v, str) else "?"


def make_race(r):
    """the Race object a benchmark with the abstract race r creates (track / challenge objects, results object)"""
    from esrally import metrics, track

    t = track.Track(name=r["track"], meta_data={"tk": "v"} if r["meta"] else None)
    ch = track.Challenge(name=r["chal"], default=True, auto_generated=bool(r["auto"]))
    t.challenges.append(ch)
    dv, df, rev, team = DIST[r["dist"]]
    return metrics.Race(
        r["rv"], None if r["rr"] == "none" else r["rr"], r["env"], r["id"], tick_to_dt(r["ts"], r["sub"]), r["pipe"], _tags_dict(r["tags"]), t,
        _param_value(r["tp"], "tp"), ch, list(r["car"]), _param_value(r["cp"], "cp"), _param_value(r["pp"], "pp"),
        track_revision=None if r["trev"] == "none" else "" if r["trev"] == "empty" else r["trev"],
        team_revision=team, distribution_version=dv, distribution_flavor=df, revision=rev, results=results_obj(r["res"]) if r["res"] else None,
    )  # fmt: skip


def doc_json(d, old=False):
    """the JSON document with the content of the abstract document d (old: written by an older Rally: no cluster / user-tags / rally-revision keys)"""
    dv, df, rev, team = DIST[d["dist"]]
    o = {
        "rally-version": d["rv"], "environment": d["env"], "race-id": d["id"], "race-timestamp": tick_to_dt(d["ts"]).strftime(TS_FMT),
        "pipeline": d["pipe"], "track": d["track"], "car": list(d["car"]),
    }  # fmt: skip
    if not (old and d["rr"] == "none"):
        o["rally-revision"] = None if d["rr"] == "none" else d["rr"]
    if not (old and d["tags"] == NO_TAGS):
        o["user-tags"] = _tags_dict(d["tags"])
    if not (old and d["dist"] == "none"):
        o["cluster"] = {"revision": rev, "distribution-version": dv, "distribution-flavor": df, "team-revision": team}
    if d["chal"]:
        o["challenge"] = d["chal"]
    for f, key in PARAM_KEYS.items():
        if d[f] != "none":
            o[key] = _param_value(d[f], f)
    if d["trev"] != "none":
        o["track-revision"] = "" if d["trev"] == "empty" else d["trev"]
    if d["res"]:
        o["results"] = results_json(d["res"])
    if d["meta"]:
        o["meta"] = {"tk": "v"}
    return o


def project_raw(o, pipe=None):
    """ground truth, independent of Race.from_dict: (k, d) for what is stored; pipe: the pipeline of a document planted without that key"""
    if not isinstance(o, dict):
        return "bad", NO_DOC
    if pipe is not None and "pipeline" not in o:
        k, d = project_raw(dict(o, pipeline=pipe))
        return ("bad", d) if k == "ok" else ("bad", NO_DOC)
    if any(key not in o for key in MANDATORY):
        return "bad", NO_DOC
    try:
        ts = datetime.datetime.strptime(o["race-timestamp"], TS_FMT)
    except (ValueError, TypeError):
        return "bad", NO_DOC
    cl = o.get("cluster", {}) or {}
    d = {
        "id": _s(o["race-id"], "?"), "env": _s(o["environment"], "?"), "ts": dt_to_tick(ts)[0], "track": _s(o["track"], "?"),
        "chal": _s(o.get("challenge"), ""), "car": [_s(c, "?") for c in o["car"]] if isinstance(o["car"], list) else ["?" + str(o["car"])],
        "tags": _tags_record(o.get("user-tags", {})), "tp": _param(o.get("track-params"), "tp"), "cp": _param(o.get("car-params"), "cp"),
        "pp": _param(o.get("plugin-params"), "pp"), "trev": "empty" if o.get("track-revision") == "" else _s(o.get("track-revision")),
        "dist": _dist_name((cl.get("distribution-version"), cl.get("distribution-flavor"), cl.get("revision"), cl.get("team-revision"))),
        "res": _res_version(o.get("results")), "meta": 1 if o.get("meta") else 0, "rv": _s(o["rally-version"], "?"), "rr": _s(o.get("rally-revision")),
        "pipe": _s(o["pipeline"], "?"),
    }  # fmt: skip
    return "ok", d


def project_race(race):
    """a Race object returned by the store, field by field"""
    ts, sub = dt_to_tick(race.race_timestamp)
    car = race.car
    return {
        "id": _s(race.race_id, "?"), "env": _s(race.environment_name, "?"), "ts": ts, "sub": sub, "track": _s(race.track_name, "?"),
        "chal": _s(race.challenge_name, ""), "car": [_s(c, "?") for c in car] if isinstance(car, list) else ["?" + str(car)],
        "tags": _tags_record(race.user_tags), "tp": _param(race.track_params, "tp"), "cp": _param(race.car_params, "cp"), "pp": _param(race.plugin_params, "pp"),
        "trev": "empty" if race.track_revision == "" else _s(race.track_revision),
        "dist": _dist_name((race.distribution_version, race.distribution_flavor, race.revision, race.team_revision)),
        "res": _res_version(race.results), "meta": 1 if race.meta_data else 0, "rv": _s(race.rally_version, "?"), "rr": _s(race.rally_revision),
        "pipe": _s(race.pipeline, "?"), "tT": type(race.track).__name__, "cT": type(race.challenge).__name__, "rT": type(race.results).__name__,
    }  # fmt: skip


def expected_row(race):
    """the row list_races prints for a race (format_dict, car_name, to_iso8601), written down independently"""
    tags = race.user_tags
    return [
        race.race_id, race.race_timestamp.strftime(TS_FMT), race.track, race.challenge if isinstance(race.challenge, str) or race.challenge is None else str(race.challenge),
        "+".join(race.car) if isinstance(race.car, list) else race.car, race.distribution_version, race.revision, race.rally_version, race.track_revision,
        race.team_revision, ", ".join("%s=%s" % (k, tags[k]) for k in sorted(tags)) if tags else None,
    ]  # fmt: skip


# ---------------------------------------------------------------------------------------------------
# a fake Elasticsearch underneath the real EsClient: documents per index, the query DSL subset the race store uses
# ---------------------------------------------------------------------------------------------------
class Unsupported(Exception):
    """the request uses something this fake does not implement (a changed query is reported as drift, never guessed)"""


def _field(src, path):
    cur = src
    for part in path.split("."):
        if not isinstance(cur, dict) or part not in cur:
            return None
        cur = cur[part]
    return cur


def _parse_bound(val, fmt):
    if val is None:
        return None
    if fmt != "basic_date":
        raise Unsupported("range format %r" % (fmt,))
    try:
        return datetime.datetime.strptime(str(val), "%Y%m%d").date()
    except ValueError as ex:
        raise _es._api_error(400, "parse_exception") from ex  # pylint: disable=protected-access


def es_match(src, q):
    """does the document match the query (keyword terms; date range by day: lower bounds round down, upper bounds round up)"""
    if not isinstance(q, dict) or len(q) != 1:
        raise Unsupported("query %r" % (q,))
    (kind, body), = q.items()
    if kind == "match_all":
        return True
    if kind == "term":
        (field, val), = body.items()
        if isinstance(val, dict):
            val = val.get("value")
        have = _field(src, field)
        if have is None:
            return False
        if isinstance(have, list):
            return val in have
        return have == val
    if kind == "range":
        (field, spec), = body.items()
        if field != "race-timestamp" or any(k not in ("gte", "gt", "lte", "lt", "format") for k in spec):
            raise Unsupported("range %r" % (body,))
        raw = _field(src, field)
        try:
            day = datetime.datetime.strptime(raw, TS_FMT).date()
        except (ValueError, TypeError):
            return False
        fmt = spec.get("format")
        for op, test in (("gte", lambda b: day >= b), ("gt", lambda b: day > b), ("lte", lambda b: day <= b), ("lt", lambda b: day < b)):
            b = _parse_bound(spec.get(op), fmt) if op in spec else None
            if b is not None and not test(b):
                return False
        return True
    if kind == "bool":
        if any(k not in ("must", "filter", "should", "must_not", "minimum_should_match") for k in body):
            raise Unsupported("bool %r" % (body,))

        def lst(k):
            v = body.get(k, [])
            return v if isinstance(v, list) else [v]

        if not all(es_match(src, c) for c in lst("must") + lst("filter")):
            return False
        if any(es_match(src, c) for c in lst("must_not")):
            return False
        should = lst("should")
        if should:
            need = body.get("minimum_should_match", 0 if (lst("must") or lst("filter")) else 1)
            if sum(1 for c in should if es_match(src, c)) < int(need):
                return False
        return True
    raise Unsupported("query kind %r" % (kind,))


class _Indices:
    def __init__(self, fake):
        self._fake = fake

    def put_index_template(self, name=None, **tmpl):
        self._fake.templates[name] = tmpl
        return _es._response({"acknowledged": True})  # pylint: disable=protected-access


class FakeRaceEs:
    """documents per (index, _id); search / delete_by_query evaluate the query; the order among equal sort keys is shuffled (seeded)"""

    def __init__(self, seed):
        self.transport = _es._Transport()  # pylint: disable=protected-access
        self.indices = _Indices(self)
        self._client_meta = ()
        self.seed = seed
        self.legacy_total = seed % 4 == 0  # hits.total as a plain number (Elasticsearch < 7) instead of {"value": n, "relation": "eq"}
        self.templates = {}
        self.docs = {}  # (index, _id) -> {"src": source, "pipe": pipeline of a planted malformed document}
        self.auto = 0
        self.fail_next_index = False
        self.searches = []
        self.deletes = []

    def options(self, **kwargs):
        return self

    def bulk(self, *args, operations=None, index=None, **kwargs):
        ops = list(operations or [])
        items = []
        fail = self.fail_next_index
        self.fail_next_index = False
        for i in range(0, len(ops) - 1, 2):
            action = json.loads(ops[i])
            meta = action.get("index", action.get("create", {}))
            ix = meta.get("_index", index)
            doc_id = meta.get("_id")
            if fail and str(ix).startswith("rally-races-"):
                items.append({"index": {"_id": doc_id or "auto", "status": 400, "error": {"type": "verif_mapper_parsing_exception", "reason": "scripted"}}})
                continue
            if doc_id is None:
                self.auto += 1
                doc_id = "auto-%d" % self.auto
            created = (ix, doc_id) not in self.docs
            self.docs[(ix, doc_id)] = {"src": json.loads(ops[i + 1]), "pipe": None}
            items.append({"index": {"_id": doc_id, "status": 201 if created else 200, "result": "created" if created else "updated"}})
        return _es._response({"errors": any(it["index"]["status"] >= 300 for it in items), "took": 1, "items": items})  # pylint: disable=protected-access

    def _select(self, index, body):
        query = (body or {}).get("query", {"match_all": {}})
        keys = [k for k in self.docs if fnmatch.fnmatchcase(k[0], index)]
        return [k for k in keys if es_match(dict(self.docs[k]["src"], _index=k[0], _id=k[1]), query)]  # term queries may address the metadata fields

    def search(self, index=None, body=None, **kwargs):
        if kwargs:
            raise Unsupported("search arguments %r" % sorted(kwargs))
        body = body or {}
        if any(k not in ("query", "size", "sort") for k in body):
            raise Unsupported("search body keys %r" % sorted(body))
        self.searches.append({"index": index, "body": copy.deepcopy(body)})
        keys = sorted(self._select(index, body))
        random.Random(self.seed * 1000003 + zlib.crc32(json.dumps([index, body], sort_keys=True, default=str).encode())).shuffle(keys)
        for spec in reversed(body.get("sort", [])):
            (field, how), = spec.items()
            order = how.get("order", "asc") if isinstance(how, dict) else how
            if field != "race-timestamp" or order not in ("asc", "desc"):
                raise Unsupported("sort %r" % (spec,))
            keys.sort(key=lambda k: str(_field(self.docs[k]["src"], field)), reverse=order == "desc")
        size = body.get("size", 10)
        if isinstance(size, bool) or not isinstance(size, int):
            try:
                size = int(size)
            except (TypeError, ValueError) as ex:
                raise _es._api_error(400, "parsing_exception") from ex  # pylint: disable=protected-access
        if size < 0:
            raise _es._api_error(400, "illegal_argument_exception")  # pylint: disable=protected-access
        hits = [{"_index": k[0], "_id": k[1], "_score": None, "_source": copy.deepcopy(self.docs[k]["src"])} for k in keys[:size]]
        return _es._response({"took": 1, "timed_out": False, "hits": {"total": len(keys) if self.legacy_total else {"value": len(keys), "relation": "eq"}, "max_score": None, "hits": hits}})  # pylint: disable=protected-access

    def delete_by_query(self, index=None, body=None, **kwargs):
        if kwargs:
            raise Unsupported("delete_by_query arguments %r" % sorted(kwargs))
        self.deletes.append({"index": index, "body": copy.deepcopy(body)})
        keys = self._select(index, body)
        for k in keys:
            del self.docs[k]
        return _es._response({"took": 1, "deleted": len(keys), "total": len(keys), "failures": []})  # pylint: disable=protected-access


class _Factory:
    """client_factory_class of EsRaceStore / EsResultsStore"""

    def __init__(self, fake):
        self._fake = fake

    def __call__(self, cfg):
        return self

    def create(self):
        from esrally import metrics

        return metrics.EsClient(self._fake)


def project_query(search):
    """the search request of EsRaceStore.list as the record QueryOf of the specification; other = number of parts not recognised"""
    q = dict(NO_QUERY)
    q["index"] = str(search["index"])
    body = search["body"]
    other = 0
    size = body.get("size", -1)
    q["size"] = size if isinstance(size, int) and not isinstance(size, bool) and abs(size) < 2**31 else -2
    sort = body.get("sort", [])
    if len(sort) == 1 and isinstance(sort[0], dict) and list(sort[0]) == ["race-timestamp"] and isinstance(sort[0]["race-timestamp"], dict) and list(sort[0]["race-timestamp"]) == ["order"]:
        q["order"] = str(sort[0]["race-timestamp"]["order"])
    else:
        other += 1
    other += len([k for k in body if k not in ("query", "size", "sort")])
    bq = body.get("query", {})
    flt = bq.get("bool", {}).get("filter") if list(bq) == ["bool"] and list(bq["bool"]) == ["filter"] else None
    if not isinstance(flt, list):
        q["other"] = other + 1
        return q
    seen = set()
    for c in flt:
        kind = None
        if list(c) == ["term"] and len(c["term"]) == 1:
            (f, v), = c["term"].items()
            if f == "environment" and isinstance(v, str):
                kind, q["env"] = "env", v
            elif f == "track" and isinstance(v, str):
                kind, q["track"] = "track", v
        elif list(c) == ["range"] and list(c["range"]) == ["race-timestamp"] and sorted(c["range"]["race-timestamp"]) == ["format", "gte", "lte"]:
            spec = c["range"]["race-timestamp"]
            kind = "range"
            q["fmt"] = str(spec["format"])
            q["from"] = -1 if spec["gte"] is None else str_to_day(spec["gte"])
            q["to"] = -1 if spec["lte"] is None else str_to_day(spec["lte"])
        elif list(c) == ["bool"] and list(c["bool"]) == ["should"]:
            sh = c["bool"]["should"]
            if len(sh) == 2 and all(list(x) == ["term"] and len(x["term"]) == 1 for x in sh):
                fields = sorted(list(x["term"])[0] for x in sh)
                vals = {list(x["term"].values())[0] for x in sh}
                if fields == ["user-tags.benchmark-name", "user-tags.name"] and len(vals) == 1:
                    kind, q["name"] = "name", str(vals.pop())
            elif len(sh) == 1 and list(sh[0]) == ["term"] and list(sh[0]["term"]) == ["challenge"]:
                kind, q["chal"] = "chal", str(sh[0]["term"]["challenge"])
        if kind is None or kind in seen:
            other += 1
        seen.add(kind)
    q["other"] = other
    return q


def project_deletes(deletes):
    """delete-by-query requests grouped per race id: [{id, env, pats}]"""
    out = []
    for d in deletes:
        rid, env = "?", "?"
        try:
            flt = d["body"]["query"]["bool"]["filter"]
            if len(flt) == 2:
                env = flt[0]["term"]["environment"]
                rid = flt[1]["term"]["race-id"]
        except (KeyError, TypeError, IndexError):
            pass
        if out and out[-1]["id"] == rid and out[-1]["env"] == env:
            out[-1]["pats"].append(str(d["index"]))
        else:
            out.append({"id": str(rid), "env": str(env), "pats": [str(d["index"])]})
    return out


# ---------------------------------------------------------------------------------------------------
# one execution on the real stores
# ---------------------------------------------------------------------------------------------------
class _StubMetricsStore:
    def bulk_add(self, memento):
        pass

    def flush(self, refresh=True):
        pass

    def close(self):
        pass


_CURRENT_FAKE = [None]


def _factory_init(self, cfg):
    self._config = cfg  # pylint: disable=protected-access


def _factory_create(self):
    from esrally import metrics

    return metrics.EsClient(_CURRENT_FAKE[0])


class Session:
    def __init__(self, root, seed):
        self.root = root
        self.rnd = random.Random(seed)
        self.fake = FakeRaceEs(seed + 1)
        self.objs = {}  # race id -> (Race object, abstract race)
        self.events = []
        self.side = []  # findings of the python-level comparisons (rows of list_races)
        os.makedirs(self.root, exist_ok=True)

    # ---- configuration of one Rally process
    def cfg(self, race_id, be, env="e1", **system):
        from esrally import config

        cfg = config.Config()
        cfg.add(config.Scope.application, "node", "root.dir", self.root)
        cfg.add(config.Scope.application, "node", "rally.root", os.path.join(_repo(), "esrally"))
        cfg.add(config.Scope.application, "system", "env.name", env)
        cfg.add(config.Scope.application, "system", "race.id", race_id)
        cfg.add(config.Scope.application, "system", "list.max_results", 10)
        cfg.add(config.Scope.application, "reporting", "datastore.type", "elasticsearch" if be in ("es", "comp") else "in-memory")
        for k, v in system.items():
            cfg.add(config.Scope.applicationOverride, "system", k, v)
        return cfg

    def store_of(self, be, cfg):
        from esrally import metrics

        if be == "es":
            return metrics.EsRaceStore(cfg, client_factory_class=_Factory(self.fake))
        s = metrics.race_store(cfg)  # the factory: FileRaceStore or CompositeRaceStore(EsRaceStore, FileRaceStore)
        want = metrics.FileRaceStore if be == "file" else metrics.CompositeRaceStore
        if not isinstance(s, want):
            raise tlc.MachineryError("race_store() gave %s for backend %s" % (type(s).__name__, be))
        return s

    # ---- the stores, read back by the harness itself
    def state(self):
        files, dirs = [], []
        races = os.path.join(self.root, "races")
        for name in sorted(os.listdir(races)) if os.path.isdir(races) else []:
            if not os.path.isdir(os.path.join(races, name)):
                continue
            dirs.append(name)
            p = os.path.join(races, name, "race.json")
            if not os.path.lexists(p):
                continue
            try:
                with open(p, "rb") as f:
                    k, d = project_raw(json.loads(f.read().decode("utf-8")))
            except (OSError, ValueError):
                k, d = "bad", NO_DOC
            files.append({"dir": name, "k": k, "d": d})
        es = []
        for (ix, key), ent in sorted(self.fake.docs.items()):
            if not ix.startswith("rally-races-"):
                continue
            k, d = project_raw(ent["src"], pipe=ent["pipe"])
            es.append({"ix": month_of_index(ix), "key": key, "k": k, "d": d})
        t = self.fake.templates.get("rally-races")
        tmpl = isinstance(t, dict) and t.get("index_patterns") == ["rally-races-*"] and isinstance(t.get("template"), dict)
        return {"files": files, "dirs": dirs, "es": es, "tmpl": bool(tmpl)}

    def record(self, a, ret=None, q=None, dq=None):
        a = {k: v for k, v in a.items() if k not in ("via", "flavour", "old", "cli")}
        self.events.append({"a": a, "st": self.state(), "ret": ret or NO_RET, "q": q or NO_QUERY, "dq": dq or []})

    @staticmethod
    def _err(ex):
        return type(ex).__name__

    # ---- the calls
    def _race_for(self, r, cfg=None):
        """the Race object of the process that runs race r: a later store of the same race (results added, cluster block set) uses the same object;
        with cfg a new object is made by metrics.create_race from the configuration, as race control does"""
        from esrally import config, metrics

        have = self.objs.get(r["id"])
        if have is not None:
            obj, old = have
            same = all(old[k] == r[k] for k in r if k not in ("res", "dist"))
            if same and (r["res"] != 0 or old["res"] == 0):
                if r["res"] != old["res"]:
                    obj.add_results(results_obj(r["res"]))
                obj.distribution_version, obj.distribution_flavor, obj.revision, obj.team_revision = DIST[r["dist"]]
                self.objs[r["id"]] = (obj, dict(r))
                return obj
        obj = make_race(r)
        if cfg is not None:
            cfg.add(config.Scope.application, "mechanic", "car.names", list(r["car"]))
            cfg.add(config.Scope.application, "mechanic", "car.params", _param_value(r["cp"], "cp"))
            cfg.add(config.Scope.application, "mechanic", "plugin.params", _param_value(r["pp"], "pp"))
            cfg.add(config.Scope.application, "track", "params", _param_value(r["tp"], "tp"))
            cfg.add(config.Scope.application, "race", "pipeline", r["pipe"])
            cfg.add(config.Scope.application, "race", "user.tags", _tags_dict(r["tags"]))
            cfg.add(config.Scope.application, "system", "time.start", tick_to_dt(r["ts"], r["sub"]))
            with mock.patch.object(metrics.version, "version", lambda: r["rv"]), mock.patch.object(metrics.version, "revision", lambda: None if r["rr"] == "none" else r["rr"]):
                made = metrics.create_race(cfg, obj.track, obj.challenge, obj.track_revision)
            made.distribution_version, made.distribution_flavor, made.revision, made.team_revision = DIST[r["dist"]]
            if r["res"]:
                made.add_results(results_obj(r["res"]))
            obj = made
        self.objs[r["id"]] = (obj, dict(r))
        return obj

    def do_store(self, op):
        from esrally import metrics, racecontrol, reporter

        r, be = op["r"], op["be"]
        cfg = self.cfg(op["cid"], be, env=r["env"])
        self.fake.fail_next_index = op["fault"] == "es"
        err = "none"
        try:
            if op.get("via") == "coord" and be != "es" and op["cid"] == r["id"]:
                # the writer: BenchmarkCoordinator stores the race when the preparation is complete (no results) and when the benchmark is
                # complete (results added); statistics are C08's subject, so calculate_results / the summary report are replaced
                race = self._race_for(dict(r, res=0), cfg=cfg)
                coord = racecontrol.BenchmarkCoordinator(cfg)
                coord.race = race
                coord.race_store = self.store_of(be, cfg)
                coord.metrics_store = _StubMetricsStore()
                dv, df, rev, team = DIST[r["dist"]]
                if r["res"] == 0:
                    race.distribution_version = race.distribution_flavor = race.revision = None
                    race.team_revision = team  # set by the actor when the engine has started
                    coord.on_preparation_complete(df, dv, rev)
                else:
                    self.objs[r["id"]] = (race, dict(r))
                    with mock.patch.object(metrics, "calculate_results", lambda store, rc: results_obj(r["res"])), mock.patch.object(reporter, "summarize", lambda *a, **k: None):
                        coord.on_benchmark_complete([])
            else:
                self.store_of(be, cfg).store_race(self._race_for(r))
        except Unsupported:
            raise
        except Exception as ex:  # pylint: disable=broad-except
            err = self._err(ex)
        self.fake.fail_next_index = False
        self.record(op, {"err": err, "races": []})

    def do_abort(self, op):
        from esrally import racecontrol

        be = "comp" if op["be"] == "es" else op["be"]
        cfg = self.cfg(op["id"], be)
        coord = racecontrol.BenchmarkCoordinator(cfg)
        have = self.objs.get(op["id"])
        coord.race = have[0] if have else None
        coord.race_store = self.store_of(be, cfg)
        coord.metrics_store = _StubMetricsStore()
        if self.rnd.random() < 0.5:
            coord.cancelled = True
        else:
            coord.error = True
        err = "none"
        try:
            coord.on_benchmark_complete([])
        except Exception as ex:  # pylint: disable=broad-except
            err = self._err(ex)
        self.record(op, {"err": err, "races": []})

    def do_find(self, op):
        store = self.store_of(op["be"], self.cfg("cli", op["be"]))
        try:
            ret = {"err": "none", "races": [project_race(store.find_by_race_id(op["id"]))]}
        except Unsupported:
            raise
        except Exception as ex:  # pylint: disable=broad-except
            ret = {"err": self._err(ex), "races": []}
        self.record(op, ret)

    def _list_cfg(self, op):
        p = op["p"]
        return self.cfg(
            "cli", op["be"], env=op["env"],
            **{
                "list.max_results": str(op["lim"]) if op.get("cli", True) else op["lim"], "admin.track": p["track"] or None,
                "list.races.benchmark_name": p["name"] or None, "list.from_date": None if p["from"] < 0 else day_to_str(p["from"]),
                "list.to_date": None if p["to"] < 0 else day_to_str(p["to"]), "list.challenge": p["chal"] or None,
            },
        )  # fmt: skip

    def do_list(self, op):
        from esrally import metrics

        cfg = self._list_cfg(op)
        store = self.store_of(op["be"], cfg)
        self.fake.searches = []
        races = None
        try:
            races = store.list()
            ret = {"err": "none", "races": [project_race(x) for x in races]}
        except Unsupported as ex:
            ret = {"err": "Unsupported:" + str(ex)[:60], "races": []}
        except Exception as ex:  # pylint: disable=broad-except
            ret = {"err": self._err(ex), "races": []}
        q = None
        if op["be"] != "file":
            q = project_query(self.fake.searches[0]) if len(self.fake.searches) == 1 else dict(NO_QUERY, other=100 + len(self.fake.searches))
        self.record(op, ret, q=q)
        if races is not None and op["be"] != "es":
            # list_races (the command) as far as it transforms the data: one row per race in the same order (ties aside)
            rows = []
            with mock.patch("tabulate.tabulate", lambda table, headers=None, **kw: rows.extend(table) or ""), mock.patch("esrally.utils.console.println", lambda *a, **k: None):
                try:
                    metrics.list_races(cfg)
                except Exception as ex:  # pylint: disable=broad-except
                    rows = [["raised", self._err(ex)]]
            want = [expected_row(x) for x in races]
            if sorted(map(repr, rows)) != sorted(map(repr, want)) or [x[1] for x in rows] != [x[1] for x in want]:
                self.side.append("list_races rows differ from the races list() returned: %r vs %r" % (rows[:2], want[:2]))

    def do_delete(self, op):
        from esrally import metrics

        cfg = self.cfg("cli", op["be"], env=op["env"], **{"delete.id": ",".join(op["ids"]), "admin.dry_run": bool(op["dry"])})
        self.fake.deletes = []
        err = "none"
        try:
            with mock.patch("esrally.utils.console.println", lambda *a, **k: None):
                if op["be"] == "es":
                    self.store_of("es", cfg).delete_race()
                else:
                    if not isinstance(metrics.race_store(cfg), metrics.FileRaceStore if op["be"] == "file" else metrics.CompositeRaceStore):
                        raise tlc.MachineryError("race_store() gave an unexpected store")
                    metrics.delete_race(cfg)
        except (Unsupported, tlc.MachineryError):
            raise
        except Exception as ex:  # pylint: disable=broad-except
            err = self._err(ex)
        self.record(op, {"err": err, "races": []}, dq=project_deletes(self.fake.deletes))

    def do_restore(self, op):
        store = self.store_of(op["be"], self.cfg(op["id"], op["be"]))
        try:
            race = store.find_by_race_id(op["id"])
            store.store_race(race)
            ret = {"err": "none", "races": []}
        except Unsupported:
            raise
        except Exception as ex:  # pylint: disable=broad-except
            ret = {"err": self._err(ex), "races": []}
        self.record(op, ret)

    def do_plant(self, op):
        d = os.path.join(self.root, "races", op["dir"])
        os.makedirs(d, exist_ok=True)
        p = os.path.join(d, "race.json")
        if op["c"]["k"] == "ok":
            data = json.dumps(doc_json(op["c"]["d"], old=bool(op.get("old"))), indent=True).encode("utf-8")
        else:
            base = doc_json(dict(NO_DOC, id=op["dir"], env="e1", ts=1, track="t1", car=["c1"], rv="2.12.0", pipe="benchmark-only", res=1))
            text = json.dumps(base, indent=True)
            fl = op.get("flavour") or "truncated"
            if fl == "truncated":
                data = text[: len(text) // 2].encode("utf-8")
            elif fl == "empty":
                data = b""
            elif fl == "nokey":
                data = json.dumps({k: v for k, v in base.items() if k != "pipeline"}).encode("utf-8")
            elif fl == "nodict":
                data = b"[]"
            elif fl == "badts":
                data = json.dumps(dict(base, **{"race-timestamp": "2026-01-01T00:00:00Z"})).encode("utf-8")
            elif fl == "nullts":
                data = json.dumps(dict(base, **{"race-timestamp": None})).encode("utf-8")
            else:
                data = b"\xff\xfe\x00\x01 not utf-8 \xc3\x28"
        with open(p, "wb") as f:
            f.write(data)
        self.record(op)

    def do_remove(self, op):
        shutil.rmtree(os.path.join(self.root, "races", op["dir"]), ignore_errors=True)
        self.record(op)

    def do_plant_es(self, op):
        d = op["d"]
        src = doc_json(d)
        del src["pipeline"]
        self.fake.docs[(index_name(d["ts"] // (TPD * DPM)), d["id"])] = {"src": src, "pipe": d["pipe"]}
        self.record(op)

    def do(self, op):
        {
            "Store": self.do_store, "Find": self.do_find, "List": self.do_list, "Delete": self.do_delete, "Restore": self.do_restore,
            "Abort": self.do_abort, "Plant": self.do_plant, "Remove": self.do_remove, "PlantEs": self.do_plant_es,
        }[op["op"]](op)  # fmt: skip


_CASE_NO = [0]


def execute(case, scratch):
    from esrally import metrics

    _CASE_NO[0] += 1
    base = os.path.join(scratch, "case-%d" % _CASE_NO[0])
    root = os.path.join(base, ".rally", "benchmarks")
    s = Session(root, int(case.get("seed", 0)))
    _CURRENT_FAKE[0] = s.fake
    try:
        with mock.patch.object(metrics.EsClientFactory, "__init__", _factory_init), mock.patch.object(metrics.EsClientFactory, "create", _factory_create), mock.patch(
            "esrally.utils.console.info", lambda *a, **k: None
        ), mock.patch("esrally.time.sleep", lambda *_a: None):
            for op in case["ops"]:
                s.do(op)
    finally:
        _CURRENT_FAKE[0] = None
        shutil.rmtree(base, ignore_errors=True)
    return s.events, s.side


# ---------------------------------------------------------------------------------------------------
# case sources
# ---------------------------------------------------------------------------------------------------
def _op_from_act(act, rnd):
    op = to_json(act)
    name = op["op"]
    if name == "Delete":
        op["ids"] = sorted(op["ids"])
        rnd.shuffle(op["ids"])
    elif name == "Store":
        if op["be"] != "es" and op["cid"] == op["r"]["id"] and rnd.random() < 0.5:
            op["via"] = "coord"
    elif name == "Plant":
        if op["c"]["k"] == "bad":
            op["flavour"] = rnd.choice(BAD_FLAVOURS)
        else:
            op["old"] = rnd.random() < 0.4
    elif name == "List":
        op["cli"] = rnd.random() < 0.8
    return op


def behaviours_from_tlc(ctx, out, cfg, num, depth, seed_off):
    wd = tlc.prepare_workdir("RaceStore", "xracestore-sim")
    simdir = os.path.join(wd, "sim")
    os.makedirs(simdir)
    workers = 4
    res = tlc.run_tlc(wd, "MC_RaceStore", cfg, workers=workers, simulate={"num": max(1, num // workers), "file": os.path.join(simdir, "b")}, depth=depth, seed=ctx.seed + seed_off, timeout=280 if ctx.quick else 1200)
    if not res.ok:
        raise tlc.MachineryError("simulation reported a model violation: %s" % res.out[-2000:])
    out.add_tlc(res)
    rnd = random.Random(ctx.seed + seed_off + 5)
    cases = []
    for fn in sorted(glob.glob(os.path.join(simdir, "b_*"))):
        states = parse_simulation_file(fn)
        ops = [_op_from_act(st["act"], rnd) for st in states if st["act"]["op"] != "Init"]
        if ops:
            cases.append({"src": "tlc-simulate:" + cfg, "seed": len(cases), "ops": ops})
    shutil.rmtree(wd, ignore_errors=True)
    return cases


_STATE_SPLIT = re.compile(r"^State \d+:\s*$", re.M)


def record_cases_from_dump(path, rnd, limit):
    """the Store states of RaceStore.rec.cfg: one case per stored race (store, find with both backends, list); a seeded sample of `limit`"""
    with open(path, "r", encoding="utf-8") as f:
        blocks = [b for b in _STATE_SPLIT.split(f.read()) if 'op |-> "Store"' in b]
    blocks.sort()
    total = len(blocks)
    if limit and len(blocks) > limit:
        blocks = rnd.sample(blocks, limit)
    cases = []
    for b in blocks:
        act = to_json(parse_state(b)["act"])
        be = act["be"]
        ops = [dict(act, via="coord" if be == "file" and act["r"]["res"] in (0, 1) and rnd.random() < 0.3 else "direct")]
        ops.append({"op": "Find", "be": be, "id": act["r"]["id"]})
        ops.append({"op": "List", "be": be, "env": act["r"]["env"], "p": FILTER_NONE, "lim": 10})
        cases.append({"src": "tlc-dump-rec", "seed": len(cases), "ops": ops})
    return cases, total


FILTER_NONE = {"track": "", "name": "", "from": -1, "to": -1, "chal": ""}


def flt(track="", name="", frm=-1, to=-1, chal=""):
    return {"track": track, "name": name, "from": frm, "to": to, "chal": chal}


def race(rid, ts, **kw):
    r = {
        "id": rid, "env": "e1", "ts": ts, "sub": 0, "track": "t1", "chal": "ch1", "auto": False, "car": ["c1"], "tags": dict(NO_TAGS),
        "tp": "none", "cp": "none", "pp": "none", "trev": "none", "dist": "v1", "res": 0, "meta": 0, "rv": "2.12.0", "rr": "none", "pipe": "benchmark-only",
    }  # fmt: skip
    for k, v in kw.items():
        if k in ("name", "bname", "other"):
            r["tags"][k] = v
        else:
            r[k] = v
    return r


def store(be, r, cid=None, fault="none", via="direct"):
    return {"op": "Store", "be": be, "cid": cid or r["id"], "r": r, "fault": fault, "via": via}


def lst(be, p=None, lim=10, env="e1", cli=True):
    return {"op": "List", "be": be, "env": env, "p": p or FILTER_NONE, "lim": lim, "cli": cli}


def find(be, rid):
    return {"op": "Find", "be": be, "id": rid}


def directed_cases():
    """one small execution per behaviour worth naming (the minimal inputs of the findings first)"""
    both = race("a", 1, name="n1", bname="n1")
    bonly = race("b", 2, bname="n1", track="t1")
    nonly = race("c", 5, name="n1", track="t1")
    ch2 = race("b", 3, chal="ch2")
    cases = {
        "name-filter-duplicate": [store("file", both), lst("file", flt(name="n1"))],
        "name-and-track-filter-drops": [store("file", bonly), store("file", nonly), lst("file", flt(name="n1")), lst("file", flt(track="t1", name="n1"))],
        "challenge-filter-ignored": [store("file", race("a", 1)), store("file", ch2), lst("file", flt(chal="ch2")), lst("file", flt(chal="nope"))],
        "cfg-race-id-decides-directory": [
            store("file", race("a", 1)), store("file", race("b", 2), cid="a"), find("file", "a"), find("file", "b"), lst("file"),
            store("file", race("c", 3), cid="d"),
        ],
        "race-id-again-next-month": [store("es", race("a", 1)), store("es", race("a", 5, res=1)), find("es", "a"), lst("es")],
        "results-added-later": [
            store("file", race("a", 1, dist="none"), via="coord"), find("file", "a"), store("file", race("a", 1, dist="none", res=1), via="coord"), find("file", "a"), lst("file"),
            store("comp", race("b", 2), via="coord"), find("comp", "b"), store("comp", race("b", 2, res=2), via="coord"), find("comp", "b"), find("file", "b"),
            {"op": "Abort", "be": "file", "id": "a"}, find("file", "a"),
        ],
        "unreadable-files-are-skipped": [store("file", race("a", 1)), store("file", race("b", 2))]
        + [x for fl in BAD_FLAVOURS for x in ({"op": "Plant", "dir": "c", "c": {"k": "bad", "d": NO_DOC}, "flavour": fl}, lst("file"), find("file", "c"))]
        + [{"op": "Plant", "dir": "a", "c": {"k": "bad", "d": NO_DOC}, "flavour": "truncated"}, lst("file"), find("file", "a"), store("file", race("a", 1, res=1)), find("file", "a")],
        "older-schema-file": [
            {"op": "Plant", "dir": "a", "c": {"k": "ok", "d": dict(NO_DOC, id="a", env="e1", ts=4, track="t2", car=["c1"], rv="2.0.0", pipe="from-sources", res=1)}, "old": True},
            find("file", "a"), lst("file", flt(track="t2")), {"op": "Remove", "dir": "a"}, find("file", "a"), lst("file"),
        ],
        "malformed-document-in-index": [
            store("es", race("a", 4)), {"op": "PlantEs", "d": dict(NO_DOC, id="b", env="e1", ts=1, track="t1", car=["c1"], rv="2.12.0", pipe="benchmark-only")},
            lst("es", lim=1), lst("es"), find("es", "b"), lst("es", flt(track="t2")), {"op": "Delete", "be": "es", "ids": ["b"], "env": "e1", "dry": False}, lst("es"),
        ],
        "delete": [
            store("comp", race("a", 1)), store("comp", race("b", 2, env="e2")), store("comp", race("c", 5)),
            {"op": "Delete", "be": "comp", "ids": ["a", "b"], "env": "e1", "dry": True}, lst("comp"),
            {"op": "Delete", "be": "comp", "ids": ["b", "a"], "env": "e1", "dry": False}, lst("comp"), lst("comp", env="e2"), find("comp", "a"), find("comp", "b"), find("file", "a"),
            {"op": "Delete", "be": "file", "ids": ["c"], "env": "e1", "dry": False}, {"op": "Delete", "be": "es", "ids": ["d"], "env": "e1", "dry": False}, lst("es"),
        ],
        "composite-divergence-on-fault": [store("comp", race("a", 1), fault="es"), find("comp", "a"), find("file", "a"), store("comp", race("a", 1)), find("comp", "a")],
        "limit-order-dates": [store("file", race(i, t, sub=t % 2)) for i, t in (("a", 3), ("b", 0), ("c", 7), ("d", 4))]
        + [lst("file", lim=n) for n in (0, 1, 2, 3, 10)]
        + [lst("file", flt(frm=1, to=2)), lst("file", flt(frm=2)), lst("file", flt(to=1)), lst("file", flt(frm=3, to=3), cli=False)],
        "limit-order-dates-es": [store("es", race(i, t, sub=t % 2)) for i, t in (("a", 3), ("b", 0), ("c", 7), ("d", 4))]
        + [lst("es", lim=n) for n in (0, 1, 2, 3, 10)]
        + [lst("es", flt(frm=1, to=2)), lst("es", flt(frm=2)), lst("es", flt(to=1)), lst("es", flt(frm=3, to=3), cli=False), lst("es", flt(name="n1", chal="ch1", track="t1"))],
        "store-a-loaded-race": [store("file", race("a", 1, res=1)), {"op": "Restore", "be": "file", "id": "a"}, {"op": "Restore", "be": "file", "id": "b"}, find("file", "a")],
        "every-field": [
            store("comp", race("a", 9, sub=1, auto=True, car=["c1", "c2"], name="n1", other="o1", tp="set", cp="empty", pp="set", trev="r1", dist="mix", res=2, meta=1, rr="abc", pipe="from-sources", env="e2")),
            find("comp", "a"), find("file", "a"), lst("comp", env="e2"), lst("file", env="e2"),
        ],
    }
    return [{"src": "directed:" + k, "seed": i, "ops": v} for i, (k, v) in enumerate(cases.items())]


def random_cases(seed, n, max_ops=24):
    rnd = random.Random(seed)
    cases = []
    for ci in range(n):
        ids = DIRS[: rnd.randint(1, 4)]
        backends = rnd.choice([["file"], ["file"], ["es"], ["comp"], ["file", "es", "comp"], ["comp", "file"]])
        tracks = ["t1", "t2"][: rnd.randint(1, 2)]
        names = ["n1", "n2"][: rnd.randint(1, 2)]
        mismatch = rnd.random() < 0.15
        months = rnd.random() < 0.3  # a race id may come back with another timestamp
        tick_of = {}
        known = {}
        ops = []

        def new_race(rid):
            if rid in known and not months and rnd.random() < 0.8:
                r = copy.deepcopy(known[rid])  # the same race again: results added / cluster block
                if rnd.random() < 0.7:
                    r["res"] = rnd.choice([1, 2, 3])
                return r
            if rid not in tick_of or months:
                tick_of[rid] = rnd.randrange(NTICKS)
            r = race(
                rid, tick_of[rid], env=rnd.choice(ENVS) if rnd.random() < 0.3 else "e1", sub=rnd.randint(0, 1), track=rnd.choice(tracks), chal=rnd.choice(["ch1", "ch2"]),
                auto=rnd.random() < 0.2, car=rnd.choice([["c1"], ["c1", "c2"]]), name=rnd.choice(names + [""]), bname=rnd.choice(names + ["", ""]),
                other=rnd.choice(["", "o1"]), tp=rnd.choice(["none", "empty", "set"]), cp=rnd.choice(["none", "empty", "set"]), pp=rnd.choice(["none", "set"]),
                trev=rnd.choice(["none", "empty", "r1"]), dist=rnd.choice(list(DIST)), res=rnd.choice([0, 0, 1, 2]), meta=rnd.randint(0, 1),
                rr=rnd.choice(["none", "abc"]), pipe=rnd.choice(["benchmark-only", "from-sources"]),
            )  # fmt: skip
            known[rid] = r
            return r

        def rand_filter():
            p = dict(FILTER_NONE)
            if rnd.random() < 0.35:
                p["track"] = rnd.choice(tracks + ["t9"])
            if rnd.random() < 0.4:
                p["name"] = rnd.choice(names + ["n9"])
            if rnd.random() < 0.3:
                p["from"] = rnd.randrange(NTICKS // TPD)
            if rnd.random() < 0.3:
                p["to"] = rnd.randrange(NTICKS // TPD)
            if rnd.random() < 0.25:
                p["chal"] = rnd.choice(["ch1", "ch2"])
            return p

        for _ in range(rnd.randint(4, max_ops)):
            x = rnd.random()
            be = rnd.choice(backends)
            if x < 0.35 or not ops:
                r = new_race(rnd.choice(ids))
                cid = rnd.choice(ids) if mismatch and be != "es" and rnd.random() < 0.5 else r["id"]
                ops.append(store(be, r, cid=cid, fault="es" if be != "file" and rnd.random() < 0.1 else "none", via="coord" if be != "es" and cid == r["id"] and rnd.random() < 0.4 else "direct"))
            elif x < 0.6:
                ops.append(lst(be, rand_filter(), lim=rnd.choice([0, 1, 2, 3, 10, 10]), env=rnd.choice(ENVS) if rnd.random() < 0.3 else "e1", cli=rnd.random() < 0.8))
            elif x < 0.78:
                ops.append(find(be, rnd.choice(DIRS)))
            elif x < 0.84:
                k = rnd.randint(1, 2)
                ops.append({"op": "Delete", "be": be, "ids": rnd.sample(DIRS, k), "env": rnd.choice(ENVS) if rnd.random() < 0.3 else "e1", "dry": rnd.random() < 0.25})
            elif x < 0.88:
                ops.append({"op": "Restore", "be": be, "id": rnd.choice(ids)})
            elif x < 0.91:
                ops.append({"op": "Abort", "be": be, "id": rnd.choice(ids)})
            elif x < 0.96 and "file" in backends:
                rid = rnd.choice(ids)
                if rnd.random() < 0.6:
                    ops.append({"op": "Plant", "dir": rid, "c": {"k": "bad", "d": NO_DOC}, "flavour": rnd.choice(BAD_FLAVOURS)})
                elif rnd.random() < 0.6:
                    r = new_race(rid)
                    d = {k: v for k, v in r.items() if k not in ("sub", "auto")}
                    d.update(tp="set" if r["tp"] == "set" else "none", cp="set" if r["cp"] == "set" else "none", trev="r1" if r["trev"] == "r1" else "none", meta=rnd.randint(0, 1))
                    old = rnd.random() < 0.5
                    if old:
                        d.update(dist="none", rr="none", tags=dict(NO_TAGS))
                    ops.append({"op": "Plant", "dir": rid, "c": {"k": "ok", "d": d}, "old": old})
                else:
                    ops.append({"op": "Remove", "dir": rid})
            elif backends != ["file"]:
                r = new_race(rnd.choice(ids))
                d = {k: v for k, v in r.items() if k not in ("sub", "auto")}
                d.update(tp="set" if r["tp"] == "set" else "none", cp="set" if r["cp"] == "set" else "none", trev="r1" if r["trev"] == "r1" else "none", meta=0)
                ops.append({"op": "PlantEs", "d": d})
        cases.append({"src": "random", "seed": seed * 1000 + ci, "ops": ops})
    return cases


# ---------------------------------------------------------------------------------------------------
# verdicts
# ---------------------------------------------------------------------------------------------------
def _cause(clause, events, line):
    """the kind of input behind an L1 failure (which deviation of the code explains it), for the signature"""
    ev = events[line - 1]
    a = ev["a"]
    before = events[line - 2]["st"] if line >= 2 else {"files": [], "dirs": [], "es": []}
    fixed = [s for s in os.environ.get("VERIF_RACESTORE_FIXED", "").split(",") if s]  # a repaired deviation explains nothing
    if a["op"] == "List":
        p = a["p"]
        if a["be"] == "file":
            docs = [f["d"] for f in before["files"] if f["k"] == "ok"]
            if "NameFilterSound" not in fixed and p["name"] and clause == "ListSound" and any(d["tags"]["name"] == p["name"] == d["tags"]["bname"] for d in docs) and not p["track"]:
                return "NameFilterSound: --benchmark-name lists a race whose tags name and benchmark-name both match twice"
            if "NameFilterSound" not in fixed and p["name"] and p["track"] and clause == "ListComplete" and any(d["tags"]["bname"] == p["name"] != d["tags"]["name"] for d in docs):
                return "NameFilterSound: --track with --benchmark-name drops the races that match by the tag benchmark-name only"
            if "FileChallengeFilter" not in fixed and p["chal"] and clause in ("ListSound", "ListComplete") and any(d["chal"] != p["chal"] for d in docs):
                return "FileChallengeFilter: FileRaceStore.list ignores --challenge"
        return "?"
    if a["op"] == "Store":
        if "StoreByRaceId" not in fixed and a["be"] != "es" and a["cid"] != a["r"]["id"]:
            return "StoreByRaceId: store_race under a configuration whose race id differs from race.race_id"
        if "EsOneDocPerRace" not in fixed and a["be"] != "file" and any(x["d"]["id"] == a["r"]["id"] and x["ix"] != a["r"]["ts"] // (TPD * DPM) for x in before["es"]):
            return "EsOneDocPerRace: the race id was stored before with a timestamp in another month"
        return "?"
    if a["op"] == "Find":
        if "StoreByRaceId" not in fixed and a["be"] == "file" and any(f["k"] == "ok" and f["d"]["id"] != f["dir"] for f in before["files"]):
            return "StoreByRaceId: a race.json sits in the directory of another race id"
        return "?"
    return "?"


SWITCHES = ("NameFilterSound", "FileChallengeFilter", "StoreByRaceId", "EsOneDocPerRace")


def _trace_cfg_text():
    """TraceRaceStore.cfg describes the code as it is (all switches FALSE).  VERIF_RACESTORE_FIXED=Switch,... validates against the specification
    with these switches TRUE (for a tree in which the deviation has been repaired) without editing the configuration file."""
    fixed = [s for s in os.environ.get("VERIF_RACESTORE_FIXED", "").split(",") if s]
    if not fixed:
        return None
    with open(os.path.join(tlc.SPECS, "RaceStore", "TraceRaceStore.cfg"), "r", encoding="utf-8") as f:
        text = f.read()
    for s in fixed:
        text, n = re.subn(r"^  %s = FALSE$" % re.escape(s), "  %s = TRUE" % s, text, flags=re.M)
        if s not in SWITCHES or n != 1:
            raise tlc.MachineryError("VERIF_RACESTORE_FIXED: unknown switch %r" % s)
    return text


def run_cases(cases, out, label, scratch, chunk=400):
    items, index = [], {}
    for ci, case in enumerate(cases):
        events, side = execute(case, scratch)
        tid = "%s-%d" % (label, ci)
        items.append({"id": tid, "events": events})
        index[tid] = (case, events)
        out.add_case(case["ops"], nontrivial=len(events) >= 2 and any(e["a"]["op"] == "Store" for e in events))
        for s in side[:2]:
            out.drift.append("case %s (%s): %s" % (tid, case["src"], s))
    if not items:
        raise tlc.MachineryError("no executions for %s" % label)
    verdicts = tracecheck.validate("RaceStore", "TraceRaceStore", "TraceRaceStore.cfg", items, name="xracestore-trace", chunk=chunk, timeout=900, cfg_text=_trace_cfg_text())
    out.states += verdicts.n_events
    out.transitions += verdicts.n_events
    out.traces_validated += verdicts.accepted(len(items))
    for tid, fails in verdicts.l1.items():
        case, events = index[tid]
        for line, clauses in fails:
            for clause in clauses:
                cause = _cause(clause, events, line)
                a = events[line - 1]["a"]
                # the label names the switch of the specification that explains the failure (a known deviation of the code) or says that nothing does
                label = "%s[%s]" % (clause, cause.split(":")[0] if cause != "?" else "UNEXPLAINED")
                out.violations.append(
                    Violation(
                        label, case, signature={"clause": clause, "cause": cause, "be": a.get("be", "")},
                        detail="trace %s event %d (%s %s): %s fails; %s" % (tid, line, a["op"], a.get("be", ""), clause, cause),
                    )
                )  # fmt: skip
    for tid, lines in verdicts.l2.items():
        case, events = index[tid]
        ev = events[lines[0] - 1]
        out.drift.append(
            "trace %s (%s): event %d %s is not the step of RaceStore.tla: returned %s"
            % (tid, case["src"], lines[0], {k: v for k, v in ev["a"].items() if k not in ("r", "c", "d")}, json.dumps(ev["ret"])[:300])
        )
    return index


LEG_M = [
    # cfg, expected violated property (None = must hold), dump
    ("RaceStore.quick.cfg", None),
    ("RaceStore.rec.cfg", None),
    ("RaceStore.pinned.name.cfg", "PropListSound"),
    ("RaceStore.pinned.nametrack.cfg", "PropListComplete"),
    ("RaceStore.pinned.chal.cfg", "PropListSound"),
    ("RaceStore.pinned.dir.cfg", "PropStoreExact"),
    ("RaceStore.pinned.month.cfg", "PropStoreExact"),
]


def run(ctx, out):
    _quiet()
    quick = ctx.quick
    scratch = ctx.scratch("xracestore")
    out.rule = (
        "case = a sequence of calls on the race stores of one root directory / metrics cluster (store_race directly or through BenchmarkCoordinator, find_by_race_id, list with "
        "filters and limit, delete_race, store of a loaded race, cancelled completion) and interventions (planted / unreadable / removed race.json, malformed index document); "
        "distinct by hash; non-trivial = at least 2 events and a store. Sources: TLC -simulate behaviours of RaceStore.tla, the Store states of the record configuration (TLC dump), "
        "directed executions, seeded random executions."
    )
    out.assumptions = [
        "the stores are observed by the harness itself: race.json files are read and classified (readable = JSON object with the mandatory keys and a timestamp in Rally's format) "
        "independently of Race.from_dict; the documents of the fake cluster are read from its dictionary",
        "the fake Elasticsearch implements: bulk index with _id (replace within an index), index templates, search / delete_by_query over an index pattern with term (keyword), range on "
        "race-timestamp with format basic_date (gte rounds down, lte rounds up to the end of the day), bool filter/must/should/must_not, sort by race-timestamp, size; the order among equal "
        "timestamps is shuffled; anything else is refused (reported as drift)",
        "timestamps lie on a grid of 12 ticks (first / last day of 2025-12, 2026-01, 2026-02 at 00:00:00 / 23:59:59, optionally with microseconds); --from-date / --to-date are days of the grid",
        "each call runs under a fresh Config as a new Rally process would (race id of the configuration = id of the stored race unless the case says otherwise); find_by_race_id runs without list filters",
        "statistics are not the subject (C08): results are a GlobalStats object with a version number, compared by deep equality after a JSON round trip; calculate_results and the summary report are replaced when BenchmarkCoordinator is the writer",
        "transient faults / retries of EsClient.guarded are specified by specs/Guarded and specs/EsStore; here the only fault is a rejected document (not retryable)",
    ]
    # ---- Leg M
    dump = os.path.join(scratch, "rec.dump")
    for cfg, expect in LEG_M + ([] if quick else [("RaceStore.thorough.cfg", None)]):
        wd = tlc.prepare_workdir("RaceStore", "xracestore-mc")
        is_rec = cfg == "RaceStore.rec.cfg"
        res = tlc.run_tlc(wd, "MC_RaceStore", cfg, workers=1 if expect else 4 if quick else 8, timeout=280 if quick else 1500, allow_violation=True, dump=dump if is_rec else None)
        out.add_tlc(res)
        shutil.rmtree(wd, ignore_errors=True)
        if expect is None:
            if not res.ok:
                raise tlc.MachineryError("model violates %s in %s: %s" % (res.invariant_violated or res.property_violated, cfg, res.out[-1500:]))
            out.note("leg M %s: %d distinct states, %d transitions, depth %d, %.1fs" % (cfg, res.distinct, res.generated, res.depth, res.wall_s))
        else:
            if res.property_violated != expect:
                raise tlc.MachineryError("self-test failed: %s should violate %s, got %s" % (cfg, expect, res.property_violated or res.invariant_violated or res.error or "no violation"))
            out.note("leg M self-test %s: the code-as-it-is variant violates %s in the model, as expected" % (cfg, expect))
    out.extra["model_selftest"] = (
        "NameFilterSound=FALSE violates PropListSound (duplicate) and PropListComplete (dropped with --track), FileChallengeFilter=FALSE violates PropListSound, "
        "StoreByRaceId=FALSE and EsOneDocPerRace=FALSE violate PropStoreExact; with all switches TRUE every property holds"
    )
    out.exhaustive = False
    # ---- Leg S2C + C2S
    sims = behaviours_from_tlc(ctx, out, "RaceStore.sim.cfg", 100 if quick else 1600, 22, 23)
    sims += behaviours_from_tlc(ctx, out, "RaceStore.simmis.cfg", 20 if quick else 200, 18, 24)
    out.note("leg S2C: %d TLC behaviours (%d of them with stores under a configuration with another race id)" % (len(sims), sum(1 for c in sims if "simmis" in c["src"])))
    run_cases(sims, out, "sim", scratch)
    pick = next((c for c in sims if sum(1 for o in c["ops"] if o["op"] == "Store") >= 3), sims[0])
    out.sample({"source": pick["src"], "ops": [{k: (v if k != "r" else {f: v[f] for f in ("id", "ts", "track", "tags", "res")}) for k, v in o.items()} for o in pick["ops"][:8]]})
    recs, total = record_cases_from_dump(dump, random.Random(ctx.seed + 7), 500 if quick else 12000)
    os.remove(dump)
    out.note("leg S2C: %d of the %d Store states of the record configuration" % (len(recs), total))
    run_cases(recs, out, "rec", scratch, chunk=2000)
    directed = directed_cases()
    idx = run_cases(directed, out, "dir", scratch)
    failing = {}
    for v in out.violations:
        if v.case["src"].startswith("directed:"):
            failing.setdefault(v.case["src"], set()).add(v.signature["clause"])
    out.extra["directed"] = {c["src"]: ("fails " + ",".join(sorted(failing[c["src"]])) if c["src"] in failing else "all invariants hold") for c in directed}
    out.note("directed executions: %s" % out.extra["directed"])
    rnd = random_cases(ctx.seed + 1, 200 if quick else 5000)
    run_cases(rnd, out, "rnd", scratch)
    out.sample({"source": "random", "ops": [{k: v for k, v in o.items() if k not in ("r", "c", "d")} for o in rnd[0]["ops"][:10]]})
    out.note("leg C2S: %d executions validated by TLC, %d L1 findings, %d drift" % (out.traces_validated, len(out.violations), len(out.drift)))
    for d in out.drift[:5]:
        out.note("MODEL-DRIFT " + d[:400])
    # ---- binding self-test: corrupted recordings must be rejected
    tid, (case, events) = next((t, ce) for t, ce in sorted(idx.items()) if ce[0]["src"] == "directed:limit-order-dates")
    muts = []
    m1 = {"id": "bind-order", "events": copy.deepcopy(events)}
    ev = next(e for e in m1["events"] if e["a"]["op"] == "List" and len(e["ret"]["races"]) >= 3)
    ev["ret"]["races"].reverse()
    muts.append(m1)
    m2 = {"id": "bind-field", "events": copy.deepcopy(events)}
    ev = next(e for e in m2["events"] if e["a"]["op"] == "List" and len(e["ret"]["races"]) >= 1)
    ev["ret"]["races"][0]["track"] = "t2"
    muts.append(m2)
    m3 = {"id": "bind-drop", "events": copy.deepcopy(events)}
    del m3["events"][1]
    muts.append(m3)
    v = tracecheck.validate("RaceStore", "TraceRaceStore", "TraceRaceStore.cfg", muts, name="xracestore-bind")
    missed = [m["id"] for m in muts if m["id"] not in v.l1 and m["id"] not in v.l2]
    if missed or "bind-order" not in v.l1 or "bind-field" not in v.l1:
        raise tlc.MachineryError("binding self-test failed: corrupted recordings accepted or not judged by L1: missed=%s l1=%s" % (missed, sorted(v.l1)))
    out.extra["binding_selftest"] = "a recording with a reversed list, one with a changed field of a listed race and one with a store call removed are rejected by TLC"
    # ---- one line per kind of finding
    kinds = {}
    for vio in out.violations:
        kinds.setdefault((vio.signature["clause"], vio.signature["cause"]), []).append(vio)
    out.extra["l1_findings_by_kind"] = {"%s: %s" % k: len(v) for k, v in sorted(kinds.items())}
    out.violations.sort(key=lambda x: (x.clause, len(x.case["ops"]), repr(x.case)))
    for k, vs in sorted(kinds.items()):
        smallest = min(vs, key=lambda x: len(x.case["ops"]))
        out.note("L1 %s: %s: %d executions, smallest has %d calls (%s)" % (k[0], k[1] if k[1] != "?" else "UNEXPLAINED by the known deviations", len(vs), len(smallest.case["ops"]), smallest.case["src"]))


def replay(ctx, case):
    from ..core import Outcome

    _quiet()
    out = Outcome(ctx.pid)
    run_cases([case], out, "replay", ctx.scratch("xracestore"))
    for v in out.violations:
        print("L1 clause=%s %s" % (v.clause, v.detail))
    for d in out.drift:
        print("MODEL-DRIFT %s" % d)
    return 0
