"""Extra module Telemetry: life cycle of Rally's telemetry devices and the periodic samplers (esrally/telemetry.py).
Specified (specs/Telemetry): the `Telemetry` container forwards the 8 life-cycle callbacks to its enabled (internal or listed,
on serverless: available) devices in list order; SamplerThread/Sampler.run (one thread per specified cluster, record() every
sample interval, stop flag polled at least once per second, finish() = flag + join) with the recorders of ccr-stats,
recovery-stats, node-stats and transform-stats; the start/stop devices JvmStatsSummary, IngestPipelineStats, IndexStats, DiskIo,
StartupTime; Gc (java options); parameter validation.  Invariants (TLC + L1 on every recorded run): PhaseOrder, OnlyEnabled,
ListOrder, Complete (a returning container call reached every receiver, a raising one exactly those up to the raising device),
JavaOpts, Validation, ThreadPerCluster, Spacing / NoMissedSample (never two record() closer than the interval, none skipped),
StopSeenWithinASecond, AtMostOneRecordAfterStop, NothingAfterJoin, StopJoinsAll, FinishTerminates, SamplesStored (every
answered record() is in the metrics store with the documented names, level, meta data, time), JvmDelta / IngestDelta /
DiskIoStored / IndexStatsAbs / StartupDelta.  Surprises of the code, pinned behind named switches (FALSE = code; each with a
self-test cfg): IsolateDevices (a raising device keeps the later ones from being started / stopped), RecordAtStart (first sample
only after one interval), SamplerSurvivesError (a failed record() silently ends the sampler), ApiErrorsHandled (`except
TransportError` misses HTTP error statuses since client 8), DeltaNeedsStop (DiskIo stores its start counter when the node was
gone at stop), DocMetaAlways (put_doc drops meta_data on empty cluster meta info), IngestPerCluster (running total over clusters).

Leg M   : TLC on Telemetry.quick.cfg + quicknode.cfg (hand-picked scenarios, every interleaving of caller / sampler threads /
          answers ok|TransportError|ApiError with latency / clock), 8 pinned self-tests, the repaired variant (thorough: more).
Leg S2C : TLC -simulate behaviours -> scenario + schedule -> executed step by step on the REAL Telemetry container, device
          classes and SamplerThread objects (cooperative hand-over at sleep / request / join, virtual clock) against scripted
          fake Elasticsearch clients and a REAL InMemoryMetricsStore.
Leg C2S : every recorded run (S2C + seeded random scenarios and schedules) is validated by TLC against TraceTelemetry.tla:
          L1 = the invariants on every recorded state, L2 = every recorded step is the step of the specification.
"""
import collections
import glob
import math
import os
import random
import re
import sys
import threading
import time as _time
import types

from .. import tlc, tracecheck
from ..core import Violation
from ..tlaparse import parse_simulation_file, to_json

TPS = 2
MAXLAT = 3
EPOCH = 1_700_000_000.0
CB = ["jopts", "pre", "attach", "bstart", "bstop", "detachR", "detachS", "store"]
SAMPLER_KINDS = ("ccr", "recovery", "nodestats", "transform")
INTERNAL_KINDS = ("jvm", "ingest", "indexstats", "diskio", "startup")
NODE_NAMES = ["n1", "n2"]
INDEX_NAMES = ["i1", "i2"]
TRANSFORM_NAMES = ["t1", "t2"]
TRACKED = {
    "ccr-stats",
    "recovery-stats",
    "node-stats",
    "transform_pages_processed",
    "transform_documents_processed",
    "transform_throughput",
    "total_transform_pages_processed",
    "total_transform_documents_processed",
    "total_transform_throughput",
    "node_young_gen_gc_time",
    "node_total_young_gen_gc_time",
    "ingest_pipeline_node_count",
    "ingest_pipeline_cluster_count",
    "segments_count",
    "merges_total_time",
    "disk_io_write_bytes",
    "disk_io_read_bytes",
    "node_startup_time",
}
ENVELOPE = {"@timestamp", "relative-time", "race-id", "race-timestamp", "environment", "track", "challenge", "car", "meta", "name", "track-params"}
PINNED_PREFIX = "P_"
TERR, AERR = -1, -2


def cname(c):
    return "default" if c == 1 else "c2"


def cindex(name):
    return {"default": 1, "c2": 2, "es-default": 1, "es-c2": 2}.get(name, 0)


def _ticks(secs):
    v = secs * TPS
    r = int(math.ceil(v - 1e-9))
    return r


class _Teardown(BaseException):
    """Unwinds every actor at the end of a run."""


class Actor:
    def __init__(self, kind, d=0, c=0):
        self.kind = kind  # "main" | "th"
        self.d = d
        self.c = c
        self.go = threading.Semaphore(0)
        self.wait = ("new",)
        self.done = False
        self.resume = None
        self.thread = None
        # sampler bookkeeping (history variables of the specification)
        self.sampler = None
        self.cb = ""
        self.wake = 0
        self.left = 0
        self.calls = []
        self.ans = []
        self.aft = 0
        self.t0 = -1
        self.tflag = -1
        self.tjoin = -1
        self.crashed = False
        self.result = None


# ---------------------------------------------------------------------------------------------------
# scripted Elasticsearch
# ---------------------------------------------------------------------------------------------------
def _api_error():
    import elastic_transport
    import elasticsearch

    meta = elastic_transport.ApiResponseMeta(
        status=503, http_version="1.1", headers=elastic_transport.HttpHeaders(), duration=0.0, node=elastic_transport.NodeConfig("http", "localhost", 9200)
    )
    return elasticsearch.ApiError("scripted status 503", meta, {"error": "scripted"})


def _transport_error():
    import elasticsearch

    return elasticsearch.TransportError("scripted connection error")


class _Sub:
    def __init__(self, es):
        self.es = es


class _Nodes(_Sub):
    def stats(self, metric=None, level=None, **kw):
        es = self.es
        if metric == "jvm":
            x, _ = es.ask("jvm")
            return {
                "nodes": {
                    "id" + n: {
                        "name": n,
                        "jvm": {
                            "gc": {"collectors": {"young": {"collection_time_in_millis": x, "collection_count": x}}},
                            "mem": {"pools": {"young": {"peak_used_in_bytes": 1}}},
                        },
                    }
                    for n in es.w.dnodes
                }
            }
        if metric == "ingest":
            x, _ = es.ask("ingest")
            return {
                "cluster_name": "es-" + cname(es.c),
                "nodes": {"id" + n: {"name": n, "ingest": {"total": {"count": x, "time_in_millis": x, "failed": 0}, "pipelines": {}}} for n in es.w.dnodes},
            }
        if metric == "_all" and level is None:
            _, req = es.ask("nodestats")
            nodes = {}
            for k, n in enumerate(NODE_NAMES[: es.w.scn["ne"]], start=1):
                nodes["id" + n] = {
                    "name": n,
                    "roles": ["data"],
                    "host": "h",
                    "indices": {
                        "docs": {"count": 1000 * k + req},
                        "store": {"size_in_bytes": 5, "size": "5b"},
                        "merges": {"total_time_in_millis": 7},
                        "bogus": {"x": 1},
                    },
                    "thread_pool": {"write": {"queue": 0}},
                    "breakers": {"parent": {"tripped": 0, "limit_size": "1gb"}},
                    "jvm": {
                        "buffer_pools": {"direct": {"count": 1}},
                        "mem": {"heap_used_in_bytes": 1000 * k + req, "heap_used": "1kb", "pools": {"young": {"peak_used_in_bytes": 3}}},
                        "gc": {"collectors": {"young": {"collection_count": 1, "collection_time_in_millis": 2}}},
                    },
                    "os": {"mem": {"free_in_bytes": 9}, "name": "Linux"},
                    "transport": {"rx_count": 1},
                    "process": {"cpu": {"percent": 3, "flag": True}},
                    "indexing_pressure": {"memory": {"total": {"all_in_bytes": 0}}},
                }
            return {"nodes": nodes}
        es.w.fatal = "fake ES: unexpected nodes.stats(metric=%r, level=%r)" % (metric, level)
        raise tlc.MachineryError(es.w.fatal)


class _Indices(_Sub):
    def recovery(self, index=None, **kw):
        _, req = self.es.ask("recovery")
        names = INDEX_NAMES[: self.es.w.scn["ne"]]
        if index:
            wanted = [index] if isinstance(index, str) else list(index)
            names = [n for n in names if n in wanted]
        return {n: {"shards": [{"id": 0, "stage": "DONE", "verif_index": n, "verif_req": req}]} for n in names}

    def stats(self, metric=None, level=None, **kw):
        x, _ = self.es.ask("indexstats")
        return {"_all": {"primaries": {"segments": {"count": x}, "merges": {"total_time_in_millis": x}}}}


class _Transform(_Sub):
    def get_transform_stats(self, transform_id=None, **kw):
        _, req = self.es.ask("transform")
        return {
            "transforms": [
                {"id": n, "stats": {"pages_processed": req, "documents_processed": req, "search_time_in_ms": 1000}}
                for n in TRANSFORM_NAMES[: self.es.w.scn["ne"]]
            ]
        }


class FakeEs:
    is_serverless = False

    def __init__(self, world, c):
        self.w = world
        self.c = c
        self.nodes = _Nodes(self)
        self.indices = _Indices(self)
        self.transform = _Transform(self)

    def ask(self, what):
        return self.w.es_call(self.c, what)

    def info(self):
        self.ask("info")
        return {"cluster_name": "es-" + cname(self.c), "version": {"number": "8.6.1", "build_flavor": "default", "build_hash": "abc"}}

    def perform_request(self, method=None, path=None, params=None, **kw):
        if path == "/_ccr/stats":
            _, req = self.ask("ccr")
            return {
                "follow_stats": {
                    "indices": [
                        {"index": n, "shards": [{"shard_id": 0, "follower_index": n, "operations_written": req}]} for n in INDEX_NAMES[: self.w.scn["ne"]]
                    ]
                }
            }
        self.w.fatal = "fake ES: unexpected perform_request(%r)" % (path,)
        raise tlc.MachineryError(self.w.fatal)


# ---------------------------------------------------------------------------------------------------
# the world: real container + devices + sampler threads, stepped cooperatively
# ---------------------------------------------------------------------------------------------------
_W = None  # the world whose run is in progress (the patched primitives dispatch to it)
_setup_done = False


def _setup():
    global _setup_done
    from .. import racesim

    racesim.ensure_rally_home()
    if not _setup_done:
        from esrally.utils import console

        console.init(quiet=True)
        _setup_done = True


class Patches:
    """The only instrumentation of esrally.telemetry: SamplerThread.start / run / join hand over to the harness scheduler (the
    loop itself is the real Sampler.run), time.sleep / perf_counter / time are virtual, sysstats process counters are scripted."""

    def __init__(self):
        from esrally import telemetry

        self.telemetry = telemetry
        self.saved = None

    def __enter__(self):
        tm = self.telemetry
        st = tm.SamplerThread
        self.saved = {
            "st": {k: st.__dict__.get(k) for k in ("start", "run", "join")},
            "sleep": _time.sleep,
            "perf": _time.perf_counter,
            "time": _time.time,
            "sps": tm.sysstats.setup_process_stats,
            "pio": tm.sysstats.process_io_counters,
        }

        def start(self_):
            _W.on_thread_start(self_)
            threading.Thread.start(self_)

        def run(self_):
            _W.thread_body(self_)

        def join(self_, timeout=None):
            _W.on_join(self_)

        st.start, st.run, st.join = start, run, join
        _time.sleep = lambda secs: _W.on_sleep(secs)
        _time.perf_counter = lambda: _W.now / TPS
        _time.time = lambda: EPOCH + _W.now / TPS
        tm.sysstats.setup_process_stats = lambda pid: object()
        tm.sysstats.process_io_counters = lambda handle: _W.on_io_counters()
        lg = tm.logging.getLogger(tm.__name__)
        lg.exception = lambda msg, *a, **kw: _W.on_log_exception(msg)
        return self

    def __exit__(self, *exc):
        tm = self.telemetry
        st = tm.SamplerThread
        for k, v in self.saved["st"].items():
            if v is None:
                if k in st.__dict__:
                    delattr(st, k)
            else:
                setattr(st, k, v)
        _time.sleep, _time.perf_counter, _time.time = self.saved["sleep"], self.saved["perf"], self.saved["time"]
        tm.sysstats.setup_process_stats, tm.sysstats.process_io_counters = self.saved["sps"], self.saved["pio"]
        lg = tm.logging.getLogger(tm.__name__)
        if "exception" in lg.__dict__:
            del lg.__dict__["exception"]
        return False


IoCounters = collections.namedtuple("IoCounters", ["read_bytes", "write_bytes"])


class World:
    def __init__(self, scn, answers=None, rnd=None):
        self.scn = scn
        self.n = len(scn["devs"])
        self.nc = scn["nc"]
        self.now = 0
        self.back = threading.Semaphore(0)
        self.running = None
        self.teardown = False
        self.dnodes = NODE_NAMES[: max(scn["ne"], 1)]
        self.rnd = rnd
        # main
        self.built = False
        self.ended = False
        self.main = None
        self.pi = 0
        self.rej = 0
        self.log = []
        self.ccalls = []
        self.jo_list = []
        self.rd = [[] for _ in range(self.n)]
        self.cur_dev = 0
        self.cur_cb = ""
        self.cur_join = None
        self.last_raise = 0
        self.queue = None  # answers for the stats calls of the current main step (S2C) or None = draw them (random schedule)
        self.consumed = []
        self.short = False  # the code asked for more answers than the schedule provided
        self.fin = [False] * self.n
        # threads
        self.threads = {}
        self.all_actors = []
        # store
        self.docs = []
        self.cur_level = None
        self.cur_key = None
        self.devices = []
        self.container = None
        self.store = None
        self.node = types.SimpleNamespace(pid=4242, node_name="n1", host_name="h1", binary_path="/x")
        self.events = []
        self.prev = None
        self.hung = False
        self.notes = []
        self.calm_after = 10**9
        self.fatal = None  # a machinery problem noticed on an actor's thread (the code under test may swallow the exception)

    # ---- construction ------------------------------------------------------------------------------
    def _params(self, dv, key):
        iv = dv["iv"] / TPS
        if float(iv).is_integer():
            iv = int(iv)
        p = {key + "-sample-interval": iv}
        sel = None
        if dv["idx"] in ("c1", "c2"):
            sel = cname(int(dv["idx"][1]))
        elif dv["idx"] == "bad":
            sel = "nope"
        return p, sel

    def build(self):
        from esrally import config, exceptions, metrics, telemetry

        cfg = config.Config()
        cfg.add(config.Scope.application, "system", "env.name", "vf")
        cfg.add(config.Scope.application, "track", "params", {})
        cfg.add(config.Scope.application, "node", "rally.root", "/nonexistent")
        if self.scn["cmeta"]:
            cfg.add(config.Scope.application, "race", "user.tags", {"x": "1"})
        self.store = metrics.InMemoryMetricsStore(cfg)
        import datetime

        self.store.open("r1", datetime.datetime(2026, 1, 1), "trk", "chl", "car", create=False)
        self._instrument_store()
        clients = collections.OrderedDict((cname(c), FakeEs(self, c)) for c in range(1, self.nc + 1))
        es_default = clients["default"]
        enabled = []
        self.built = True
        for d, dv in enumerate(self.scn["devs"], start=1):
            k = dv["kind"]
            try:
                if k == "ccr":
                    p, sel = self._params(dv, "ccr-stats")
                    if sel:
                        p["ccr-stats-indices"] = {sel: ["i1"]}
                    dev = telemetry.CcrStats(p, clients, self.store)
                elif k == "recovery":
                    p, sel = self._params(dv, "recovery-stats")
                    if sel:
                        p["recovery-stats-indices"] = {sel: ["i1"]}
                    dev = telemetry.RecoveryStats(p, clients, self.store)
                elif k == "transform":
                    p, sel = self._params(dv, "transform-stats")
                    if sel:
                        p["transform-stats-transforms"] = {sel: ["t1"]}
                    dev = telemetry.TransformStats(p, clients, self.store)
                elif k == "nodestats":
                    p, sel = self._params(dv, "node-stats")
                    if dv["incl"]:
                        p["node-stats-include-indices"] = True
                    if dv["idx"] == "bad":
                        p["node-stats-include-indices-metrics"] = 5
                    dev = telemetry.NodeStats(p, clients, self.store)
                elif k == "jvm":
                    dev = telemetry.JvmStatsSummary(es_default, self.store)
                elif k == "ingest":
                    dev = telemetry.IngestPipelineStats(clients, self.store)
                elif k == "indexstats":
                    dev = telemetry.IndexStats(es_default, self.store)
                elif k == "diskio":
                    dev = telemetry.DiskIo(1)
                elif k == "startup":
                    dev = telemetry.StartupTime()
                elif k == "gc":
                    dev = telemetry.Gc({}, os.path.join(tlc.scratch("xtelemetry_gc"), "d%d" % d), 11)
                else:
                    raise tlc.MachineryError("unknown device kind %r" % k)
            except exceptions.SystemSetupError:
                self.rej = d
                self.ended = True
                return
            if k not in INTERNAL_KINDS:
                # one command per device instance, so that `enabled` is a property of the device (Telemetry._enabled is the real one)
                dev.command = "%s#%d" % (dev.command, d)
                if dv["en"]:
                    enabled.append(dev.command)
            self._instrument_device(dev, d)
            self.devices.append(dev)
        sls = self.scn["sls"]
        self.container = telemetry.Telemetry(enabled, devices=self.devices, serverless_mode=sls != "off", serverless_operator=sls == "operator")

    def _instrument_store(self):
        st = self.store
        w = self
        orig_add, orig_put_doc, orig_put_metric = st._add, st.put_doc, st._put_metric  # pylint: disable=protected-access

        def put_doc(doc, level=None, node_name=None, **kw):
            w.cur_level, w.cur_key = level, node_name
            return orig_put_doc(doc, level=level, node_name=node_name, **kw)

        def put_metric(level, level_key, *a, **kw):
            w.cur_level, w.cur_key = level, level_key
            return orig_put_metric(level, level_key, *a, **kw)

        def add(doc):
            w.on_doc(doc)
            return orig_add(doc)

        st.put_doc, st._put_metric, st._add = put_doc, put_metric, add  # pylint: disable=protected-access

    def _instrument_device(self, dev, d):
        w = self

        def wrap(cbname, meth):
            def call(*args, **kw):
                name = cbname
                if cbname == "detach":
                    running = kw.get("running", args[1] if len(args) > 1 else None)
                    name = "detachR" if running else "detachS"
                if name == "jopts":
                    w.jo_list = sys._getframe(1).f_locals.get("opts", w.jo_list)  # pylint: disable=protected-access
                w.pause(("cb", d, name))
                w.cur_dev, w.cur_cb = d, name
                try:
                    r = meth(*args, **kw)
                except _Teardown:
                    raise
                except BaseException:
                    w.log.append({"k": len(w.ccalls) + 1, "cb": name, "d": d, "out": "raise"})
                    w.last_raise = d
                    raise
                w.log.append({"k": len(w.ccalls) + 1, "cb": name, "d": d, "out": "ok"})
                if name == "detachR" and w.scn["devs"][d - 1]["kind"] == "diskio":
                    w.fin[d - 1] = dev.read_bytes is not None
                return r

            return call

        for cbname, meth in (
            ("jopts", "instrument_java_opts"),
            ("pre", "on_pre_node_start"),
            ("attach", "attach_to_node"),
            ("bstart", "on_benchmark_start"),
            ("bstop", "on_benchmark_stop"),
            ("detach", "detach_from_node"),
            ("store", "store_system_metrics"),
        ):
            setattr(dev, meth, wrap(cbname, getattr(dev, meth)))

    # ---- hand-over ---------------------------------------------------------------------------------
    def _resume(self, actor, value=None):
        actor.resume = value
        self.running = actor
        actor.go.release()
        # wall-clock watchdog for the machinery only (an actor that never reaches a hand-over point), never a verdict
        if not self.back.acquire(timeout=60):
            raise tlc.MachineryError("an actor of the telemetry harness did not reach a hand-over point within 60 s: %r" % (actor.wait,))
        self.running = None

    def pause(self, what):
        a = self.running
        a.wait = what
        self.back.release()
        a.go.acquire()
        if self.teardown:
            raise _Teardown()
        return a.resume

    # ---- callbacks from the patched primitives (run on the actor's thread) ---------------------------
    def on_thread_start(self, sampler):
        rec = sampler.recorder
        c = cindex(getattr(rec, "cluster_name", "default"))
        a = Actor("th", self.cur_dev, c)
        a.sampler = sampler
        a.t0 = self.now
        a.wake = self.now
        a.left = _ticks(rec.sample_interval)
        sampler._verif_actor = a  # pylint: disable=protected-access
        self.threads[(a.d, a.c)] = a
        self.all_actors.append(a)
        a.thread = sampler

    def thread_body(self, sampler):
        a = sampler._verif_actor  # pylint: disable=protected-access
        a.go.acquire()
        if not self.teardown:
            try:
                self.telemetry_module().Sampler.run(sampler)
            except BaseException:  # pylint: disable=broad-except
                a.crashed = True
        a.done = True
        a.wait = ("end",)
        self.back.release()

    @staticmethod
    def telemetry_module():
        from esrally import telemetry

        return telemetry

    def on_sleep(self, secs):
        a = self.running
        if a is None or a.kind != "th":
            return
        left = None
        fr = sys._getframe(1)  # pylint: disable=protected-access
        for _ in range(6):
            if fr is None:
                break
            if "sleep_left" in fr.f_locals:
                left = fr.f_locals["sleep_left"] - secs
                break
            fr = fr.f_back
        a.left = _ticks(left) if left is not None else -1
        a.wake = self.now + _ticks(secs)
        self.pause(("sleep",))

    def on_join(self, sampler):
        a = getattr(sampler, "_verif_actor", None)
        if a is None:
            raise RuntimeError("cannot join thread before it is started")
        self.cur_join = a
        # join() is a scheduling point also when the thread has already ended
        self.pause(("join", a))
        while not a.done:
            self.pause(("join", a))
        a.tjoin = self.now
        self.cur_join = a

    def on_log_exception(self, msg):
        a = self.running
        if a is not None and a.kind == "th" and str(msg).startswith("Could not determine"):
            a.crashed = True

    def on_io_counters(self):
        x = self._main_answer()
        if x < 0:
            raise RuntimeError("scripted psutil failure")
        return IoCounters(read_bytes=x, write_bytes=x)

    def _main_answer(self):
        if self.queue is not None:
            if self.queue:
                x = self.queue.pop(0)
            else:
                self.short = True
                x = 0
        else:
            x = self.rnd.choice(self.answer_pool)
        self.consumed.append(x)
        return x

    answer_pool = [0, 1, 2, 2, 1, 0, TERR, AERR]

    def es_call(self, c, what):
        a = self.running
        if a is not None and a.kind == "th":
            a.calls.append(self.now)
            if a.sampler.stop:
                a.aft += 1
            x = self.pause(("es", what))
            a.ans.append({"a": x, "t": self.now})
            req = len(a.calls)
        else:
            x = self._main_answer()
            if what in ("info", "transform") and x > 0:
                x = 0
                self.consumed[-1] = 0
            req = 0
        if x == TERR:
            raise _transport_error()
        if x == AERR:
            raise _api_error()
        return x, req

    def on_doc(self, doc):
        a = self.running
        name = doc.get("name")
        if name not in TRACKED:
            return
        meta = doc.get("meta") or {}
        md = sorted("%s=%s" % (k, ",".join(map(str, v)) if isinstance(v, (list, tuple)) else v) for k, v in meta.items())
        el, v, f = "", 0, []
        if a is not None and a.kind == "th":
            d, c = a.d, a.c
        else:
            d, c = self.cur_dev, 0
        try:
            if name == "ccr-stats":
                el, v = doc["shard"]["follower_index"], doc["shard"]["operations_written"]
            elif name == "recovery-stats":
                el, v = doc["shard"]["verif_index"], doc["shard"]["verif_req"]
            elif name == "node-stats":
                el, v = self._node_of(), doc.get("jvm_mem_heap_used_in_bytes", 0) % 1000
                f = sorted(k for k in doc if k not in ENVELOPE)
            elif "transform_" in name:
                el, v = meta.get("transform_id", "?"), doc["value"]
                if name.startswith("total_") and self.cur_join is not None:
                    c = self.cur_join.c
            elif name.startswith("ingest_pipeline"):
                c = cindex(meta.get("cluster_name", ""))
                el, v = ("" if "cluster_count" in name else self._node_of()), doc["value"]
            elif name in ("node_young_gen_gc_time", "disk_io_write_bytes", "disk_io_read_bytes"):
                el, v = self._node_of(), doc["value"]
            elif name == "node_startup_time":
                el, v = self._node_of(), _ticks(doc["value"])
            else:
                v = doc["value"]
            if isinstance(v, float):
                # a value off the integer grid is logged as -999 (judged by TLC), not raised on the actor's thread
                v = int(round(v)) if abs(v - round(v)) <= 1e-6 else -999
            if isinstance(v, bool) or not isinstance(v, int) or abs(v) >= 2**31 or not isinstance(el, str):
                el, v = str(el), -999
        except (KeyError, TypeError, AttributeError):
            # a document without the expected shape is still logged: TLC judges it (SamplesStored)
            el, v = "?", -999
        lvl = self.cur_level.name if self.cur_level is not None else "none"
        rel = doc["relative-time"] * TPS / 1000.0
        self.docs.append({"d": d, "c": c, "name": name, "el": el, "v": v, "t": int(round(rel)), "lvl": lvl, "md": md, "f": f})

    def _node_of(self):
        # the node a node-level record belongs to is not part of the document: it is the level key given to the store
        return str(self.cur_key or "")

    # ---- operations (called by the scheduler) ---------------------------------------------------------
    def main_state(self):
        if not self.built:
            return "build"
        if self.ended:
            return "end"
        if self.main is None or self.main.done:
            return "idle"
        return self.main.wait[0]  # "cb" | "join"

    def enabled_ops(self):
        ops = []
        ms = self.main_state()
        if ms == "build":
            return [("Build", 0, 0)]
        if ms == "idle":
            if self.pi < len(self.scn["prog"]):
                ops.append(("Call", 0, 0))
                if self.ccalls and self.ccalls[-1]["out"] == "raise":
                    ops.append(("End", 0, 0))
        elif ms == "cb":
            ops.append(("Dev", self.main.wait[1], 0))
        elif ms == "join":
            t = self.main.wait[1]
            if t.done:
                ops.append(("Join", t.d, t.c))
        tick_ok = True
        for (d, c), a in sorted(self.threads.items()):
            if a.done:
                continue
            if a.wait[0] in ("new", "sleep"):
                if a.wake <= self.now:
                    ops.append(("ThWake", d, c))
                    tick_ok = False
            elif a.wait[0] == "es":
                ops.append(("ThAnswer", d, c))
                if self.now - a.calls[-1] >= MAXLAT:
                    tick_ok = False
        if tick_ok:
            ops.append(("Tick", 0, 0))
        return ops

    def caller_done(self):
        ms = self.main_state()
        return ms == "end" or (ms == "idle" and self.pi == len(self.scn["prog"]))

    def apply(self, name, d=0, c=0, x=None):
        """Executes one step; returns False if it is not possible in the current state of the real code."""
        x = list(x or [])
        ms = self.main_state()
        self.consumed = []
        self.short = False
        if name == "Build":
            if ms != "build":
                return False
            self.build()
        elif name == "Call":
            if ms != "idle" or self.pi >= len(self.scn["prog"]):
                return False
            cb = self.scn["prog"][self.pi]
            self.pi += 1
            self.last_raise = 0
            if cb == "jopts":
                self.jo_list = []
            self._start_main(cb)
        elif name == "Dev":
            if ms != "cb":
                return False
            d = self.main.wait[1]
            self.queue = x if self.rnd is None else None
            self._step_main()
            if self.consumed:
                self.rd[d - 1].append({"cb": self.log_cb_of(d), "a": list(self.consumed)})
        elif name == "Join":
            if ms != "join" or not self.main.wait[1].done:
                return False
            t = self.main.wait[1]
            d, c = t.d, t.c
            self.queue = x if self.rnd is None else None
            self._step_main()
            if self.consumed:
                self.rd[d - 1].append({"cb": "final", "a": list(self.consumed)})
        elif name == "End":
            if ms != "idle":
                return False
            self.ended = True
        elif name == "ThWake":
            a = self.threads.get((d, c))
            if a is None or a.done or a.wait[0] not in ("new", "sleep") or a.wake > self.now:
                return False
            self._resume(a)
        elif name == "ThAnswer":
            a = self.threads.get((d, c))
            if a is None or a.done or a.wait[0] != "es":
                return False
            if not x:
                # no more failures once the caller has been waiting in join() for a while (a finish() that hangs must show)
                calm = self.main_state() == "join" and self.now >= self.calm_after
                x = [0] if calm else [self.rnd.choice([0, 0, 0, 0, TERR, AERR])]
            self._resume(a, x[0])
        elif name == "Tick":
            self.now += 1
        else:
            raise tlc.MachineryError("unknown step %r" % name)
        if name in ("Dev", "Join"):
            if self.queue:
                self.notes.append("step %s of device %d consumed only %d of the scheduled answers %r" % (name, d, len(self.consumed), x))
            x = list(self.consumed)
            self.queue = None
        for a in self.threads.values():
            if a.sampler.stop and a.tflag < 0:
                a.tflag = self.now
        self._record(name, d, c, x)
        return True

    def log_cb_of(self, d):
        # the callback of device d that has just been executed (or is blocked in join)
        return self.cur_cb

    def _start_main(self, cb):
        cont, node = self.container, self.node
        fn = {
            "jopts": cont.instrument_candidate_java_opts,
            "pre": lambda: cont.on_pre_node_start("n1"),
            "attach": lambda: cont.attach_to_node(node),
            "bstart": cont.on_benchmark_start,
            "bstop": cont.on_benchmark_stop,
            "detachR": lambda: cont.detach_from_node(node, running=True),
            "detachS": lambda: cont.detach_from_node(node, running=False),
            "store": lambda: cont.store_system_metrics(node, self.store),
        }[cb]
        a = Actor("main")
        a.cb = cb
        self.main = a
        self.all_actors.append(a)

        def body():
            a.go.acquire()
            if not self.teardown:
                try:
                    a.result = ("ok", fn())
                except _Teardown:
                    a.result = ("teardown", None)
                except BaseException as ex:  # pylint: disable=broad-except
                    a.result = ("raise", ex)
            a.done = True
            a.wait = ("end",)
            self.back.release()

        a.thread = threading.Thread(target=body, daemon=True)
        a.thread.start()
        self._step_main()

    def _step_main(self):
        a = self.main
        self._resume(a)
        if a.done:
            kind, val = a.result
            if kind == "ok":
                self.ccalls.append({"cb": a.cb, "out": "ok", "d": 0})
                if a.cb == "jopts":
                    self.jo_list = list(val)
            elif kind == "raise":
                self.ccalls.append({"cb": a.cb, "out": "raise", "d": self.last_raise})

    # ---- observation --------------------------------------------------------------------------------
    def _jo(self):
        res = []
        for o in self.jo_list or []:
            m = re.search(r"/d(\d+)/gc\.log", str(o))
            res.append(int(m.group(1)) if m else -1)
        return res

    def _mpc(self):
        ms = self.main_state()
        if ms == "build":
            return {"at": "build", "cb": "", "i": 0, "c": 0}
        if ms == "end":
            return {"at": "end", "cb": "", "i": 0, "c": 0}
        if ms == "idle":
            return {"at": "idle", "cb": "", "i": 0, "c": 0}
        if ms == "cb":
            return {"at": "dev", "cb": self.main.wait[2], "i": self.main.wait[1], "c": 0}
        t = self.main.wait[1]
        sam = getattr(self.devices[t.d - 1], "samplers", [])
        pos = [i for i, s in enumerate(sam, start=1) if s is t.sampler]
        return {"at": "join", "cb": self.cur_cb, "i": t.d, "c": pos[0] if pos else 0}

    def _ds(self):
        res = []
        for d, dv in enumerate(self.scn["devs"], start=1):
            r = {"sam": [], "v0": [], "fin": False, "t0": -1, "t1": -1}
            if d <= len(self.devices):
                dev = self.devices[d - 1]
                k = dv["kind"]
                if k in SAMPLER_KINDS:
                    r["sam"] = [getattr(s, "_verif_actor").c for s in dev.samplers if hasattr(s, "_verif_actor")]
                elif k == "jvm":
                    st = dev.jvm_stats_per_node
                    if st:
                        r["v0"] = [next(iter(st.values()))["collectors"]["young_gen"]["gc_time"]]
                elif k == "ingest":
                    st = dev.start_stats
                    if st:
                        r["v0"] = [st["es-" + cname(c)]["n1"]["total"]["count"] for c in range(1, self.nc + 1) if "es-" + cname(c) in st]
                elif k == "diskio":
                    if dev.read_bytes is not None:
                        r["v0"] = [dev.read_bytes]
                    r["fin"] = self.fin[d - 1]
                elif k == "startup":
                    t0, t1 = dev.timer._start, dev.timer._stop  # pylint: disable=protected-access
                    r["t0"] = -1 if t0 is None else _ticks(t0)
                    r["t1"] = -1 if t1 is None else _ticks(t1)
            res.append(r)
        return res

    def _th(self):
        rows = []
        for d in range(1, self.n + 1):
            row = []
            for c in range(1, self.nc + 1):
                a = self.threads.get((d, c))
                if a is None:
                    row.append(
                        {"pc": "none", "wake": 0, "left": 0, "stop": False, "calls": [], "ans": [], "aft": 0, "t0": -1, "tflag": -1, "tjoin": -1, "crashed": False}
                    )
                    continue
                if a.done:
                    pc, wake, left = "done", 0, 0
                elif a.wait[0] == "es":
                    pc, wake, left = "rec", 0, 0
                else:
                    pc, wake, left = "sleep", a.wake, a.left
                row.append(
                    {
                        "pc": pc,
                        "wake": wake,
                        "left": left,
                        "stop": bool(a.sampler.stop),
                        "calls": list(a.calls),
                        "ans": [dict(x) for x in a.ans],
                        "aft": a.aft,
                        "t0": a.t0,
                        "tflag": a.tflag,
                        "tjoin": a.tjoin,
                        "crashed": a.crashed,
                    }
                )
            rows.append(row)
        return rows

    def snapshot(self):
        return {
            "now": self.now,
            "mpc": self._mpc(),
            "pi": self.pi,
            "log": [dict(e) for e in self.log],
            "ccalls": [dict(e) for e in self.ccalls],
            "jo": self._jo(),
            "ds": self._ds(),
            "th": self._th(),
            "store": [dict(x) for x in self.docs],
            "rd": [[dict(e) for e in r] for r in self.rd],
            "rej": self.rej,
        }

    def _record(self, name, d, c, x):
        st = self.snapshot()
        if self.prev is None:
            delta = st
        else:
            delta = {k: v for k, v in st.items() if v != self.prev[k]}
        self.prev = st
        self.events.append({"a": name, "d": d, "c": c, "x": list(x), "st": delta})

    # ---- end of the run ------------------------------------------------------------------------------
    def finish(self):
        self.teardown = True
        for a in list(self.all_actors):
            if a.kind == "th" and not a.done:
                self._resume(a)
        for a in list(self.all_actors):
            if a.kind == "main" and not a.done:
                for _ in range(1000):
                    if a.done:
                        break
                    self._resume(a)
        for a in self.all_actors:
            th = a.thread
            if th is not None and th.ident is not None:
                threading.Thread.join(th, 5)


def execute(scn, schedule=None, seed=0, max_time=12, max_steps=400):
    """Runs one scenario on the real code: along `schedule` (list of (name, d, c, x) from a TLC behaviour) or, if None, under a
    seeded random scheduler. Returns the trace item (without id) and the list of notes."""
    global _W
    _setup()
    rnd = random.Random(seed) if schedule is None else None
    w = World(scn, rnd=rnd)
    w.calm_after = max_time + 6
    diverged = None
    with Patches():
        _W = w
        try:
            if schedule is not None:
                for k, (name, d, c, x) in enumerate(schedule):
                    if not w.apply(name, d, c, x):
                        diverged = "step %d %s(%d,%d,%r) of the TLC behaviour is not possible on the real code (main is %s)" % (k, name, d, c, x, w.main_state())
                        break
            else:
                # when the caller issues its k-th container call / how eager the threads are
                gaps = [rnd.choice([0, 0, 1, 2, 3, 5, 8]) for _ in scn["prog"]] + [0]
                next_call_at = gaps[0]
                steps = 0
                while steps < max_steps:
                    steps += 1
                    ops = w.enabled_ops()
                    if w.caller_done() and (w.now >= max_time or not any(not a.done for a in w.threads.values())):
                        break
                    if w.now >= max_time and w.main_state() != "join":
                        # the caller hurries up once the clock bound is reached
                        next_call_at = 0
                    ops = [o for o in ops if not (o[0] in ("Call", "End") and w.now < next_call_at)]
                    if w.main_state() == "join" and w.now >= max_time + 30:
                        # the caller has been waiting in join() for 15 s of virtual time although every request is answered
                        w.hung = True
                        break
                    if w.now >= max_time + 40:
                        ops = [o for o in ops if o[0] != "Tick"] or ops
                    if not ops:
                        w.hung = w.main_state() == "join"
                        break
                    weights = [{"Build": 1, "Tick": 2, "Call": 2, "End": 1, "Dev": 4, "Join": 4, "ThWake": 5, "ThAnswer": 3}[o[0]] for o in ops]
                    name, d, c = rnd.choices(ops, weights)[0]
                    if name == "End" and rnd.random() < 0.6:
                        continue
                    if not w.apply(name, d, c):
                        raise tlc.MachineryError("harness scheduler chose an impossible step %r" % ((name, d, c),))
                    if name == "Call":
                        next_call_at = w.now + gaps[min(w.pi, len(gaps) - 1)]
                else:
                    w.hung = w.main_state() == "join"
        finally:
            try:
                w.finish()
            finally:
                _W = None
    if w.fatal:
        raise tlc.MachineryError("telemetry harness: %s (scenario %s)" % (w.fatal, scn))
    return {"scn": scn, "hung": w.hung, "events": w.events}, w.notes, diverged


# ---------------------------------------------------------------------------------------------------
# case sources
# ---------------------------------------------------------------------------------------------------
def simulate(ctx, cfg, num, depth, seed_off):
    """One `tlc -simulate` run; returns (TlcResult, cases). Safe to call from a worker thread (only subprocess + file parsing)."""
    wd = tlc.prepare_workdir("Telemetry", "xtelsim")
    simdir = os.path.join(wd, "sim")
    os.makedirs(simdir)
    res = tlc.run_tlc(
        wd,
        "MCS_Telemetry",
        cfg,
        workers=1,
        simulate={"num": num, "file": os.path.join(simdir, "b")},
        depth=depth,
        seed=ctx.seed + seed_off,
        timeout=300,
    )
    if not res.ok:
        raise tlc.MachineryError("simulation reported a model violation: %s" % res.out[-2000:])
    cases = []
    for fn in sorted(glob.glob(os.path.join(simdir, "b_*")), key=lambda f: [int(x) for x in re.findall(r"\d+", os.path.basename(f))]):
        states = parse_simulation_file(fn)
        scn = to_json(states[0]["scn"])
        sched = []
        for s in states[1:]:
            act = to_json(s["act"])
            sched.append((act["name"], act["d"], act["c"], list(act["a"])))
        if sched:
            cases.append({"src": "tlc-simulate:" + cfg, "scn": scn, "schedule": sched})
    return res, cases


def model_check(cfg, timeout, workers):
    wd = tlc.prepare_workdir("Telemetry", "xtelmc")
    return tlc.run_tlc(wd, "MC_Telemetry", cfg, timeout=timeout, allow_violation=True, workers=workers)


def _dev(kind, en=True, iv=1, idx="none", incl=False):
    return {"kind": kind, "en": en, "iv": iv, "idx": idx, "incl": incl}


def random_scenario(rnd):
    nc = rnd.choice([1, 2, 2])
    mode = rnd.choice(["bench", "bench", "bench", "bench", "node", "mixed"])
    devs = []
    n = rnd.randint(1, 4)
    for _ in range(n):
        if mode == "node" or (mode == "mixed" and rnd.random() < 0.5):
            k = rnd.choice(["gc", "gc", "diskio", "startup", "jvm"])
        else:
            k = rnd.choice(["ccr", "recovery", "nodestats", "transform", "jvm", "ingest", "indexstats"])
        iv = rnd.choice([1, 1, 2, 2, 3, 5])
        idx = "none"
        if k in ("ccr", "recovery", "transform"):
            idx = rnd.choice(["none", "none", "none", "c1"] + (["c2"] if nc == 2 else []))
        if rnd.random() < 0.04 and k in SAMPLER_KINDS:
            if rnd.random() < 0.5:
                iv = 0
            else:
                idx = "bad"
        devs.append(_dev(k, en=rnd.random() < 0.85, iv=iv, idx=idx, incl=k == "nodestats" and rnd.random() < 0.5))
    if mode == "bench":
        prog = rnd.choice([["bstart", "bstop"]] * 6 + [["bstop"], ["bstart"]])
    else:
        prog = [cb for cb in CB if rnd.random() < 0.75] or ["attach"]
    node_only = any(d["kind"] in ("gc", "diskio", "startup") for d in devs)
    sls = "off" if node_only else rnd.choice(["off"] * 6 + ["user", "operator"])
    return {"devs": devs, "nc": nc, "sls": sls, "cmeta": rnd.random() < 0.7, "ne": rnd.choice([0, 1, 1, 2]), "prog": prog}


# ---------------------------------------------------------------------------------------------------
def _signature(clauses, scn):
    return {"clauses": sorted(clauses), "kinds": sorted({d["kind"] for d in scn["devs"]}), "prog": list(scn["prog"])}


def run_cases(cases, out, label, stats):
    items, index = [], {}
    for ci, case in enumerate(cases):
        item, notes, diverged = execute(case["scn"], schedule=case.get("schedule"), seed=case.get("seed", 0), max_time=case.get("max_time", 12))
        item["id"] = "%s-%d" % (label, ci)
        items.append(item)
        index[item["id"]] = (case, item)
        evs = item["events"]
        nrec = sum(1 for e in evs if e["a"] == "ThAnswer")
        out.add_case({"scn": case["scn"], "schedule": case.get("schedule"), "seed": case.get("seed")}, nontrivial=len(evs) >= 6)
        stats["runs"] += 1
        stats["events"] += len(evs)
        stats["records"] += nrec
        stats["runs_with_sampler"] += nrec > 0
        stats["record_errors"] += sum(1 for e in evs if e["a"] == "ThAnswer" and e["x"][0] < 0)
        stats["joins"] += sum(1 for e in evs if e["a"] == "Join")
        stats["raised_container_calls"] += any(c["out"] == "raise" for e in evs for c in e["st"].get("ccalls", []))
        stats["rejected_params"] += any(e["st"].get("rej", 0) for e in evs)
        stats["hung"] += item["hung"]
        if case.get("schedule") is not None:
            stats["s2c"] += 1
            stats["s2c_followed"] += diverged is None and not notes
        if diverged:
            out.drift.append("run %s: %s; scenario %s" % (item["id"], diverged, case["scn"]))
        for n in notes[:1]:
            out.drift.append("run %s: %s" % (item["id"], n))
    if not items:
        raise tlc.MachineryError("no runs for %s" % label)
    verdicts = tracecheck.validate("Telemetry", "TraceTelemetry", "TraceTelemetry.cfg", items, name="xteltrace", chunk=400, timeout=600)
    # the intended properties the code is known to violate (pinned behind the named switches) are reported separately
    for tid in list(verdicts.l1):
        kept = []
        for line, clauses in verdicts.l1[tid]:
            pinned = [c for c in clauses if c.startswith(PINNED_PREFIX)]
            for c in pinned:
                stats["pinned"][c] = stats["pinned"].get(c, 0) + 1
            rest = [c for c in clauses if not c.startswith(PINNED_PREFIX)]
            if rest:
                kept.append((line, rest))
        if kept:
            verdicts.l1[tid] = kept
        else:
            del verdicts.l1[tid]
    out.states += verdicts.n_events
    out.transitions += verdicts.n_events
    out.traces_validated += verdicts.accepted(len(items))
    for tid, fails in sorted(verdicts.l1.items()):
        case, item = index[tid]
        clauses = sorted({c for _, cl in fails for c in cl})
        stats["l1"][",".join(clauses)] = stats["l1"].get(",".join(clauses), 0) + 1
        out.violations.append(
            Violation(
                ",".join(clauses),
                {"scn": case["scn"], "schedule": case.get("schedule"), "seed": case.get("seed")},
                signature=_signature(clauses, case["scn"]),
                detail="run %s, first failing event %d of %d" % (tid, fails[0][0], len(item["events"])),
            )
        )
    for tid, lines in sorted(verdicts.l2.items()):
        case, item = index[tid]
        ln = lines[0]
        ev = item["events"][ln - 1] if 1 <= ln <= len(item["events"]) else None
        what = "%s(d=%s,c=%s,x=%s)" % (ev["a"], ev["d"], ev["c"], ev["x"]) if ev else "end of run"
        out.drift.append("run %s: event %d %s is not a step of Telemetry.tla; scenario %s seed %s" % (tid, ln, what, case["scn"], case.get("seed")))
    return items


SELFTESTS = [
    ("Telemetry.selftest.isolate.cfg", "Isolation", "IsolateDevices=FALSE (code): a device that raises keeps the devices behind it from being called"),
    ("Telemetry.selftest.atstart.cfg", "FirstAtStart", "RecordAtStart=FALSE (code): the first sample is taken one interval after the start"),
    ("Telemetry.selftest.survive.cfg", "SamplerSurvives", "SamplerSurvivesError=FALSE (code): a failed record() ends the sampler"),
    ("Telemetry.selftest.apierr.cfg", "SwallowersNeverRaise", "ApiErrorsHandled=FALSE (code): an HTTP error status escapes JvmStatsSummary's `except TransportError`"),
    ("Telemetry.selftest.apierr2.cfg", "NodeStatsSurvivesApiError", "ApiErrorsHandled=FALSE (code): an HTTP error status ends the node-stats sampler"),
    ("Telemetry.selftest.diskio.cfg", "DiskIoDelta", "DeltaNeedsStop=FALSE (code): DiskIo stores the start counter when the second read never took place"),
    ("Telemetry.selftest.meta.cfg", "SampleMeta", "DocMetaAlways=FALSE (code): put_doc drops the sample's meta data when the cluster meta info is empty"),
    ("Telemetry.selftest.ingest.cfg", "IngestClusterTotal", "IngestPerCluster=FALSE (code): ingest_pipeline_cluster_count of the 2nd cluster includes the 1st"),
]


def run(ctx, out):
    out.rule = (
        "case = scenario (device list with kind / enabled / sample interval / per-cluster selection / bad parameters, 1-2 clusters, "
        "serverless mode, cluster meta info, size of the stats responses, the caller's sequence of container calls) + schedule (order of "
        "caller / sampler-thread / clock steps, answer ok|TransportError|ApiError or counter value per stats call); distinct by hash; "
        "non-trivial = at least 6 steps. Sources: TLC -simulate behaviours (S2C) and seeded random scenarios + schedules (C2S only)."
    )
    out.assumptions = [
        "virtual clock in ticks of 1/2 s; a sleeping sampler wakes exactly at its wake-up time (no oversleep); a request is answered within 3 ticks",
        "threads are real SamplerThread objects (real Sampler.run) that hand over to the harness only in sleep(), in the stats request and in join(): "
        "one step = the code between two such points; data races inside such a stretch (e.g. on the metrics store list) are not explored",
        "instrumentation: SamplerThread.start/run/join wrappers, time.sleep/perf_counter/time, sysstats process counters, per-instance wrappers around "
        "the 7 device callbacks and the store's put_doc/_put_metric/_add; Telemetry, the device classes, recorders and InMemoryMetricsStore are the real ones",
        "fixed small stats payloads (2 nodes / indices / transforms); tracked metric names: a representative subset per device",
        "not modelled: FlightRecorder, JitCompiler, Heapdump, IndexSize, SegmentStats, ShardStats, SearchableSnapshotsStats, DataStreamStats, "
        "MasterNodeStats, DiskUsageStats, BlobStoreStats, GeoIpStats, MlBucketProcessingTime, *EnvironmentInfo (same sampler / container machinery)",
    ]
    # ---- Leg M, the self-tests and the TLC simulations are independent TLC processes: run them side by side
    import concurrent.futures as cf

    tlc.scratch_root()
    q = ctx.quick
    mc = [("Telemetry.quick.cfg", 200, 6), ("Telemetry.quicknode.cfg", 100, 2)] if q else [("Telemetry.thorough.cfg", 2400, 8), ("Telemetry.quicknode.cfg", 200, 2), ("Telemetry.repaired.cfg", 600, 4)]
    sims = [("Telemetry.sim.cfg", 100 if q else 700, 70, 41), ("Telemetry.simok.cfg", 80 if q else 700, 70, 42), ("Telemetry.simnode.cfg", 60 if q else 400, 45, 43)]
    with cf.ThreadPoolExecutor(max_workers=5 if q else 4) as pool:
        f_mc = [(c, pool.submit(model_check, c, to, wk)) for c, to, wk in mc]
        f_sim = [(c, pool.submit(simulate, ctx, c, num, depth, off)) for c, num, depth, off in sims]
        f_self = [(c, inv, text, pool.submit(model_check, c, 120, 1)) for c, inv, text in SELFTESTS]
        for c, f in f_mc:
            res = f.result()
            out.add_tlc(res)
            if not res.ok:
                raise tlc.MachineryError("model violates %s in %s: %s" % (res.invariant_violated or res.property_violated or "deadlock freedom", c, res.out[-1500:]))
            out.note("leg M %s: %d distinct states, depth %d, %.1fs" % (c, res.distinct, res.depth, res.wall_s))
        for c, inv, text, f in f_self:
            res = f.result()
            if res.invariant_violated != inv:
                raise tlc.MachineryError("self-test failed: %s no longer violates %s (%s)" % (c, inv, res.out[-800:]))
            out.extra.setdefault("model_selftests", []).append("%s violates %s in the model, as expected: %s" % (c, inv, text))
        sim = []
        for c, f in f_sim:
            res, cases = f.result()
            out.add_tlc(res)
            sim += cases
    # ---- Leg S2C + C2S
    stats = {k: 0 for k in ("runs", "events", "records", "runs_with_sampler", "record_errors", "joins", "raised_container_calls", "rejected_params", "hung", "s2c", "s2c_followed")}
    stats["l1"] = {}
    stats["pinned"] = {}
    out.note("leg S2C: %d TLC behaviours" % len(sim))
    items = run_cases(sim, out, "sim", stats)
    out.sample({"source": sim[0]["src"], "scenario": sim[0]["scn"], "schedule": [list(x) for x in sim[0]["schedule"][:25]], "events": len(items[0]["events"])})
    rnd = random.Random(ctx.seed + 47)
    rc = []
    for k in range(450 if ctx.quick else 5000):
        rc.append({"src": "random", "scn": random_scenario(rnd), "seed": ctx.seed * 100003 + k, "max_time": rnd.choice([6, 10, 14])})
    items = run_cases(rc, out, "rnd", stats)
    out.sample({"source": "random", "scenario": rc[0]["scn"], "seed": rc[0]["seed"], "events": len(items[0]["events"])})
    out.extra["coverage_of_runs"] = stats
    out.extra["pinned_surprises_observed_on_real_code"] = dict(sorted(stats["pinned"].items()))
    out.note(
        "leg C2S: %d runs / %d steps validated; %d record() calls (%d failed), %d joins, %d runs with a raising container call, %d with rejected "
        "parameters; S2C: %d/%d TLC behaviours reproduced step by step; intended-but-pinned properties observed violated on the real code: %s"
        % (
            out.traces_validated,
            stats["events"],
            stats["records"],
            stats["record_errors"],
            stats["joins"],
            stats["raised_container_calls"],
            stats["rejected_params"],
            stats["s2c_followed"],
            stats["s2c"],
            dict(sorted(stats["pinned"].items())),
        )
    )
    for key in ("records", "record_errors", "joins", "raised_container_calls", "rejected_params", "s2c_followed"):
        if not stats[key]:
            out.vacuous.append("no executed run exercised: " + key)
