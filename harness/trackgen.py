"""C10 helper: abstract track files (the records of specs/TrackModel/TrackModel.tla) <-> real track directories.

  render(F, root, style)    writes track.json (+ included parts, one or two levels deep) for the abstract file F
  load(root, F, sel, via)   runs the REAL loader (TrackFileReader.read or loader.load_track) and returns the outcome
                            {ok, kind, core, extra, err} with core/extra = projection of the returned Track object
  random_file(rnd)          seeded random abstract files over alphabets much wider than the TLC configurations
  from_state(f)             TLC state value (harness.fastdump) -> JSON-able F

Encoding conventions shared with the specification (strings are plain words so that TLC dumps stay easy to read):
  document file  base "docs1", ext "" | "bz2" | "gz"    <->  "docs1.json[.bz2]"
  throughput     unit "" (plain number) | "docs" | "ops" <->  "<n> docs/s"
  Abs = -1 / ""  attribute not written / None in the loaded object
  -99 / "weird:" a loaded attribute of a type the model cannot express (always an inequality for TLC, never a crash)
"""
import hashlib
import json
import logging
import os
import re
import shutil
import tempfile

from . import tlc

ABS = -1
NOVAL = {"v": ABS, "p": ""}
NOSTR = {"v": "", "p": ""}
NODEFECT = {"k": "none", "c": 0, "e": 0, "t": 0}
NOX = {"p": "", "d": ABS, "comma": True}
# model words that stand for strings with characters that matter to template engines / HTML escaping (the TLC side keeps
# plain words); applied to every name-like string that is rendered and inverted on every projected string
REAL = {
    "n2": "tom & <jerry>'s",
    "n3": "<logs-{now/d}>",
    "sup-task": "a<b>&'c'",
    "b": "b&b",
    "u1": "https://u1.example.org/corpora/data",
    "u2": "http://u2.example.org/x?a=1&b=2",
}
MODEL = {v: k for k, v in REAL.items()}
TPL_SECTION = {"composable": "composable-templates", "component": "component-templates", "templates": "templates"}


def _real(x):
    return REAL.get(x, x)


XSETTING = "my-setting"  # a setting the schema does not constrain
XCODES = {-2: False, -3: "", -4: True}  # supplied values of macro parameters that are not numbers
TASK_NUM = ["clients", "wi", "it", "wtp", "tp", "ru", "tput", "bulk"]
EL_NUM = ["cap", "wi", "it", "wtp", "tp", "ru"]
KEY = {"clients": "clients", "cap": "clients", "wi": "warmup-iterations", "it": "iterations", "wtp": "warmup-time-period", "tp": "time-period", "ru": "ramp-up-time-period"}

# ---------------------------------------------------------------------------------------------------
# operation parameters with text that is special to re replacement templates / Jinja / JSON
# ---------------------------------------------------------------------------------------------------
# A text travels NEXT TO the abstract file (the rules and the transcription of the loader do not depend on it):
#   txt = {"ops": [{"i": k, "lit": <JSON string literal as it stands in the file>}],            k-th entry of the operations section
#          "tasks": [{"c": c, "e": e, "i": i, "lit": ...}]}                                       inline operation of task c/e/i
# render() writes  "verbatim-text": <lit>  into that operation (wherever the operation lives: track.json or an included part
# of the first / second level); what was WRITTEN is json.loads(lit), handed to TLC as the sequence of its UTF-8 bytes;
# what was LOADED is params["verbatim-text"] of the operation each task of the returned Track executes (project_text).
TEXT_KEY = "verbatim-text"  # a parameter the schema does not constrain
TEXT_POOL = [
    r'"\\d+\\.log"',  # regexp query: \d+\.log
    r'"C:\\\\logs\\\\*"',  # Windows path with doubled separators: C:\\logs\\*
    r'"caf\u00e9 \u20ac \ud83d\ude00"',  # JSON \u escapes (incl. a surrogate pair)
    r'"line1\nline2\ttab\r\b\f"',  # JSON control-character escapes
    r'"\\g<0> and \\g<1> \\g<name>"',  # re group references by name / number
    r'"\\1 \\2 \\0 \\10"',  # re numeric back references / octal escapes
    r'"$1 ${name} $$ \\$"',  # replacement syntax of other engines
    r'"say \"hi\" \/ done"',  # escaped double quote and solidus
    r'"[0-9]\\d+\\s*\\w\\b\\A\\Z"',  # regexp character classes
    r""""}} %} #} { { & < > ' ` ~ | ^" """.strip(),  # closing Jinja delimiters, HTML specials
    r'"plain text"',
    r'"trailing backslash \\"',
    '"ração ☃ é"',  # non-ASCII characters written directly (UTF-8 in the file)
    r'"\\\\server\\share\\new\\table"',  # UNC path (backslash-backslash-server-backslash-share ...)
    r'"\\u00e9 is no escape, a\\nb neither, \\t \\x41 \\N{DASH}"',  # a backslash followed by a letter, as text
    r'"{\"query\": {\"regexp\": {\"path\": \"\\\\/var\\\\/log\\\\/.*\\\\.log\"}}}"',  # JSON inside a JSON string
]
WEIRD_TEXT = [-99]  # a loaded value that is not a string


def text_bytes(v):
    """str -> the sequence of its UTF-8 bytes (what TLC compares)"""
    if not isinstance(v, str):
        return list(WEIRD_TEXT)
    return list(v.encode("utf-8", errors="surrogatepass"))


def written_text(lit):
    """what the file says: the JSON string literal decoded by the json module"""
    v = json.loads(lit)
    if not isinstance(v, str) or "{{" in lit or "{%" in lit or "{#" in lit:
        raise tlc.MachineryError("trackgen: %r is not a JSON string literal free of Jinja opening delimiters" % lit)
    return text_bytes(v)


def texts_for_trace(txt):
    """txt (literals) -> the record TLC sees (bytes)"""
    txt = txt or {"ops": [], "tasks": []}
    return {
        "ops": [{"i": x["i"], "w": written_text(x["lit"])} for x in txt["ops"]],
        "tasks": [{"c": x["c"], "e": x["e"], "i": x["i"], "w": written_text(x["lit"])} for x in txt["tasks"]],
    }


# ---------------------------------------------------------------------------------------------------
# TLC state -> F
# ---------------------------------------------------------------------------------------------------
_CONJ = re.compile(r"^/\\ ([A-Za-z_][A-Za-z0-9_]*) = ", re.M)
_FIELD = re.compile(r"([A-Za-z_][A-Za-z0-9_]*) \|->")
_SAFE = re.compile(r'^[\sA-Za-z0-9_",:\[\]{}\-]*$')
_SIM_STATE = re.compile(r"^STATE_(\d+) ==\s*$", re.M)


def _value(txt):
    """TLA+ value text (records, sequences, sets, integers, booleans, plain-word strings) -> JSON text -> Python.
    Records become dicts, sequences and sets lists (sets in TLC's normalised order)."""
    txt = txt.replace("{", "\x01").replace("}", "\x02").replace("[", "{").replace("]", "}")
    txt = txt.replace("\x01", "[").replace("\x02", "]").replace("<<", "[").replace(">>", "]")
    txt = _FIELD.sub(r'"\1":', txt)
    txt = re.sub(r"\bTRUE\b", "true", re.sub(r"\bFALSE\b", "false", txt))
    if not _SAFE.match(txt):
        raise tlc.MachineryError("trackgen: unexpected characters in TLC value: %r" % txt[:160])
    return json.loads(txt)


def parse_state(text):
    text = text.strip()
    ms = list(_CONJ.finditer(text))
    if not ms:
        raise tlc.MachineryError("trackgen: no state in %r" % text[:80])
    st = {}
    for i, m in enumerate(ms):
        end = ms[i + 1].start() if i + 1 < len(ms) else len(text)
        st[m.group(1)] = _value(text[m.end() : end])
    return st


def _crosscheck(text, st):
    """the general (slow) parser of the harness must agree"""
    from .tlaparse import parse_state as slow
    from .tlaparse import to_json

    def norm(v):
        if isinstance(v, dict):
            return {k: norm(x) for k, x in v.items()}
        if isinstance(v, (list, tuple, set, frozenset)):
            return sorted((norm(x) for x in v), key=lambda x: json.dumps(x, sort_keys=True))
        return v

    # tlaparse freezes records inside sets into sorted (key, value) pairs
    mine = dict(st, f=dict(st["f"], **{k: [sorted([kk, vv] for kk, vv in x.items()) for x in st["f"][k]] for k in ("supN", "supS")}))
    a = norm(mine)
    b = norm(to_json(slow(text)))
    if a != b:
        raise tlc.MachineryError("trackgen state reader disagrees with tlaparse on %r" % text[:200])


_LABEL = re.compile(r'^/\\ violated = "([A-Za-z0-9]+)"', re.M)


def _dump_texts(path):
    with open(path, "r", encoding="utf-8") as fh:
        buf = []
        for line in fh:
            if line.startswith("State ") and line.rstrip().endswith(":"):
                if buf:
                    yield "".join(buf)
                buf = []
            else:
                buf.append(line)
        text = "".join(buf)
        if text.strip():
            yield text


def _plain(text):
    """a state without supplied parameters, included parts, corpora, parallel elements and macro uses"""
    return "supN |-> {}" in text and "supS |-> {}" in text and "parts |-> {}" in text and "corpora |-> <<>>" in text and "par |-> TRUE" not in text and 'p |-> "x' not in text


def sample_dump(path, quotas, default_quota, seed, crosscheck=5, keep_special=("none",)):
    """Two streaming passes over a TLC -dump file. Pass 1 counts the states per verdict label (variable `violated`);
    pass 2 parses the states selected by a hash of their text (TLC prints a state identically whatever the exploration
    order), with probability quota/count per label. Returns (selected states sorted canonically, counts per label, #states)."""
    counts = {}
    plain = {}
    n = 0
    for text in _dump_texts(path):
        m = _LABEL.search(text)
        if not m:
            raise tlc.MachineryError("trackgen: state without verdict label: %r" % text[:120])
        counts[m.group(1)] = counts.get(m.group(1), 0) + 1
        if m.group(1) in keep_special and _plain(text):
            plain[m.group(1)] = plain.get(m.group(1), 0) + 1
        n += 1
    picked = []
    k = 0
    for text in _dump_texts(path):
        label = _LABEL.search(text).group(1)
        quota = quotas.get(label, default_quota)
        total = counts[label]
        if label in keep_special:
            # valid files with parameters / parts / corpora / parallel elements / macros are always replayed, the quota
            # applies to the plain rest
            if not _plain(text):
                quota = total
            else:
                total = plain.get(label, 0)
        if total > quota:
            h = int(hashlib.sha1(("%d|" % seed).encode() + " ".join(text.split()).encode()).hexdigest()[:12], 16)
            if (h % 1000000) >= 1000000.0 * quota / total:
                continue
        st = parse_state(text)
        if k < crosscheck:
            _crosscheck(text, st)
        k += 1
        picked.append(st)
    picked.sort(key=lambda st: (st["violated"], json.dumps(st["f"], sort_keys=True)))
    return picked, counts, n


def last_simulation_state(path, crosscheck=False):
    with open(path, "r", encoding="utf-8") as fh:
        text = fh.read()
    ms = list(_SIM_STATE.finditer(text))
    if not ms:
        return None
    body = text[ms[-1].end() :]
    body = "\n".join(ln for ln in body.splitlines() if not ln.startswith("\\*") and not ln.startswith("===="))
    st = parse_state(body)
    if crosscheck:
        _crosscheck(body, st)
    return st


def from_state(f):
    for k in ("chals", "ops", "corpora", "indices", "streams", "supN", "supS", "parts", "refs"):
        if not isinstance(f[k], list):
            raise tlc.MachineryError("trackgen: unexpected value for %s in TLC state: %r" % (k, f[k]))
    return f


# ---------------------------------------------------------------------------------------------------
# F -> files
# ---------------------------------------------------------------------------------------------------
class Raw(str):
    """Template text that is emitted verbatim (Jinja expressions)."""


def _num(val):
    if val["p"]:
        return Raw("{{ %s | default(%d) }}" % (val["p"], val["v"]))
    return val["v"]


def _is_set(val):
    return val != NOVAL


class _Ser:
    def __init__(self, rnd, shuffle):
        self.rnd = rnd
        self.shuffle = shuffle

    def dump(self, o, ind=0):
        pad = " " * ind
        if isinstance(o, Raw):
            return str(o)
        if isinstance(o, dict):
            keys = list(o.keys())
            if self.shuffle:
                self.rnd.shuffle(keys)
            tail = None
            if "__raw_tail__" in keys:
                # template text after the last entry, not preceded by a comma (the helper macro writes its own)
                keys.remove("__raw_tail__")
                tail = str(o["__raw_tail__"])
            if not keys and tail is None:
                return "{}"
            body = ",\n".join("%s  %s: %s" % (pad, json.dumps(k), self.dump(o[k], ind + 2)) for k in keys)
            if tail is not None:
                body += ("\n" if body else "") + pad + "  " + tail
            return "{\n" + body + "\n" + pad + "}"
        if isinstance(o, list):
            if not o:
                return "[]"
            return "[\n" + ",\n".join(pad + "  " + self.dump(x, ind + 2) for x in o) + "\n" + pad + "]"
        return json.dumps(o)

    def items(self, lst, ind=0):
        """comma separated items without the enclosing brackets (content of an included part)"""
        return ",\n".join(self.dump(x, ind) for x in lst)


def _macro(op_obj, x):
    """{{ rally.exists_set_param(...) }} in an operation object: with comma=True after the last entry of the operation,
    with comma=False as the only entry of its "body" object (so that the file is valid JSON whether or not the setting is emitted)"""
    if not x["p"]:
        return
    args = '"%s", %s' % (XSETTING, x["p"])
    if x["d"] != ABS:
        args += ", default_value=%d" % x["d"]
    if x["comma"]:
        op_obj["__raw_tail__"] = Raw("{{ rally.exists_set_param(%s) }}" % args)
    else:
        op_obj["body"] = {"__raw_tail__": Raw("{{ rally.exists_set_param(%s, comma=False) }}" % args)}


def uses_macro(F):
    return any(o["xp"]["p"] for o in F["ops"]) or any(t["xp"]["p"] for ch in F["chals"] for el in ch["sched"] for t in el["tasks"])


def _task_obj(t, d, pos, style):
    o = {}
    if t["opk"] == "str":
        o["operation"] = _real(t["op"])
    else:
        op = {"operation-type": t["type"]}
        if t["op"]:
            op["name"] = _real(t["op"])
        if _is_set(t["bulk"]):
            op["bulk-size"] = _num(t["bulk"])
        lit = style.get("_txt_tasks", {}).get(pos)
        if lit is not None:
            op[TEXT_KEY] = Raw(lit)
        _macro(op, t["xp"])
        if d["k"] == "inlNoType" and pos == (d["c"], d["e"], d["t"]):
            del op["operation-type"]
        o["operation"] = op
    n = t["name"]
    if n != NOSTR:
        rv = _real(n["v"])
        # the default is a Jinja string literal inside a JSON string
        o["name"] = Raw('"{{ %s | default(%s) }}"' % (n["p"], ('"%s"' if "'" in rv else "'%s'") % rv)) if n["p"] else rv
    for k in ("clients", "wi", "it", "wtp", "tp", "ru"):
        if _is_set(t[k]):
            o[KEY[k]] = _num(t[k])
    if _is_set(t["tput"]):
        v = _num(t["tput"])
        if t["unit"]:
            o["target-throughput"] = Raw('"%s %s/s"' % (v, t["unit"])) if isinstance(v, Raw) else "%d %s/s" % (v, t["unit"])
        else:
            o["target-throughput"] = v
    if t["tags"]:
        o["tags"] = _real(t["tags"][0]) if (len(t["tags"]) == 1 and style.get("tag_string")) else [_real(x) for x in t["tags"]]
    if pos == (d["c"], d["e"], d["t"]):
        if d["k"] == "clientsStr":
            o["clients"] = "2"
        elif d["k"] == "nameNum":
            o["name"] = 5
        elif d["k"] == "taskNoOp":
            del o["operation"]
    return o


def _el_obj(el, d, c, e, style):
    if not el["par"]:
        return _task_obj(el["tasks"][0], d, (c, e, 1), style)
    p = {}
    for k in EL_NUM:
        if _is_set(el[k]):
            p[KEY[k]] = _num(el[k])
    if el["cb"]:
        p["completed-by"] = _real(el["cb"])
    p["tasks"] = [_task_obj(t, d, (c, e, i + 1), style) for i, t in enumerate(el["tasks"])]
    if (d["c"], d["e"]) == (c, e) and d["t"] == 0:
        if d["k"] == "cbNum":
            p["completed-by"] = 3
        elif d["k"] == "capStr":
            p["clients"] = "2"
        elif d["k"] == "parNoTasks":
            del p["tasks"]
    return {"parallel": p}


def _sched(ch, d, c, style):
    if d["k"] == "emptySched" and d["c"] == c:
        return []
    return [_el_obj(el, d, c, e + 1, style) for e, el in enumerate(ch["sched"])]


def _chal_obj(ch, d, c, style, rnd):
    o = {"name": _real(ch["name"]), "schedule": _sched(ch, d, c, style)}
    if style.get("descriptions") and rnd.random() < 0.5:
        o["description"] = "challenge %d" % c
    if ch["dflt"] != "abs":
        o["default"] = ch["dflt"] == "true"
    if d["c"] == c and d["e"] == 0:
        if d["k"] == "defaultStr":
            o["default"] = "true"
        elif d["k"] == "chalNoName":
            del o["name"]
        elif d["k"] == "chalNoSched":
            del o["schedule"]
    return o


def doc_file_name(doc):
    return doc["base"] + ".json" + ("." + doc["ext"] if doc["ext"] else "")


def _collect(pattern, style):
    if style.get("collect") == "single":
        # single quotes: not recognised by the loader's textual pre-pass, the Jinja macro of rally.helpers includes the part
        return Raw("{{ rally.collect(parts='%s') }}" % pattern)
    return Raw('{{rally.collect(parts="%s")}}' % pattern) if style.get("collect") == "tight" else Raw('{{ rally.collect(parts="%s") }}' % pattern)


DEFAULT_STYLE = {"shuffle": False, "collect": "spaced", "version": True, "tag_string": False, "descriptions": False, "split_ops": False, "seed": 0}


def render(F, root, style=None, txt=None):
    """Writes the track directory for F below root (which is emptied first). Returns the list of files written.
    txt: texts written as the parameter TEXT_KEY of operations (see TEXT_POOL)."""
    import random

    style = dict(DEFAULT_STYLE, **(style or {}))
    txt = txt or {"ops": [], "tasks": []}
    style["_txt_tasks"] = {(x["c"], x["e"], x["i"]): x["lit"] for x in txt["tasks"]}
    txt_ops = {x["i"]: x["lit"] for x in txt["ops"]}
    rnd = random.Random(style["seed"])
    ser = _Ser(rnd, style["shuffle"])
    # keep the directories (removing them is slow on the scratch file system), remove stale files
    for sub in ("", "operations", "challenges", "corpora", "operations/more", "challenges/schedules", "corpora/docs", "side"):
        dpath = os.path.join(root, sub)
        if os.path.isdir(dpath):
            for fn in os.listdir(dpath):
                if fn.endswith(".json") or fn == "macros.j2":
                    os.unlink(os.path.join(dpath, fn))
        else:
            os.makedirs(dpath)
    d = F["defect"]
    files = {}
    top = {}
    if style["version"]:
        top["version"] = 2
    if style["descriptions"]:
        top["description"] = "generated by the C10 check <&> 'quoted' \"too\""
    if F["refs"]:
        # references to Rally's own template variables (inside a string: their values are not JSON numbers)
        top["description"] = Raw('"refers to %s"' % " ".join("{{ %s }}" % q for q in F["refs"]))
    if F["indices"]:
        top["indices"] = [{"name": n} for n in F["indices"]]
        if _is_set(F["ibody"]):
            # the first index has a body FILE; its Jinja variables are registered only while the track object is built
            top["indices"][0]["body"] = "side/index-body.json"
            files["side/index-body.json"] = ser.dump({"settings": {"index.number_of_shards": _num(F["ibody"]), "index.codec": "best_compression"}})
    if F["tkind"]:
        tpl = {"name": "tpl1", "template": "side/template.json"}
        if F["tkind"] != "component":
            tpl["index-pattern"] = "logs-*"
        top[TPL_SECTION[F["tkind"]]] = [tpl]
        files["side/template.json"] = ser.dump({"template": {"settings": {"number_of_replicas": _num(F["tbody"])}}})
    if F["streams"]:
        top["data-streams"] = [{"name": n} for n in F["streams"]]
    # corpora
    if F["corpora"]:
        cs = []
        for ki, k in enumerate(F["corpora"]):
            docs = []
            for di, doc in enumerate(k["docs"]):
                o = {"source-file": doc_file_name(doc), "document-count": _num(doc["count"])}
                if doc["tidx"]:
                    o["target-index"] = doc["tidx"]
                if doc["burl"]:
                    o["base-url"] = _real(doc["burl"])
                if doc["tds"]:
                    o["target-data-stream"] = doc["tds"]
                if doc["iaamd"] != "abs":
                    o["includes-action-and-meta-data"] = doc["iaamd"] == "true"
                if (d["c"], d["e"]) == (ki + 1, di + 1):
                    if d["k"] == "docNoFile":
                        del o["source-file"]
                    elif d["k"] == "docNoCount":
                        del o["document-count"]
                    elif d["k"] == "countStr":
                        o["document-count"] = "10"
                docs.append(o)
            co = {"name": _real(k["name"]), "documents": docs}
            if k["burl"]:
                co["base-url"] = _real(k["burl"])
            if k["tidx"]:
                co["target-index"] = k["tidx"]
            if k["tds"]:
                co["target-data-stream"] = k["tds"]
            if k["iaamd"] != "abs":
                co["includes-action-and-meta-data"] = k["iaamd"] == "true"
            if "corpora" in F["parts"] and "docs" in F["parts"]:
                # second-level part: the pattern is relative to the directory of corpora/default.json
                files["corpora/docs/k%d.json" % (ki + 1)] = ser.items(docs)
                co["documents"] = [_collect("docs/k%d.json" % (ki + 1), style)]
            if d["k"] == "corpusNoDocs" and d["c"] == ki + 1:
                del co["documents"]
            cs.append(co)
        if "corpora" in F["parts"]:
            files["corpora/default.json"] = ser.items(cs)
            top["corpora"] = [_collect("corpora/*.json", style)]
        else:
            top["corpora"] = cs
    # operations
    if F["ops"]:
        os_ = []
        for oi, op in enumerate(F["ops"]):
            o = {"name": _real(op["name"]), "operation-type": op["type"]}
            if _is_set(op["bulk"]):
                o["bulk-size"] = _num(op["bulk"])
            if oi + 1 in txt_ops:
                o[TEXT_KEY] = Raw(txt_ops[oi + 1])
            _macro(o, op["xp"])
            if oi == 0 and _is_set(F["mac"]):
                # a value written by a macro of an imported macro file
                o["macro-setting"] = Raw("{{ m.val() }}")
                files["macros.j2"] = "{%% macro val() -%%}%s{%%- endmacro %%}\n" % _num(F["mac"])
            if d["c"] == oi + 1:
                if d["k"] == "opNoName":
                    del o["name"]
                elif d["k"] == "opNoType":
                    del o["operation-type"]
            os_.append(o)
        if "ops" in F["parts"] and "opsN" in F["parts"]:
            # second-level part below operations/: the first-level part keeps the first operation (if there are several)
            # and pulls in the others with a pattern relative to ITS directory
            keep = os_[:1] if len(os_) > 1 else []
            files["operations/more/default.json"] = ser.items(os_[len(keep) :])
            files["operations/default.json"] = ser.items(keep + [_collect("more/*.json", style)])
            top["operations"] = [_collect("operations/*.json", style)]
        elif "ops" in F["parts"]:
            if style["split_ops"] and len(os_) > 1:
                files["operations/a.json"] = ser.items(os_[:1])
                files["operations/b.json"] = ser.items(os_[1:])
            else:
                files["operations/default.json"] = ser.items(os_)
            top["operations"] = [_collect("operations/*.json", style)]
        else:
            top["operations"] = os_
    # challenges
    if d["k"] != "noChallenges":
        if F["form"] == "schedule":
            top["schedule"] = _sched(F["chals"][0], d, 1, style)
        elif F["form"] == "challenge":
            top["challenge"] = _chal_obj(F["chals"][0], d, 1, style, rnd)
        else:
            chs = [_chal_obj(ch, d, c + 1, style, rnd) for c, ch in enumerate(F["chals"])]
            if "chals" in F["parts"] and "sched" in F["parts"]:
                # second-level parts: every non-empty schedule lives in challenges/schedules/, included relative to challenges/
                for c, o in enumerate(chs):
                    if o.get("schedule"):
                        files["challenges/schedules/c%d.json" % (c + 1)] = ser.items(o["schedule"])
                        o["schedule"] = [_collect("schedules/c%d.json" % (c + 1), style)]
            if "chals" in F["parts"]:
                files["challenges/default.json"] = ser.items(chs)
                top["challenges"] = [_collect("challenges/*.json", style)]
            else:
                top["challenges"] = chs
    text = ser.dump(top)
    if F["ops"] and _is_set(F["mac"]):
        text = '{% import "macros.j2" as m %}\n' + text
    if F["parts"] or uses_macro(F):
        text = '{% import "rally.helpers" as rally with context %}\n' + text
    files["track.json"] = text + "\n"
    for rel, content in files.items():
        p = os.path.join(root, rel)
        os.makedirs(os.path.dirname(p), exist_ok=True)
        with open(p, "w", encoding="utf-8") as fh:
            fh.write(content)
    return files


def supplied_params(F):
    params = {}
    for s in F["supN"]:
        params[s["p"]] = XCODES.get(s["v"], s["v"])
    for s in F["supS"]:
        params[s["p"]] = _real(s["v"])
    return params


# ---------------------------------------------------------------------------------------------------
# the real loader
# ---------------------------------------------------------------------------------------------------
_ready = False


def _prepare():
    """One-time process set-up: quiet console / logging, rendered-track temp files below the scratch directory, and the
    self-check of the (constant) JSON schema done once per distinct schema instead of on every validate call."""
    global _ready
    if _ready:
        return
    import jsonschema

    from esrally.utils import console

    console.init(quiet=True)
    logging.getLogger("esrally").addHandler(logging.NullHandler())
    logging.getLogger("esrally").propagate = False
    tempfile.tempdir = tlc.scratch("c10tmp")
    seen = set()
    for name in ("Draft3Validator", "Draft4Validator", "Draft6Validator", "Draft7Validator"):
        cls = getattr(jsonschema, name, None)
        if cls is None:
            continue
        orig = cls.check_schema

        def cached(schema, *a, _orig=orig, _name=name, **k):
            key = _name + json.dumps(schema, sort_keys=True)
            if key not in seen:
                _orig(schema, *a, **k)
                seen.add(key)

        cls.check_schema = staticmethod(cached)
    _ready = True


def _cfg(root, F, sel):
    from esrally import config

    cfg = config.Config()
    S = config.Scope.application
    cfg.add(S, "node", "rally.root", os.path.join(os.environ.get("VERIF_REPO", "/repo"), "esrally"))
    cfg.add(S, "system", "offline.mode", True)
    cfg.add(S, "track", "params", supplied_params(F))
    cfg.add(S, "track", "track.path", root)
    if sel:
        cfg.add(S, "track", "challenge.name", sel)
    return cfg


def load(root, F, sel="", via="read"):
    """Loads the rendered track with the real loader. Returns the outcome record for the trace."""
    _prepare()
    from esrally import exceptions
    from esrally.track import loader

    cfg = _cfg(root, F, sel)
    try:
        if via == "load_track":
            t = loader.load_track(cfg)
        else:
            t = loader.TrackFileReader(cfg).read(os.path.basename(root), os.path.join(root, "track.json"), root)
    except exceptions.InvalidSyntax as ex:
        return _rejected("syntax", ex)
    except (exceptions.TrackConfigError, exceptions.ConfigError) as ex:
        return _rejected("config", ex)
    except exceptions.RallyError as ex:
        return _rejected("rally-" + type(ex).__name__, ex)
    except Exception as ex:  # pylint: disable=broad-except
        return _rejected("crash-" + type(ex).__name__, ex)
    finally:
        _clean_tmp()
    core, extra = project(t)
    return {"ok": True, "kind": "", "core": core, "extra": extra, "txt": project_text(t), "err": ""}


def _rejected(kind, ex):
    return {"ok": False, "kind": kind, "core": [], "extra": [], "txt": [], "err": ("%s: %s" % (type(ex).__name__, ex))[:300]}


def project_text(t):
    """[{c, e, i, w}]: for every task (challenge c, schedule element e, task i of the element) of the loaded Track whose
    operation carries the parameter TEXT_KEY, the UTF-8 bytes of its value"""
    from esrally.track import track

    res = []
    for c, ch in enumerate(t.challenges):
        for e, el in enumerate(ch.schedule):
            tasks = el.tasks if isinstance(el, track.Parallel) else [el]
            for i, task in enumerate(tasks):
                params = task.operation.params
                if isinstance(params, dict) and TEXT_KEY in params:
                    res.append({"c": c + 1, "e": e + 1, "i": i + 1, "w": text_bytes(params[TEXT_KEY])})
    return res


def _clean_tmp():
    # TrackFileReader.read leaves one rendered copy per call behind (NamedTemporaryFile(delete=False))
    d = tempfile.tempdir
    if d and os.path.isdir(d):
        for fn in os.listdir(d):
            if fn.endswith(".json"):
                try:
                    os.unlink(os.path.join(d, fn))
                except OSError:
                    pass


def _i(v):
    if v is None:
        return ABS
    if isinstance(v, bool) or not isinstance(v, int) or not 0 <= v < 2**31:
        return -99
    return v


def _s(v):
    if v is None:
        return ""
    if not isinstance(v, str):
        return "weird:%r" % (v,)
    return MODEL.get(v, v)


def _x(v):
    """value of the macro-written setting: int, or the code of false / "" / true, Abs if the setting is absent"""
    if v is None:
        return -99
    for code, val in XCODES.items():
        if type(v) is type(val) and v == val:
            return code
    return _i(v)


def _proj_task(t):
    op = t.operation
    try:
        tt = t.target_throughput
    except Exception:  # pylint: disable=broad-except
        tt = "invalid"
    if tt is None:
        tput, unit = ABS, ""
    elif tt == "invalid" or not isinstance(tt.value, float) or tt.value != int(tt.value):
        tput, unit = -99, "weird"
    else:
        tput = _i(int(tt.value))
        unit = tt.unit[:-2] if isinstance(tt.unit, str) and tt.unit.endswith("/s") else "weird:%r" % (tt.unit,)
    tags = t.tags
    core = {
        "name": _s(t.name),
        "op": {"name": _s(op.name), "type": _s(op.type), "bulk": _i(op.params.get("bulk-size") if isinstance(op.params, dict) else -99),
               "xm": _i(op.params.get("macro-setting")),
               "xs": _x(op.params[XSETTING]) if XSETTING in op.params else ABS,
               "xb": _x(op.params["body"][XSETTING]) if isinstance(op.params.get("body"), dict) and XSETTING in op.params["body"] else ABS},
        "clients": _i(t.clients),
        "wi": _i(t.warmup_iterations),
        "it": _i(t.iterations),
        "wtp": _i(t.warmup_time_period),
        "tp": _i(t.time_period),
        "ru": _i(t.ramp_up_time_period),
        "cp": t.completes_parent is True,
        "acp": t.any_completes_parent is True,
        "tput": tput,
        "unit": unit,
        "tags": [_s(x) for x in tags] if isinstance(tags, list) else ["weird:%r" % (tags,)],
    }
    return core, op.include_in_reporting is True


def project(t):
    """Track object -> (core, extra) in the record format of Expected / ExtraR of TrackModel.tla."""
    from esrally.track import track

    chals, extra = [], []
    for c in t.challenges:
        sched, incl = [], []
        for el in c.schedule:
            if isinstance(el, track.Parallel):
                pt = [_proj_task(x) for x in el.tasks]
                sched.append({"par": True, "clients": _i(el.clients), "tasks": [p[0] for p in pt]})
                incl.append([p[1] for p in pt])
            else:
                p = _proj_task(el)
                sched.append({"par": False, "clients": _i(el.clients), "tasks": [p[0]]})
                incl.append([p[1]])
        chals.append({"name": _s(c.name), "dflt": bool(c.default), "sched": sched})
        extra.append({"auto": c.auto_generated is True, "sel": c.selected is True, "incl": incl})
    corpora = []
    for k in t.corpora:
        docs = []
        for doc in k.documents:
            fn = _s(doc.document_file)
            base = fn[:-5] if fn.endswith(".json") else "weird:" + fn
            if doc.document_archive is None:
                arch = ""
            elif isinstance(doc.document_archive, str) and doc.document_archive.startswith(fn + "."):
                arch = doc.document_archive[len(fn) + 1 :]
            else:
                arch = "weird:%r" % (doc.document_archive,)
            docs.append(
                {
                    "file": base,
                    "arch": arch,
                    "count": _i(doc.number_of_documents),
                    "iaamd": doc.includes_action_and_meta_data is True,
                    "burl": _s(doc.base_url),
                    "tidx": _s(doc.target_index),
                    "tds": _s(doc.target_data_stream),
                }
            )
        corpora.append({"name": _s(k.name), "docs": docs})
    core = {"chals": chals, "corpora": corpora, "indices": [_s(i.name) for i in t.indices], "streams": [_s(d.name) for d in t.data_streams]}
    # index body file of the first index, template file of the (only) template section
    body = t.indices[0].body if t.indices else None
    core["ishards"] = ABS if not body else _i(_dig(body, "settings", "index.number_of_shards"))  # no body file: {}
    kinds = [(k, lst) for k, lst in (("composable", t.composable_templates), ("component", t.component_templates), ("templates", t.templates)) if lst]
    if not kinds:
        core["tkind"], core["treplicas"] = "", ABS
    elif len(kinds) > 1 or len(kinds[0][1]) != 1:
        core["tkind"], core["treplicas"] = "weird:several", -99
    else:
        core["tkind"] = kinds[0][0]
        core["treplicas"] = _i(_dig(kinds[0][1][0].content, "template", "settings", "number_of_replicas"))
    return core, extra


def _dig(o, *path):
    for k in path:
        if not isinstance(o, dict) or k not in o:
            return "missing"
        o = o[k]
    return o


def optype_table():
    """The real operation-type registry as a table for TLC: hyphenated name, round trip, admin flag."""
    from esrally.track import track

    rows = []
    for m in track.OperationType:
        h = m.to_hyphenated_string()
        try:
            back = track.OperationType.from_hyphenated_string(h).name
        except KeyError:
            back = "KeyError"
        rows.append({"member": m.name, "hyph": h, "back": back, "admin": m.admin_op is True})
    return rows


# ---------------------------------------------------------------------------------------------------
# seeded random abstract files (not derived from TLC), much wider alphabets
# ---------------------------------------------------------------------------------------------------
NAMES = ["n1", "n2", "n3", "index-append", "search-all", "any"]
CNAMES = ["c1", "c2", "append-only", "default"]
CUSTOM_TYPES = ["my-op", "n1", "percolate"]
NPARAMS = ["p1", "p2", "bulk_size", "clients_n"]
SPARAMS = ["q1", "q2"]


def _val(rnd, values, params, pprob=0.2):
    v = rnd.choice(values)
    if params and v > 0 and rnd.random() < pprob:
        return {"v": v, "p": rnd.choice(params)}
    return {"v": v, "p": ""}


XPARAMS = ["x1", "x2", "use_cache"]


def _rand_x(rnd):
    return {"p": rnd.choice(XPARAMS), "d": rnd.choice([ABS, ABS, 0, 5, 30]), "comma": rnd.random() < 0.6}


def _rand_task(rnd, types, opnames, mode, par_mode, noisy):
    t = {"name": dict(NOSTR), "opk": "str", "op": "", "type": "", "unit": "", "tags": [], "xp": dict(NOX)}
    for k in TASK_NUM:
        t[k] = dict(NOVAL)
    r = rnd.random()
    if r < 0.4 and opnames:
        t["op"] = rnd.choice(opnames)
    elif r < 0.6:
        t["op"] = rnd.choice(types + NAMES[:3])
    else:
        t["opk"] = "inl"
        t["type"] = rnd.choice(types)
        t["op"] = rnd.choice(["", ""] + NAMES)
        if rnd.random() < 0.3:
            t["bulk"] = _val(rnd, [1, 500, 5000, 100000], NPARAMS)
        if rnd.random() < 0.2:
            t["xp"] = _rand_x(rnd)
    if rnd.random() < 0.5:
        t["name"] = {"v": rnd.choice(NAMES + ["t%d" % rnd.randint(1, 9)]), "p": rnd.choice(SPARAMS) if rnd.random() < 0.15 else ""}
    if rnd.random() < 0.5:
        t["clients"] = _val(rnd, [1, 2, 3, 8, 64, 1000], NPARAMS)
    # timing: consistent with the mode most of the time
    m = mode if rnd.random() > noisy else rnd.choice(["iter", "time", "mixed"])
    if par_mode is not None and rnd.random() < 0.6:
        m = "inherit"
    if m in ("iter", "mixed"):
        if rnd.random() < 0.6:
            t["wi"] = _val(rnd, [0, 1, 50, 1000], NPARAMS)
        if rnd.random() < 0.8:
            t["it"] = _val(rnd, [1, 5, 100, 100000], NPARAMS)
    if m in ("time", "mixed"):
        if rnd.random() < 0.7:
            t["wtp"] = _val(rnd, [0, 10, 120, 480], NPARAMS)
        if rnd.random() < 0.7:
            t["tp"] = _val(rnd, [1, 30, 3600, 1000000], NPARAMS)
        if rnd.random() < 0.2 and par_mode is None:
            t["ru"] = _val(rnd, [0, 10, 120, 600], NPARAMS)
    if rnd.random() < 0.3:
        t["tput"] = _val(rnd, [1, 5, 50, 2000], NPARAMS)
        t["unit"] = rnd.choice(["", "", "docs", "ops", "pages"])
    if rnd.random() < 0.3:
        t["tags"] = rnd.sample(["setup", "a", "b", "index"], rnd.randint(1, 3))
    return t


def random_file(rnd, types):
    """A random abstract file; mostly valid structure, then with probability 1/2 one random small mutation."""
    noisy = rnd.choice([0.0, 0.0, 0.1, 0.3])
    F = {"form": rnd.choice(["schedule", "challenge", "challenges", "challenges"]), "chals": [], "ops": [], "corpora": [], "indices": [], "streams": [], "supN": [], "supS": [], "parts": [], "refs": [], "tight": False, "squote": False, "mac": dict(NOVAL), "defect": dict(NODEFECT), "ibody": dict(NOVAL), "tkind": "", "tbody": dict(NOVAL)}
    opnames = []
    for _ in range(rnd.choice([0, 1, 2, 3])):
        name = rnd.choice(NAMES[:5]) if rnd.random() < noisy else "op%d" % (len(opnames) + 1)
        F["ops"].append({"name": name, "type": rnd.choice(types), "bulk": _val(rnd, [-1, -1, 100, 5000], NPARAMS) if rnd.random() < 0.5 else dict(NOVAL), "xp": _rand_x(rnd) if rnd.random() < 0.35 else dict(NOX)})
        opnames.append(name)
    for o in F["ops"]:
        if o["bulk"]["v"] == -1:
            o["bulk"] = dict(NOVAL)
    # 0 / 1 / 2 indices or 1 / 2 data streams x target on the document set / on the corpus / nowhere x action-and-meta-data
    target = rnd.choice(["none", "index", "index", "indices", "indices", "stream", "streams"])
    if target == "index":
        F["indices"] = ["idx1"]
    elif target == "indices":
        F["indices"] = ["idx1", "idx2"]
    elif target == "stream":
        F["streams"] = ["ds1"]
    elif target == "streams":
        F["streams"] = ["ds1", "ds2"]
    if rnd.random() < noisy / 2:
        F["streams"] = F["streams"] + ["ds3"]
    # parameters that occur ONLY in an index body file / a template file are frequent in real tracks
    if F["indices"] and rnd.random() < 0.3:
        F["ibody"] = _val(rnd, [1, 3, 12], ["number_of_shards", "p1"], pprob=0.7)
    if rnd.random() < 0.25:
        F["tkind"] = rnd.choice(["composable", "component", "templates"])
        F["tbody"] = _val(rnd, [1, 2], ["number_of_replicas", "p2"], pprob=0.7)
    for ki in range(rnd.choice([0, 1, 1, 2])):
        ctidx, ctds, ciaamd = "", "", "abs"
        if F["indices"] and rnd.random() < 0.35:
            ctidx = rnd.choice(F["indices"] + ["idx9"])
        if F["streams"] and rnd.random() < 0.35:
            ctds = rnd.choice(F["streams"])
        if rnd.random() < 0.1:
            ciaamd = rnd.choice(["true", "false"])
        if rnd.random() < noisy / 2:
            ctidx = "idx1"  # possibly in a track without indices section
        if rnd.random() < noisy / 4:
            ctds = "ds1"
        docs = []
        for di in range(rnd.choice([1, 1, 2])):
            tidx, tds, iaamd = "", "", "abs"
            need = target == "none" or (target == "indices" and not ctidx) or (target == "streams" and not ctds)
            if rnd.random() < 0.12:
                iaamd = "true"
            elif need and rnd.random() >= max(noisy, 0.08):
                # the document set names its target itself (otherwise: nothing determines it)
                if target == "streams" or (target == "none" and rnd.random() < 0.3):
                    tds = rnd.choice(F["streams"] or ["ds1"])
                else:
                    tidx = rnd.choice(["idx1", "idx2"])
            elif not need and rnd.random() < 0.3:
                if F["streams"]:
                    tds = rnd.choice(F["streams"] + ["ds9"])
                else:
                    tidx = rnd.choice(["idx1", "idx2"])
            if rnd.random() < noisy / 3:
                # a target of the other kind
                if F["streams"]:
                    tidx = "idx1"
                else:
                    tds = "ds1"
            if iaamd == "abs" and rnd.random() < 0.05:
                iaamd = "false"
            docs.append({"base": "docs%d%d" % (ki, di), "ext": rnd.choice(["", "bz2", "gz"]), "count": _val(rnd, [1, 1000, 2000000000], NPARAMS), "tidx": tidx, "tds": tds, "iaamd": iaamd, "burl": rnd.choice(["u1", "u2"]) if rnd.random() < 0.3 else ""})
        F["corpora"].append({"name": rnd.choice(["k1", "k2"]) if rnd.random() < noisy else "corpus%d" % ki, "tidx": ctidx, "tds": ctds, "iaamd": ciaamd, "burl": rnd.choice(["u1", "u2"]) if rnd.random() < 0.3 else "", "docs": docs})
    nch = 1 if F["form"] != "challenges" else rnd.choice([1, 2, 3])
    default_at = rnd.randrange(nch)
    for c in range(nch):
        ch = {"name": "" if F["form"] == "schedule" else (rnd.choice(CNAMES) if rnd.random() < noisy else "chal%d" % c), "dflt": "abs", "sched": []}
        if nch > 1:
            ch["dflt"] = "true" if c == default_at else rnd.choice(["abs", "false"])
            if rnd.random() < noisy / 2:
                ch["dflt"] = rnd.choice(["abs", "false", "true"])
        elif rnd.random() < 0.3 and F["form"] != "schedule":
            ch["dflt"] = rnd.choice(["true", "false"])
        used = set()
        for e in range(rnd.choice([1, 2, 3, 4])):
            mode = rnd.choice(["iter", "time", "none"])
            if rnd.random() < 0.35:
                el = {"par": True, "cb": "", "tasks": []}
                for k in EL_NUM:
                    el[k] = dict(NOVAL)
                pm = rnd.choice(["iter", "time", "none"])
                if pm == "iter":
                    if rnd.random() < 0.5:
                        el["wi"] = _val(rnd, [0, 50], NPARAMS)
                    el["it"] = _val(rnd, [1, 100], NPARAMS)
                elif pm == "time":
                    el["wtp"] = _val(rnd, [0, 120, 600], NPARAMS)
                    if rnd.random() < 0.7:
                        el["tp"] = _val(rnd, [1, 3600], NPARAMS)
                    if rnd.random() < 0.4:
                        el["ru"] = _val(rnd, [0, 60, 120, 900], NPARAMS)
                if rnd.random() < 0.4:
                    el["cap"] = _val(rnd, [1, 2, 4, 100], NPARAMS)
                for _ in range(rnd.choice([1, 2, 3])):
                    el["tasks"].append(_rand_task(rnd, types, opnames, pm if pm != "none" else mode, pm, noisy))
            else:
                el = {"par": False, "cb": "", "tasks": [_rand_task(rnd, types, opnames, mode, None, noisy)]}
                for k in EL_NUM:
                    el[k] = dict(NOVAL)
            # make task names unique most of the time
            for t in el["tasks"]:
                if rnd.random() >= noisy:
                    nm = t["name"]["v"] or t["op"] or t["type"]
                    if nm in used or not t["name"]["v"]:
                        if nm in used or rnd.random() < 0.5:
                            t["name"] = {"v": "task%d" % (len(used) + 1), "p": t["name"]["p"]}
                    used.add(t["name"]["v"] or t["op"] or t["type"])
            if el["par"] and rnd.random() < 0.4:
                cands = [t["name"]["v"] for t in el["tasks"] if t["name"]["v"] and not t["name"]["p"]]
                el["cb"] = rnd.choice(cands + ["any"]) if cands and rnd.random() > noisy else rnd.choice(["any", "n3", "bulk"])
            ch["sched"].append(el)
        F["chals"].append(ch)
    # parameters: supply some of the used ones (and rarely others)
    usedp = sorted(_used_params(F))
    for p in usedp:
        if rnd.random() < 0.5:
            if p in XPARAMS:
                # falsy values as often as truthy ones
                F["supN"].append({"p": p, "v": rnd.choice([0, 0, -2, -2, -3, -4, 7, 300])})
            elif p in SPARAMS:
                F["supS"].append({"p": p, "v": rnd.choice(NAMES[:3] + ["sup-task"])})
            else:
                F["supN"].append({"p": p, "v": rnd.choice([1, 2, 7, 300, 86400])})
    if rnd.random() < noisy:
        F["supN"].append({"p": rnd.choice(["unused_one", "now", "glob", "build_flavor", "serverless_operator"]), "v": 3})
    for k, present, nested in (("ops", F["ops"], "opsN"), ("chals", F["form"] == "challenges", "sched"), ("corpora", F["corpora"], "docs")):
        if present and rnd.random() < 0.3:
            F["parts"].append(k)
            if rnd.random() < 0.5:
                F["parts"].append(nested)  # a fragment of that part in a second-level part (nested include)
    F["tight"] = bool(F["parts"]) and rnd.random() < 0.25
    helpers = uses_macro(F)
    if F["parts"] and not F["tight"] and not helpers and rnd.random() < 0.35:
        # single-quoted includes: only first-level parts, no helper macros inside
        F["squote"] = True
        F["parts"] = [k for k in F["parts"] if k in ("ops", "chals", "corpora")]
    if F["ops"] and not F["squote"] and rnd.random() < 0.25:
        F["mac"] = _val(rnd, [7, 4000], NPARAMS, pprob=0.8)
    if rnd.random() < 0.1:
        F["refs"] = rnd.sample(["now", "build_flavor", "serverless_operator"], rnd.randint(1, 2))
    if rnd.random() < 0.5:
        _mutate(rnd, F)
    return F


def _used_params(F):
    used = set()
    for ch in F["chals"]:
        for el in ch["sched"]:
            used.update(el[k]["p"] for k in EL_NUM)
            for t in el["tasks"]:
                used.update(t[k]["p"] for k in TASK_NUM)
                used.add(t["name"]["p"])
                used.add(t["xp"]["p"])
    used.update(o["bulk"]["p"] for o in F["ops"])
    used.update(o["xp"]["p"] for o in F["ops"])
    for k in F["corpora"]:
        used.update(d["count"]["p"] for d in k["docs"])
    used.update(F["refs"])
    if F["ops"]:
        used.add(F["mac"]["p"])
    if F["indices"]:
        used.add(F["ibody"]["p"])
    if F["tkind"]:
        used.add(F["tbody"]["p"])
    used.discard("")
    return used


def _mutate(rnd, F):
    """One small edit that often breaks exactly one rule (TLC decides what it broke)."""
    ch = rnd.choice(F["chals"])
    el = rnd.choice(ch["sched"])
    t = rnd.choice(el["tasks"])
    m = rnd.choice(["it", "tp", "wi", "wtp", "ru", "ru2", "dupname", "cb", "default", "nodefault", "streams", "unused", "reserved", "zero", "defect", "dupop", "dupcorpus", "dupchal", "elru"])
    if m in ("it", "tp", "wi", "wtp"):
        t[m] = {"v": rnd.choice([1, 10, 100]), "p": ""}
    elif m == "ru":
        t["ru"] = {"v": rnd.choice([0, 10, 1000]), "p": ""}
    elif m == "ru2":
        tgt = el if el["par"] else t
        tgt["ru"] = {"v": rnd.choice([5, 500]), "p": ""}
        tgt["wtp"] = {"v": rnd.choice([5, 100, 500]), "p": ""}
    elif m == "elru" and el["par"]:
        el["ru"] = {"v": 10, "p": ""}
        el["wtp"] = {"v": 20, "p": ""}
    elif m == "dupname":
        other = rnd.choice(rnd.choice(ch["sched"])["tasks"])
        if other is not t:
            t["name"] = {"v": other["name"]["v"] or other["op"] or other["type"], "p": ""}
    elif m == "cb" and el["par"]:
        el["cb"] = rnd.choice(["nope", "any", t["name"]["v"] or t["op"] or t["type"]])
    elif m == "default":
        ch["dflt"] = "true"
    elif m == "nodefault":
        for c in F["chals"]:
            c["dflt"] = rnd.choice(["abs", "false"])
    elif m == "streams":
        F["streams"] = ["ds1"]
    elif m == "unused":
        F["supN"].append({"p": "unused_param", "v": 1})
    elif m == "reserved":
        if not any(s["p"] in ("now", "glob", "build_flavor", "serverless_operator") for s in F["supN"]):
            q = rnd.choice(["now", "glob", "build_flavor", "serverless_operator"])
            F["supN"].append({"p": q, "v": 1})
            if rnd.random() < 0.6:
                F["refs"].append(q)
    elif m == "zero":
        t[rnd.choice(["clients", "it", "tp"])] = {"v": 0, "p": ""}
    elif m == "dupop" and F["ops"]:
        F["ops"].append(dict(rnd.choice(F["ops"]), type="search"))
    elif m == "dupcorpus" and F["corpora"]:
        F["corpora"].append(dict(F["corpora"][0], docs=[dict(F["corpora"][0]["docs"][0], base="other", ext="", count={"v": 5, "p": ""})]))
    elif m == "dupchal" and F["form"] == "challenges":
        F["chals"].append({"name": ch["name"], "dflt": "abs", "sched": [dict(el)]})
    elif m == "defect":
        c = rnd.randrange(len(F["chals"]))
        e = rnd.randrange(len(F["chals"][c]["sched"]))
        el2 = F["chals"][c]["sched"][e]
        i = rnd.randrange(len(el2["tasks"]))
        opts = [("clientsStr", c + 1, e + 1, i + 1), ("nameNum", c + 1, e + 1, i + 1), ("taskNoOp", c + 1, e + 1, i + 1), ("emptySched", c + 1, 0, 0), ("noChallenges", 0, 0, 0)]
        if el2["tasks"][i]["opk"] == "inl":
            opts.append(("inlNoType", c + 1, e + 1, i + 1))
        if el2["par"]:
            opts += [("cbNum", c + 1, e + 1, 0), ("capStr", c + 1, e + 1, 0), ("parNoTasks", c + 1, e + 1, 0)]
        if F["form"] != "schedule":
            opts += [("defaultStr", c + 1, 0, 0), ("chalNoName", c + 1, 0, 0), ("chalNoSched", c + 1, 0, 0)]
        if F["ops"]:
            oi = rnd.randrange(len(F["ops"])) + 1
            opts += [("opNoName", oi, 0, 0), ("opNoType", oi, 0, 0)]
        if F["corpora"]:
            ki = rnd.randrange(len(F["corpora"]))
            di = rnd.randrange(len(F["corpora"][ki]["docs"])) + 1
            opts += [("corpusNoDocs", ki + 1, 0, 0), ("docNoFile", ki + 1, di, 0), ("docNoCount", ki + 1, di, 0), ("countStr", ki + 1, di, 0)]
        k, c_, e_, t_ = rnd.choice(opts)
        F["defect"] = {"k": k, "c": c_, "e": e_, "t": t_}


def size(F):
    n = len(F["ops"]) + len(F["indices"]) + len(F["streams"]) + len(F["supN"]) + len(F["supS"]) + len(F["parts"]) + len(F["refs"]) + (F["defect"]["k"] != "none")
    n += sum(len(k["docs"]) + bool(k["tidx"]) + bool(k["tds"]) + (k["iaamd"] != "abs") for k in F["corpora"])
    n += (F["ibody"] != NOVAL) + bool(F["tkind"]) + (F["mac"] != NOVAL)
    n += sum(bool(k["burl"]) + sum(bool(d["burl"]) for d in k["docs"]) for k in F["corpora"])
    n += sum(bool(d["tds"]) + (d["iaamd"] != "abs") for k in F["corpora"] for d in k["docs"])
    for ch in F["chals"]:
        n += ch["dflt"] != "abs"
        for el in ch["sched"]:
            n += sum(1 for k in EL_NUM if el[k] != NOVAL) + bool(el["cb"])
            for t in el["tasks"]:
                n += 1 + sum(1 for k in TASK_NUM if t[k] != NOVAL) + (t["name"] != NOSTR) + bool(t["tags"]) + bool(t["xp"]["p"])
    return n - 1
