"""Run TLC / SANY and parse what the checks need from the output."""
import json
import os
import re
import shutil
import subprocess
import tempfile
import time

VERIF = os.path.dirname(os.path.dirname(os.path.abspath(__file__)))
SPECS = os.path.join(VERIF, "specs")
TLA_JAR = "/opt/veriftools/tla/tla2tools.jar"
CM_JAR = "/opt/veriftools/tla/CommunityModules-deps.jar"


class MachineryError(Exception):
    """Anything that is the fault of the verification machinery (exit code 2)."""


_scratch_root = None


def scratch_root():
    """Per-process scratch directory outside /repo and /verif, removed at exit."""
    global _scratch_root
    if _scratch_root is None:
        base = os.environ.get("VERIF_SCRATCH")
        if base:
            os.makedirs(base, exist_ok=True)
            _scratch_root = tempfile.mkdtemp(prefix="run.", dir=base)
        else:
            _scratch_root = tempfile.mkdtemp(prefix="verif.", dir="/var/tmp")
        import atexit

        atexit.register(lambda: shutil.rmtree(_scratch_root, ignore_errors=True))
    return _scratch_root


def remove_scratch():
    global _scratch_root
    if _scratch_root is not None:
        shutil.rmtree(_scratch_root, ignore_errors=True)
        _scratch_root = None


def scratch(name):
    d = os.path.join(scratch_root(), name)
    os.makedirs(d, exist_ok=True)
    return d


class TlcResult:
    def __init__(self):
        self.cmd = ""
        self.rc = None
        self.out = ""
        self.generated = 0
        self.distinct = 0
        self.depth = 0
        self.wall_s = 0.0
        self.invariant_violated = None  # name
        self.property_violated = None
        self.deadlock = False
        self.error = None  # other TLC error text
        self.counterexample = []  # list of (action_label, state_text)
        self.coverage = {}  # action name -> (count_distinct, count_total)
        self.printed = []  # PrintT lines (raw)
        self.ok = False

    def summary(self):
        return {
            "cmd": self.cmd,
            "generated": self.generated,
            "distinct": self.distinct,
            "depth": self.depth,
            "wall_s": round(self.wall_s, 2),
            "ok": self.ok,
        }


def _copy_spec_dir(module_dir, dest):
    for fn in os.listdir(module_dir):
        p = os.path.join(module_dir, fn)
        if os.path.isfile(p) and (fn.endswith(".tla") or fn.endswith(".cfg")):
            shutil.copy(p, os.path.join(dest, fn))


def prepare_workdir(module_dirs, name):
    """Copy the .tla/.cfg files of the given spec directories into a fresh scratch dir."""
    wd = tempfile.mkdtemp(prefix=name + ".", dir=scratch_root())
    if isinstance(module_dirs, str):
        module_dirs = [module_dirs]
    for d in module_dirs:
        if not os.path.isabs(d):
            d = os.path.join(SPECS, d)
        _copy_spec_dir(d, wd)
    return wd


def run_tlc(
    workdir,
    module,
    cfg,
    workers=None,
    timeout=600,
    coverage=False,
    dump=None,
    dump_dot=None,
    simulate=None,
    depth=None,
    seed=None,
    env=None,
    deque=False,
    extra=None,
    allow_violation=False,
    continue_=False,
    java_opts=None,
):
    """Run TLC in workdir on module (file name without .tla) with cfg (file name).

    simulate: dict(num=N, file=prefix or None). Raises MachineryError on timeouts / parse errors /
    TLC crashes. Invariant violations etc. are returned in the result (ok=False).
    """
    if workers is None:
        workers = min(16, os.cpu_count() or 1)
    meta = tempfile.mkdtemp(prefix="meta.", dir=workdir)
    # TLC creates an empty tlc-<n> directory under java.io.tmpdir per run: keep it inside the run's scratch directory
    cmd = ["java", "-XX:+UseParallelGC", "-Xss32m", "-Djava.io.tmpdir=" + meta]
    if java_opts:
        cmd += list(java_opts)
    if deque:
        cmd.append("-Dtlc2.tool.queue.IStateQueue=StateDeque")
    cmd += ["-cp", TLA_JAR + ":" + CM_JAR, "tlc2.TLC"]
    cmd += ["-workers", str(workers), "-metadir", meta, "-noGenerateSpecTE"]
    if coverage:
        cmd += ["-coverage", "1"]
    if dump:
        cmd += ["-dump", dump]
    if dump_dot:
        cmd += ["-dump", "dot,actionlabels", dump_dot]
    if simulate is not None:
        spec = "num=%d" % simulate["num"]
        if simulate.get("file"):
            spec = "file=%s,%s" % (simulate["file"], spec)
        cmd += ["-simulate", spec]
    if depth is not None:
        cmd += ["-depth", str(depth)]
    if seed is not None:
        cmd += ["-seed", str(seed)]
    if continue_:
        cmd += ["-continue"]
    if extra:
        cmd += list(extra)
    cmd += ["-config", cfg, module + ".tla"]
    e = dict(os.environ)
    e.pop("JAVA_TOOL_OPTIONS", None)
    if env:
        e.update(env)
    r = TlcResult()
    r.cmd = " ".join(cmd[cmd.index("tlc2.TLC") :])
    t0 = time.time()
    try:
        p = subprocess.run(cmd, cwd=workdir, env=e, stdout=subprocess.PIPE, stderr=subprocess.STDOUT, timeout=timeout)
    except subprocess.TimeoutExpired as ex:
        subprocess.run(["pkill", "-f", meta], check=False)
        raise MachineryError("TLC timeout after %ss: %s" % (timeout, r.cmd)) from ex
    finally:
        shutil.rmtree(meta, ignore_errors=True)
    r.wall_s = time.time() - t0
    r.rc = p.returncode
    r.out = p.stdout.decode("utf-8", "replace")
    _parse_output(r)
    if r.error and not allow_violation:
        raise MachineryError("TLC error in %s/%s: %s\n%s" % (module, cfg, r.error, r.out[-3000:]))
    return r


_RE_STATES = re.compile(r"(\d+) states generated, (\d+) distinct states found")
_RE_DEPTH = re.compile(r"The depth of the complete state graph search is (\d+)")
_RE_INV = re.compile(r"Error: Invariant (\S+) is violated")
_RE_PROP = re.compile(r"Error: (?:Temporal properties (?:.* )?were violated|Temporal property (\S+) was violated|Action property (\S+) is violated)")
_RE_COV = re.compile(r"^<(\w+) line \d+, col \d+ to line \d+, col \d+ of module (\w+)>: (\d+):(\d+)", re.M)
_RE_SIMSTATES = re.compile(r"The number of states generated: (\d+)")


def _parse_output(r):
    out = r.out
    m = None
    for m in _RE_STATES.finditer(out):
        pass
    if m:
        r.generated, r.distinct = int(m.group(1)), int(m.group(2))
    else:
        m2 = _RE_SIMSTATES.search(out)
        if m2:
            r.generated = r.distinct = int(m2.group(1))
    m = _RE_DEPTH.search(out)
    if m:
        r.depth = int(m.group(1))
    m = _RE_INV.search(out)
    if m:
        r.invariant_violated = m.group(1)
    m = _RE_PROP.search(out)
    if m:
        r.property_violated = m.group(1) or m.group(2) or "temporal"
    if "Error: Deadlock reached" in out:
        r.deadlock = True
    for m in _RE_COV.finditer(out):
        r.coverage[m.group(1)] = (int(m.group(3)), int(m.group(4)))
    completed = "Model checking completed. No error has been found." in out or (
        "Finished in" in out and "Error:" not in out and "error" not in out.lower().replace("no error", "")
    )
    if r.invariant_violated or r.property_violated or r.deadlock:
        r.ok = False
        r.counterexample = _parse_counterexample(out)
    elif completed:
        r.ok = True
    else:
        # simulation mode prints no 'completed'
        if "Error:" in out or "Exception" in out or r.rc not in (0,):
            r.error = _first_error(out)
        else:
            r.ok = True
    r.printed = [ln for ln in out.splitlines() if ln.startswith("<<") or ln.startswith('"') or ln.startswith("[")]


def _first_error(out):
    idx = out.find("Error:")
    if idx < 0:
        idx = out.find("Exception")
    return out[idx : idx + 1500] if idx >= 0 else out[-1500:]


_RE_CEX = re.compile(r"^State (\d+): <?([^\n>]*)>?\n((?:(?!^State \d+:|^\d+ states generated|^Error:|^Finished|^The number of).*\n)*)", re.M)


def _parse_counterexample(out):
    res = []
    for m in _RE_CEX.finditer(out):
        res.append((m.group(2).strip(), m.group(3).strip()))
    return res


def sany(workdir, module):
    cmd = ["java", "-cp", TLA_JAR + ":" + CM_JAR, "tla2sany.SANY", module + ".tla"]
    p = subprocess.run(cmd, cwd=workdir, stdout=subprocess.PIPE, stderr=subprocess.STDOUT, timeout=120)
    out = p.stdout.decode("utf-8", "replace")
    ok = p.returncode == 0 and "Semantic errors" not in out and "*** Errors" not in out and "Fatal errors" not in out and "Could not find module" not in out
    return ok, out


def write_json(path, obj):
    with open(path, "w", encoding="utf-8") as f:
        json.dump(obj, f, separators=(",", ":"), sort_keys=True)


def check_vacuity(result, required_actions):
    """Return the list of actions (by definition name) never taken according to -coverage."""
    missing = []
    for a in required_actions:
        c = result.coverage.get(a)
        if c is None or c[1] == 0:
            missing.append(a)
    return missing
