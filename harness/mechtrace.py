"""Runs one simulated cluster start/stop (mechsim.MechWorld: the real mechanic actors under SimActorSystem) under a schedule
and records the trace TraceMechanic.tla validates: every event = one scheduling decision + the projection of the real
objects' state after the handler returned (read from the actor instances, the channels and the recording stubs)."""
from . import mechsim, tlc


class TracedMech:
    def __init__(self, scn, up=(), plan=()):
        self.scn = scn
        self.plan = [dict(x) for x in plan]
        self.up0 = sorted(up)
        self.w = mechsim.MechWorld(scn, initial_up=up, plan=plan)
        self.summary = []  # per finished lifecycle: what race control got, fault, node observations
        self.init = self.w.project()
        self.events = []
        self.livelock = False

    def snapshot(self):
        w = self.w
        return {"scn": w.scn, "box": w.rc_inbox(), "fault": w.fault, "nd": [dict(x) for x in w.nd]}

    def do(self, dec):
        if dec[0] == "rc" and dec[1] == "restart":
            self.summary.append(self.snapshot())
        ev, a, b = self.w.step(dec)
        e = {"ev": ev, "a": a, "b": b, "st": self.w.project()}
        if ev == "RcRestart":
            e["scn"] = self.w.scn  # the configuration of the lifecycle that begins
        self.events.append(e)
        return ev, a, b

    def answered(self):
        box = self.w.rc_inbox()
        return "EngineStarted" in box or "BenchmarkFailure" in box

    def find(self, want, faults=True, max_resets=100):
        for dec in self.w.enabled(faults=faults, max_resets=max_resets, max_procs=100):
            if self.w.decision_event(dec) == tuple(want):
                return dec
        return None

    def run(self, script, rnd, fault_prob=0.0, wake_prob=0.1, reset_prob=0.3, max_events=200, strict=False, proc_prob=0.0):
        """script: [(ev, a, b)] from a TLC behaviour / counterexample / replay file (steps that are not enabled are skipped).
        Afterwards (unless strict) a seeded random policy drives the system until no decision that counts as progress is
        enabled: faults are injected with probability fault_prob per step at which one is possible, a started node's process is
        put into a condition other than alive (gone / dying while terminated / ignoring SIGTERM / ignoring SIGTERM and gone when killed) with probability proc_prob per
        step, the node actors' periodic flush wake-ups and ResetRelativeTime are sprinkled in. Returns (#followed, #skipped)."""
        followed = skipped = 0
        for want in script:
            dec = self.find(want)
            if dec is None:
                skipped += 1
                continue
            self.do(dec)
            followed += 1
        if strict:
            return followed, skipped
        while True:
            if len(self.events) >= max_events:
                self.livelock = True
                self.events.append({"ev": "Livelock", "a": 0, "b": "", "st": self.w.project()})
                break
            en = self.w.enabled(faults=True, max_resets=1)
            prog = [d for d in en if self.w.is_progress(d)]
            if not prog:
                break
            faults = [d for d in en if d[0] == "leave" or (d[0] == "deliver" and len(d) > 3 and d[3] in ("create", "launch"))]
            wakes = [d for d in en if d[0] == "wakeup" and d[1] != self.w.M]
            resets = [d for d in en if d[0] == "rc" and d[1].startswith("reset")]
            joins = [d for d in en if d[0] == "join" and not self.w.is_progress(d)]
            procs = [d for d in en if d[0] == "proc"]
            r = rnd.random()
            if faults and r < fault_prob:
                self.do(rnd.choice(faults))
            elif procs and rnd.random() < proc_prob:
                # "early" (already gone at stop time) twice as likely as the two other conditions
                early = [d for d in procs if d[2] == "early"]
                self.do(rnd.choice(early if rnd.random() < 0.5 else procs))
            elif wakes and rnd.random() < wake_prob:
                self.do(rnd.choice(wakes))
            elif resets and rnd.random() < reset_prob:
                self.do(rnd.choice(resets))
            elif joins and rnd.random() < 0.3:
                self.do(rnd.choice(joins))
            else:
                self.do(rnd.choice(prog))
        return followed, skipped

    def trace(self, tid):
        return {"id": tid, "scn": self.scn, "plan": self.plan, "init": self.init, "events": self.events}

    def close(self):
        self.w.close()
