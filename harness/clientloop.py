"""One client's request loop on a virtual clock — shared by C04 (c04.py) and C05 (c05.py).

A *case* (JSON-able) fixes the task configuration of ClientLoop.tla and a script for the environment:

  {"src": ..., "exact": bool,
   "cfg": {kind, wi, it, wt, tp, sched, tnum, tden, tunit, runit, clients, idx, total, ramp, tps, client, task, rc},
                                                  rc: 0 = ordinary runner, k = runner object with completed/percent_completed,
                                                  completed from its k-th call on
   "t0": ticks,                                   virtual clock when the client coroutine is started
   "script": [{"d1","svc","d2","out","w","ext"}], per request: client overhead before the wire request, service time,
                                                  client overhead after it (ticks), outcome ok|api|transport|timeout|soft
                                                  (soft: the runner RETURNS success=False with its weight and unit, like a bulk with
                                                  item errors; the others raise), weight returned by the runner, external completion
                                                  during the request
   "incs": [ticks...],                            values returned by random.expovariate (Poisson schedule), in order
   "variant": {"tform": "num"|"str"|"interval", "none0": bool, "schedname": bool}   how the Task object spells the parameters}

All times are integers in ticks, cfg.tps ticks per second.  `execute(case)` runs the REAL schedule_for + ScheduleHandle +
loop control + scheduler + AsyncExecutor + execute_single + Sampler + RequestContextHolder on vclock.VirtualLoop with a
scripted fake client and returns the trace item for TraceClientLoop.tla (everything observed, in ticks; no floats).

An *element case* (key "tasks", see execute_element) is one schedule element - a plain task or a `parallel` with an optional
clients cap and ramp-up - that goes through the REAL Allocator -> ClientAllocations -> AsyncIoAdapter -> AsyncExecutor path; it
yields one trace item per (client, task allocation), with "elem" = the element's declaration from which TraceClientLoop.tla
derives the client's index, the total and the sub-task's clients.
"""
import asyncio
import glob
import os
import random as _random_mod
import re
import threading
from fractions import Fraction

from . import tlc, tracecheck
from .core import Violation
from .tlaparse import parse_value, to_json
from .vclock import VirtualClock, run_coroutine

OP_TYPE = "verif-clientloop"
OP_TYPE_RC = "verif-clientloop-completion"  # same scripted request, runner object with completed / percent_completed
NO_ELEM = {"use": False, "cap": 0, "clients": [1], "j": 1, "i": 0}
MAX_REQUESTS = 400  # hard cap per run (a loop that does not terminate is cancelled and reported as 'capped')
EXACT_EPS = 1e-9
FINE = 1000  # finer grid for tick-exact cases whose run left the tick grid
APPROX_TOL = 3  # ticks (ms) of tolerance for runs whose arithmetic is not tick-exact: every recorded value is rounded to a tick

_HOME = None
_RUN = None  # the run currently executing (single threaded)
_registered = False


def ensure_rally_home():
    """esrally needs RALLY_HOME with a logging configuration."""
    global _HOME
    if _HOME is None:
        _HOME = tlc.scratch("rally_home")
        os.environ["RALLY_HOME"] = _HOME
        os.environ.pop("ESRALLY_VERIF_TRACE", None)
        from esrally import log

        log.install_default_log_config()
        import logging

        logging.disable(logging.CRITICAL)
    return _HOME


# ---------------------------------------------------------------------------------------------------
# fake Elasticsearch client + runner
# ---------------------------------------------------------------------------------------------------
async def _runner(es, params):  # registered with runner.register_runner(OP_TYPE, _runner, async_runner=True)
    return await es.scripted_request(params)


class CompletionRunner:
    """A runner that exposes Rally's optional completion API (like wait-for-transform / recovery style runners):
    `completed` is False until the cfg.rc-th call of the current run, `percent_completed` stays None."""

    @property
    def completed(self):
        run = _RUN
        if run is None:
            return False
        rc = run.cfg.get("rc", 0)
        return bool(rc > 0 and len(run.log) >= rc)

    @property
    def percent_completed(self):
        return None

    async def __call__(self, es, params):
        return await es.scripted_request(params)

    def __repr__(self):
        return "verif-completion-runner"


def _make_fake_client_class():
    from esrally.client import context

    class FakeClient(context.RequestContextHolder):
        """The real RequestContextHolder; the wire request is a script on the virtual clock."""

        def __init__(self, run):
            self.run = run

        async def scripted_request(self, params):
            run = self.run
            clock = run.clock
            k = len(run.log)
            step = run.script[k] if k < len(run.script) else run.default_step
            rec = {"issue": clock.now, "ws": None, "we": None, "ret": None, "optype": params.get("operation-type"), "cset_issue": run.complete.is_set(), "cset_ret": False}
            run.log.append(rec)
            run.used.append(step)
            if k + 1 >= MAX_REQUESTS:
                run.capped = True
                run.cancel.set()
            if step["d1"] > 0:
                await asyncio.sleep(step["d1"] / run.tps)
            self.on_request_start()
            rec["ws"] = clock.now
            if step["svc"] > 0:
                await asyncio.sleep(step["svc"] / run.tps)
            self.on_request_end()
            rec["we"] = clock.now
            if step["ext"]:
                run.complete.set()
            if step["d2"] > 0:
                await asyncio.sleep(step["d2"] / run.tps)
            rec["ret"] = clock.now
            rec["cset_ret"] = run.complete.is_set()
            out = step["out"]
            if out == "ok":
                return {"weight": step["w"], "unit": run.cfg["runit"]}
            if out == "soft":
                return {"weight": step["w"], "unit": run.cfg["runit"], "success": False}
            raise _error(out, k)

        async def close(self):
            return None

    return FakeClient


def _error(kind, n):
    import elastic_transport
    import elasticsearch

    if kind == "api":
        meta = elastic_transport.ApiResponseMeta(
            status=400, http_version="1.1", headers=elastic_transport.HttpHeaders(), duration=0.0, node=elastic_transport.NodeConfig("http", "verif", 9200)
        )
        return elasticsearch.BadRequestError("verif_bad_request_%d" % n, meta, {"error": "verif"})
    if kind == "timeout":
        return elasticsearch.ConnectionTimeout("verif_timeout_%d" % n)
    if kind == "transport":
        # every transport error that is not a plain ConnectionError is an ordinary error outcome (on-error decides): the base
        # class, and the TLS error - the one SUBCLASS of ConnectionError that elasticsearch-py exports
        if n % 3 == 0:
            return elastic_transport.TlsError("verif_tls_%d" % n)
        if n % 3 == 2:
            return elasticsearch.SSLError("verif_ssl_%d" % n, errors=(OSError("verif inner"),))
        return elastic_transport.TransportError("verif_transport_%d" % n)
    raise tlc.MachineryError("unknown outcome %r" % (kind,))


class _Run:
    def __init__(self, case, clock=None):
        self.case = case
        self.cfg = case["cfg"]
        self.cfg.setdefault("rc", 0)
        self.tps = self.cfg["tps"]
        self.script = case["script"]
        self.incs = list(case.get("incs", []))
        self.default_step = {"d1": 0, "svc": max(1, self.tps // 4), "d2": 0, "out": "ok", "w": 1, "ext": False}
        self.default_inc = max(1, self.tps // 4)
        if clock is None:
            self.clock = VirtualClock()
            self.clock.now = case["t0"] / self.tps
        else:
            self.clock = clock  # several clients of one schedule element share the clock (and the sampler)
        self.shared = clock is not None
        self.pending = []  # shared sampler: samples added by this client's executor since the last yield
        self.es_client_id = None
        self.log = []
        self.used = []
        self.yields = []  # dict(tuple fields, at, samples_before (samples added since the previous yield), expo calls)
        self.expo = []  # rates passed to random.expovariate since the last yield
        self.n_expo = 0
        self.cancel = threading.Event()
        self.complete = threading.Event()
        self.capped = False
        self.sampler = None
        self.tail_samples = []

    def take_samples(self):
        if self.shared:
            res, self.pending = self.pending, []
            return res
        return self.sampler.samples


class ObservedSchedule:
    """Transparent proxy of the real ScheduleHandle: records every tuple the schedule yields, the virtual instant of the yield
    and the samples the executor has added since the previous yield (they belong to the previous request)."""

    def __init__(self, handle, run):
        self._h = handle
        self._run = run

    def __call__(self):
        gen = self._h()
        run = self._run

        async def observed():
            if run.shared:
                run.sampler.by_task[asyncio.current_task()] = run
            async for tup in gen:
                run.yields.append(
                    {"tuple": tup, "at": run.clock.now, "samples_before": run.take_samples(), "expo": run.expo}
                )
                run.expo = []
                k = len(run.yields) - 1
                extw = run.script[k].get("extw", 0) if k < len(run.script) else 0
                if extw > 0:
                    # the completed-by signal of another task arrives extw ticks after the client began to wait for this request
                    asyncio.get_running_loop().call_later(extw / run.tps, run.complete.set)
                yield tup

        return observed()

    def start(self):
        return self._h.start()

    @property
    def ramp_up_wait_time(self):
        return self._h.ramp_up_wait_time

    def before_request(self, now):
        return self._h.before_request(now)

    def after_request(self, now, weight, unit, request_meta_data):
        return self._h.after_request(now, weight, unit, request_meta_data)


def _seconds(ticks, tps):
    """ticks -> the number a track author would write (int when integral)."""
    if ticks % tps == 0:
        return ticks // tps
    return ticks / tps


def build_task(case):
    from esrally.track import track

    cfg = case["cfg"]
    var = case.get("variant") or {}
    tps = cfg["tps"]
    kw = {}
    none0 = bool(var.get("none0"))
    if cfg["kind"] == "iter":
        kw["warmup_iterations"] = None if (cfg["wi"] == 0 and none0) else cfg["wi"]
        kw["iterations"] = cfg["it"]
    else:
        kw["warmup_time_period"] = None if (cfg["wt"] == 0 and none0 and cfg["ramp"] == 0) else _seconds(cfg["wt"], tps)
        kw["time_period"] = _seconds(cfg["tp"], tps)
        if cfg["ramp"] > 0:
            kw["ramp_up_time_period"] = _seconds(cfg["ramp"], tps)
    params = {}
    if cfg["sched"] != "unthrottled":
        t = Fraction(cfg["tnum"], cfg["tden"])
        form = var.get("tform", "num")
        if cfg["tunit"] != "ops":
            form = "str"
        if form == "interval":
            iv = 1 / t
            params["target-interval"] = int(iv) if iv.denominator == 1 else float(iv)
        elif form == "str":
            params["target-throughput"] = "%s %s/s" % (_decimal(t), cfg["tunit"])
        else:
            params["target-throughput"] = int(t) if t.denominator == 1 else float(t)
    sn = int(var.get("schedname", 0)) % 3
    if cfg["sched"] == "poisson":
        schedule = "poisson"
    elif cfg["sched"] == "deterministic":
        schedule = "deterministic" if sn else None  # deterministic is the default
    else:
        # without a target throughput the built-in schedules all run unthrottled
        schedule = [None, "deterministic", "poisson"][sn]
    op = track.Operation(name="op-" + cfg["task"], operation_type=OP_TYPE_RC if cfg.get("rc", 0) > 0 else OP_TYPE, params={})
    return track.Task(name=cfg["task"], operation=op, clients=cfg["clients"], schedule=schedule, params=params, **kw)


def _decimal(fr):
    """A decimal string for Task.THROUGHPUT_PATTERN (digits[.digits])."""
    f = float(fr)
    if fr.denominator == 1:
        return str(fr.numerator)
    s = repr(f)
    if "e" in s or "E" in s:
        s = "%.12f" % f
    return s


def _install_runner():
    global _registered
    if not _registered:
        from esrally.driver import runner

        runner.register_runner(OP_TYPE, _runner, async_runner=True)
        runner.register_runner(OP_TYPE_RC, CompletionRunner(), async_runner=True)
        _registered = True


class _Conv:
    """float seconds -> integer ticks; remembers whether every conversion was exact."""

    def __init__(self, tps, exact_wanted):
        self.tps = tps
        self.exact_wanted = exact_wanted
        self.inexact = []

    def t(self, x, what):
        if x is None:
            return -1
        v = x * self.tps
        r = int(round(v))
        if abs(v - r) > EXACT_EPS:
            self.inexact.append(what)
        return r

    def scaled(self, x, scale, what):
        if x is None:
            return -1
        v = x * scale
        r = int(round(v))
        if abs(v - r) > EXACT_EPS * max(1, scale):
            self.inexact.append(what)
        return r


NO_SAMPLE = {
    "client": -1,
    "task": "",
    "ty": 0,
    "abs": 0,
    "rs": 0,
    "lat": 0,
    "svc": 0,
    "proc": 0,
    "tp": 0,
    "ops": 0,
    "unit": "",
    "p": 0,
    "pone": False,
    "success": False,
}


def pd_of(cfg):
    return cfg["wi"] + cfg["it"] if cfg["kind"] == "iter" else cfg["wt"] + cfg["tp"]


def execute(case):
    """Run one case on the real code. Returns the trace item (dict) for TraceClientLoop.tla."""
    global _RUN
    ensure_rally_home()
    from esrally import exceptions
    from esrally.driver import driver
    from esrally.track import params as track_params

    _install_runner()
    cfg = case["cfg"]
    cfg.setdefault("rc", 0)
    tps = cfg["tps"]
    run = _Run(case)
    _RUN = run
    FakeClient = _make_fake_client_class()
    task = build_task(case)
    alloc = driver.TaskAllocation(task=task, client_index_in_task=cfg["idx"] % cfg["clients"], global_client_index=cfg["idx"], total_clients=cfg["total"])
    source = track_params.ParamSource(track=None, params={})
    real_expo = _random_mod.expovariate

    def scripted_expovariate(rate):
        run.expo.append(rate)
        k = run.n_expo
        run.n_expo += 1
        inc = run.incs[k] if k < len(run.incs) else run.default_inc
        return inc / tps

    aborted = ""
    run.clock.install()
    _random_mod.expovariate = scripted_expovariate
    try:
        handle = driver.schedule_for(alloc, source)
        run.sampler = driver.Sampler(start_timestamp=run.clock.now)
        executor = driver.AsyncExecutor(
            client_id=cfg["client"],
            task=task,
            schedule=ObservedSchedule(handle, run),
            es={"default": FakeClient(run)},
            sampler=run.sampler,
            cancel=run.cancel,
            complete=run.complete,
            on_error="continue",
        )
        try:
            run_coroutine(run.clock, executor())
        except exceptions.RallyError as ex:
            aborted = "%s: %s" % (type(ex).__name__, ex)
        run.tail_samples = run.sampler.samples
    finally:
        _random_mod.expovariate = real_expo
        run.clock.uninstall()
        _RUN = None
    item, info = _project(case, run, aborted, 1)
    if case.get("exact", True) and not item["exact"]:
        # a tick-exact case whose run left the tick grid (only on a changed tree): record it on a grid 1000 times finer so
        # that L1 is still evaluated with a small tolerance (L2 is not evaluated; run_cases reports drift)
        item, _ = _project(case, run, aborted, FINE)
    return item, info


def _project(case, run, aborted, mult):
    """mult: record on a grid of cfg.tps * mult ticks per second (1 = the case's own ticks)."""
    cfg = dict(case["cfg"])
    tps = cfg["tps"] * mult
    for k in ("wt", "tp", "ramp"):
        cfg[k] *= mult
    cfg["tps"] = tps
    conv = _Conv(tps, case.get("exact", True))
    pd = pd_of(cfg)
    events = []
    ny = len(run.yields)
    nlog = len(run.log)
    # samples recorded after yield k and before yield k+1 (or the end) belong to request k
    per_req = []
    for k in range(ny):
        per_req.append(run.yields[k + 1]["samples_before"] if k + 1 < ny else run.tail_samples)
    stray = list(run.yields[0]["samples_before"]) if ny else list(run.tail_samples)
    for k in range(max(ny, nlog)):
        y = run.yields[k] if k < ny else None
        lg = run.log[k] if k < nlog else None
        step = run.used[k] if k < len(run.used) else run.default_step
        smp = per_req[k] if k < ny else []
        ev = {}
        if y is not None:
            sched, sty, pct = y["tuple"][0], y["tuple"][1], y["tuple"][2]
            ev.update(
                sched=conv.t(sched, "sched"),
                ty=int(sty),
                p=conv.scaled(pct, pd, "yield.percent") if pct is not None else -1,
                yat=conv.t(y["at"], "yat"),
                ncalls=len(y["expo"]),
            )
            if y["expo"]:
                fr = Fraction(y["expo"][0]) / tps  # rate per tick
                fr = fr.limit_denominator(1 << 20)
                ev.update(rnum=fr.numerator, rden=fr.denominator)
            else:
                ev.update(rnum=0, rden=1)
        else:
            ev.update(sched=-1, ty=0, p=-1, yat=-1, ncalls=0, rnum=0, rden=1)
        if lg is not None:
            ev.update(issue=conv.t(lg["issue"], "issue"), ws=conv.t(lg["ws"], "ws"), we=conv.t(lg["we"], "we"), ret=conv.t(lg["ret"], "ret"))
        else:
            ev.update(issue=-1, ws=-1, we=-1, ret=-1)
        ok = step["out"] == "ok"
        returned = step["out"] in ("ok", "soft")  # the runner returned (soft: with success=False); otherwise it raised: weight 0, "ops"
        ev.update(ok=ok, w=step["w"] if returned else 0, unit=cfg["runit"] if returned else "ops", ext=bool(lg["cset_ret"]) if lg is not None else False, inc=0)
        ev["xw"] = bool(lg is not None and lg["cset_issue"])
        ev["executed"] = lg is not None
        ev["nsamples"] = len(smp)
        ev["s"] = _project_sample(smp[0], run, conv, pd) if smp else dict(NO_SAMPLE)
        events.append(ev)
    # the increments the schedule consumed, attributed to the yield that consumed them
    used_incs = 0
    for k, ev in enumerate(events):
        if ev["ncalls"] > 0:
            inc = run.incs[used_incs] if used_incs < len(run.incs) else run.default_inc
            ev["inc"] = inc * mult
            used_incs += ev["ncalls"]
    exact = bool(case.get("exact", True)) and not conv.inexact and mult == 1
    item = {
        "exact": exact,
        "tol": 0 if exact else APPROX_TOL,
        "cfg": cfg,
        "elem": dict(case.get("elem") or NO_ELEM),
        "t0": case["t0"] * mult,
        "events": events,
        "end": {"n": nlog, "ny": ny, "aborted": bool(aborted), "capped": bool(run.capped), "stray": len(stray)},
    }
    info = {"aborted": aborted, "inexact": sorted(set(conv.inexact)), "requests": nlog, "raw": [x for lst in per_req for x in lst]}
    return item, info


def _project_sample(s, run, conv, pd):
    clock = run.clock
    md = s.request_meta_data or {}
    pc = s.percent_completed
    return {
        "client": s.client_id if isinstance(s.client_id, int) else -2,
        "task": str(getattr(s.task, "name", s.task)),
        "ty": int(s.sample_type),
        "abs": conv.t(s.absolute_time - clock.EPOCH, "sample.absolute_time"),
        "rs": conv.t(s.request_start, "sample.request_start"),
        "lat": conv.t(s.latency, "sample.latency"),
        "svc": conv.t(s.service_time, "sample.service_time"),
        "proc": conv.t(s.processing_time, "sample.processing_time"),
        "tp": conv.t(s.time_period, "sample.time_period"),
        "ops": int(s.total_ops) if isinstance(s.total_ops, int) else -1,
        "unit": str(s.total_ops_unit),
        "p": conv.scaled(pc, pd, "sample.percent") if pc is not None else -1,
        "pone": bool(pc == 1.0) if pc is not None else False,
        "success": bool(md.get("success")),
    }


# ---------------------------------------------------------------------------------------------------
# TLC behaviours -> cases
# ---------------------------------------------------------------------------------------------------
_SIM_STATE = re.compile(r"^STATE_(\d+) ==\s*$", re.M)
_VAR = re.compile(r"^/\\ ([A-Za-z_][A-Za-z0-9_]*) = ", re.M)


def _state_vars(body, wanted):
    ms = list(_VAR.finditer(body))
    res = {}
    for i, m in enumerate(ms):
        if m.group(1) in wanted:
            end = ms[i + 1].start() if i + 1 < len(ms) else len(body)
            res[m.group(1)] = parse_value(body[m.end() : end])
    return res


def behaviour_to_case(path):
    """One file written by `tlc -simulate file=...` -> case (only `cfg` of the first state and `act` of every state are parsed)."""
    with open(path, "r", encoding="utf-8") as f:
        text = f.read()
    ms = list(_SIM_STATE.finditer(text))
    cfg = None
    t0 = 0
    script = []
    incs = []
    cur = None
    complete = False
    actions = set()
    for i, m in enumerate(ms):
        end = ms[i + 1].start() if i + 1 < len(ms) else len(text)
        body = "\n".join(ln for ln in text[m.end() : end].splitlines() if not ln.startswith("\\*") and not ln.startswith("===="))
        if i == 0:
            v = _state_vars(body, ("cfg", "st", "act"))
            cfg = to_json(v["cfg"])
            t0 = v["st"]["now"]
            continue
        act = _state_vars(body, ("act",))["act"]
        name = act["name"]
        actions.add(name)
        if name == "Yield":
            if act["poisson"]:
                incs.append(act["inc"])
            cur = {"d1": 0, "svc": 0, "d2": 0, "out": "ok", "w": 1, "ext": False}
        elif name == "SleepUntil":
            cur["extw"] = act["xo"]
        elif name == "WireStart":
            cur["d1"] = act["d"]
        elif name == "WireEnd":
            cur["svc"] = act["d"]
        elif name == "Return":
            cur["d2"] = act["d"]
            cur["out"] = "ok" if act["ok"] else act["err"]
            cur["w"] = act["w"]  # 0 for the kinds that raise, the reported weight for ok and soft
            cur["ext"] = act["ext"]
            script.append(cur)
            cur = None
        elif name in ("Finish", "Abort"):
            complete = True
    return {"src": "tlc-simulate", "exact": True, "cfg": cfg, "t0": t0, "script": script, "incs": incs, "complete": complete, "actions": sorted(actions)}


def behaviours_from_tlc(ctx, out, cfgfile, num, depth, seed_off, name="clsim"):
    wd = tlc.prepare_workdir("ClientLoop", name)
    simdir = os.path.join(wd, "sim")
    os.makedirs(simdir)
    res = tlc.run_tlc(
        wd, "MC_ClientLoop", cfgfile, workers=1, simulate={"num": num, "file": os.path.join(simdir, "b")}, depth=depth, seed=ctx.seed + seed_off, timeout=600
    )
    if not res.ok:
        raise tlc.MachineryError("simulation reported a model violation: %s" % res.out[-2000:])
    out.add_tlc(res)
    cases = []
    rnd = _random_mod.Random(ctx.seed + seed_off)
    for fn in sorted(glob.glob(os.path.join(simdir, "b_*"))):
        case = behaviour_to_case(fn)
        case["variant"] = random_variant(rnd)
        cases.append(case)
    import shutil

    shutil.rmtree(wd, ignore_errors=True)
    return cases


def random_variant(rnd):
    return {"tform": rnd.choice(["num", "str", "interval"]), "none0": rnd.random() < 0.5, "schedname": rnd.randint(0, 2)}


# ---------------------------------------------------------------------------------------------------
# seeded random cases, not derived from TLC
# ---------------------------------------------------------------------------------------------------
def random_case(rnd, exact):
    """exact: dyadic parameters on a 1/4 s grid (the implementation's floats are exact -> L1 and L2);
    otherwise millisecond parameters with non-dyadic throughputs / client counts (L1 with inequalities only)."""
    if exact:
        tps = rnd.choice([1, 4])
        clients = rnd.choice([1, 2, 4])
        extra = rnd.choice([0, 0, clients])  # other clients of the enclosing parallel element
        total = clients + extra
        tnum, tden = rnd.choice([(1, 4), (1, 2), (1, 1), (2, 1), (4, 1)])
        # keep the per-client interval for weight 1 integral in ticks
        while (clients * tps * tden) % tnum:
            tnum, tden = rnd.choice([(1, 4), (1, 2), (1, 1)])
        weights = [1, 1, 2, 4, 0]
        unit_t = max(1, tps)
    else:
        tps = 1000
        clients = rnd.choice([1, 2, 3, 5, 7])
        extra = rnd.choice([0, 0, 1, 3])
        total = clients + extra
        tnum, tden = rnd.choice([(3, 1), (7, 1), (10, 1), (1, 3), (100, 7), (13, 10)])
        weights = [1, 1, 2, 3, 5, 0]
        unit_t = 1000
    sched = rnd.choice(["unthrottled", "deterministic", "deterministic", "poisson"])
    tunit = rnd.choice(["ops", "ops", "docs"])
    runit = tunit if rnd.random() < 0.7 else rnd.choice(["ops", "docs"])
    if sched != "unthrottled" and tunit != "ops" and runit != tunit and rnd.random() < 0.7:
        runit = tunit  # keep aborting configurations rare
    interval = Fraction(clients * tps * tden, tnum)  # ticks per request (weight 1)
    kind = rnd.choice(["iter", "time"])
    cfg = {"kind": kind, "wi": 0, "it": 0, "wt": 0, "tp": 0, "ramp": 0}
    if kind == "iter":
        cfg["wi"] = rnd.choice([0, 0, 1, 2, 3, 5])
        cfg["it"] = rnd.randint(1, 8)
    else:
        base = max(unit_t // 2, int(interval)) if sched != "unthrottled" else unit_t
        cfg["wt"] = rnd.choice([0, 0, 1, 2, 3]) * base
        cfg["tp"] = rnd.randint(1, 6) * base
        if cfg["wt"] > 0 and total > 1 and rnd.random() < 0.6:
            if exact:
                # ramp * idx / total must be integral in ticks: total is a power of two
                cand = [r for r in range(1, cfg["wt"] + 1) if (r % total) == 0]
                cfg["ramp"] = rnd.choice(cand) if cand else 0
            else:
                cfg["ramp"] = rnd.randint(1, cfg["wt"])
        if not exact:
            cfg["wt"] += rnd.randint(0, 300) if cfg["wt"] else 0
            cfg["tp"] += rnd.randint(0, 300)
            cfg["ramp"] = min(cfg["ramp"], cfg["wt"])
    idx = rnd.randrange(total)
    # runner with the optional completion API: never complete within the iterations (mostly) / complete early
    rc = 0
    r = rnd.random()
    if kind == "iter" and r < 0.15:
        rc = cfg["wi"] + cfg["it"] + 3
    elif r > 0.95:
        rc = rnd.randint(1, 5)
    cfg["rc"] = rc
    cfg.update(sched=sched, tnum=tnum, tden=tden, tunit=tunit, runit=runit, clients=clients, idx=idx, total=total, tps=tps, client=rnd.choice([idx, idx + 10]), task="task-%d" % rnd.randint(1, 3))
    if sched == "unthrottled":
        cfg.update(tnum=1, tden=1, tunit="ops")
    # environment: service times around the interval, sometimes far slower
    mean = int(interval) if sched != "unthrottled" else unit_t
    mode = rnd.choice(["fast", "mixed", "slow"])
    script = []
    for _ in range(rnd.randint(0, 40)):
        if exact:
            svc = {"fast": rnd.randint(0, max(1, mean // 2)), "mixed": rnd.randint(0, 2 * mean + 1), "slow": rnd.randint(mean, 3 * mean + 1)}[mode]
            d1, d2 = rnd.choice([0, 0, 1]), rnd.choice([0, 0, 1])
            if kind == "time" and d1 + svc + d2 == 0:
                svc = 1
        else:
            svc = {"fast": rnd.randint(1, max(2, mean // 2)), "mixed": rnd.randint(1, 2 * mean + 1), "slow": rnd.randint(mean, 3 * mean + 1)}[mode]
            d1, d2 = rnd.randint(0, 40), rnd.randint(0, 40)
        r = rnd.random()
        outk = "ok" if r < 0.8 else rnd.choice(["api", "transport", "timeout", "soft", "soft"])
        script.append({"d1": d1, "svc": svc, "d2": d2, "out": outk, "w": rnd.choice(weights) if outk in ("ok", "soft") else 0, "ext": rnd.random() < 0.02})
        if sched != "unthrottled" and rnd.random() < 0.03:
            script[-1]["extw"] = rnd.randint(1, max(1, mean))  # complete event set that many ticks after the client began to wait
    incs = [rnd.randint(0, 2 * mean + 1) for _ in range(60)]
    t0 = rnd.choice([0, 3 * tps, 17 * tps]) + (0 if exact else rnd.randint(0, 999))
    case = {"src": "random-dyadic" if exact else "random-approx", "exact": exact, "cfg": cfg, "t0": t0, "script": script, "incs": incs, "variant": random_variant(rnd)}
    case["default_note"] = "requests beyond the script: svc = tps/4 ticks, ok, weight 1"
    return case


def edge_case(rnd):
    """Tick-exact run on a 1/1024 s or 1/2048 s grid of a deterministically throttled client that comes back within the last
    few ticks (fractions of a millisecond) before / exactly at / just after the scheduled time of its next request."""
    tps = rnd.choice([1024, 1024, 2048])
    clients = rnd.choice([1, 1, 2])
    tnum, tden = rnd.choice([(2, 1), (4, 1), (8, 1), (16, 1)])
    interval = clients * tps * tden // tnum
    kind = rnd.choice(["iter", "iter", "time"])
    n = rnd.randint(4, 10)
    cfg = {"kind": kind, "wi": 0, "it": 0, "wt": 0, "tp": 0, "ramp": 0, "rc": 0}
    if kind == "iter":
        cfg["wi"] = rnd.choice([0, 1, 2])
        cfg["it"] = max(1, n - cfg["wi"])
    else:
        cfg["wt"] = rnd.choice([0, 2]) * interval
        cfg["tp"] = n * interval - cfg["wt"]
    idx = rnd.randrange(clients)
    tunit = rnd.choice(["ops", "ops", "docs"])
    cfg.update(sched="deterministic", tnum=tnum, tden=tden, tunit=tunit, runit=tunit, clients=clients, idx=idx, total=clients, tps=tps, client=idx, task="task-edge")
    script = []
    late = 0
    for _ in range(n + 2):
        r = rnd.choice([1, 1, 1, 2, 2, 3, 0, 0, -1, -2, 5, interval // 2])
        dur = max(1, interval - late - r)
        d1, d2 = rnd.choice([0, 0, 1]), rnd.choice([0, 0, 1])
        if dur < d1 + d2 + 1:
            d1 = d2 = 0
        script.append({"d1": d1, "svc": dur - d1 - d2, "d2": d2, "out": "ok", "w": 1, "ext": False})
        late = max(0, late + dur - interval)
    t0 = rnd.choice([0, 3 * tps, 17 * tps + 5])
    return {"src": "random-edge", "exact": True, "cfg": cfg, "t0": t0, "script": script, "incs": [], "variant": random_variant(rnd)}


# ---------------------------------------------------------------------------------------------------
# one schedule element through the REAL Allocator -> ClientAllocations -> AsyncIoAdapter -> AsyncExecutor path
# ---------------------------------------------------------------------------------------------------
def _make_recording_sampler_class():
    from esrally.driver import driver

    class RecordingSampler(driver.Sampler):
        """The real Sampler; every sample is attributed to the executor coroutine (asyncio task) that added it."""

        def __init__(self, start_timestamp):
            super().__init__(start_timestamp)
            self.by_task = {}
            self.orphans = []

        def add(self, *args, **kwargs):
            super().add(*args, **kwargs)
            new = self.samples
            run = self.by_task.get(asyncio.current_task())
            (run.pending if run is not None else self.orphans).extend(new)

    return RecordingSampler


def _adapter_config():
    from esrally import config
    from esrally.utils import opts

    cfg = config.Config()
    S = config.Scope.application
    cfg.add(S, "driver", "profiling", False)
    cfg.add(S, "driver", "assertions", False)
    cfg.add(S, "client", "hosts", opts.TargetHosts("127.0.0.1:9200"))
    cfg.add(S, "client", "options", opts.ClientOptions("timeout:60"))
    cfg.add(S, "mechanic", "distribution.version", "8.6.1")
    return cfg


def element_client_cfg(ecase, j, i):
    """cfg of the i-th client of sub-task j (1-based j). idx / total / clients are placeholders here: TraceClientLoop.tla derives
    them from the element's declaration (Placement)."""
    t = ecase["tasks"][j - 1]
    cfg = {k: t[k] for k in ("kind", "wi", "it", "wt", "tp", "sched", "tnum", "tden", "tunit", "runit", "clients")}
    cfg.update(ramp=ecase["ramp"], tps=ecase["tps"], task=t["name"], rc=0, idx=0, total=1, client=-1)
    return cfg


def execute_element(ecase):
    """ecase: {"src", "exact", "tps", "t0", "cap" (0 = none), "ramp", "tasks": [{"name","clients",kind,wi,it,wt,tp,sched,tnum,tden,
    tunit,runit}], "scripts": {"<logical client>": [steps]}, "variant"}.  The element (a plain task, or a `parallel` with an optional
    clients cap and ramp-up) is allocated by the real Allocator, cut into steps by the real ClientAllocations and every step is run
    by the real AsyncIoAdapter on the virtual clock.  Returns [(item, info)], one per (client, task allocation)."""
    global _RUN
    ensure_rally_home()
    from esrally import client as es_client_mod
    from esrally import exceptions
    from esrally.driver import driver
    from esrally.track import track

    _install_runner()
    tps = ecase["tps"]
    var = ecase.get("variant") or {}
    tasks = []
    for j, t in enumerate(ecase["tasks"], 1):
        tasks.append(build_task({"cfg": element_client_cfg(ecase, j, 0), "variant": var}))
    cap = ecase["cap"]
    if len(tasks) == 1 and cap == 0 and not ecase.get("force_parallel"):
        element = tasks[0]
    else:
        element = track.Parallel(tasks, clients=cap if cap > 0 else None)
    trk = track.Track(name="verif", challenges=[track.Challenge(name="c", default=True, schedule=[element])])
    cum = [0]
    for t in ecase["tasks"]:
        cum.append(cum[-1] + t["clients"])
    total = cap if cap > 0 else cum[-1]
    clock = VirtualClock()
    clock.now = ecase["t0"] / tps
    FakeClient = _make_fake_client_class()
    RecordingSampler = _make_recording_sampler_class()
    results = []
    patches = []

    def patch(obj, attr, value):
        patches.append((obj, attr, getattr(obj, attr)))
        setattr(obj, attr, value)

    clock.install()
    try:
        allocations = driver.Allocator([element]).allocations
        ca = driver.ClientAllocations()
        for client_id, row in enumerate(allocations):
            ca.add(client_id, row)
        step = 0
        for index in range(len(allocations[0])):
            if ca.is_joinpoint(index):
                continue
            task_allocations = ca.tasks(index)
            sampler = RecordingSampler(start_timestamp=clock.now)
            cancel, complete = threading.Event(), threading.Event()
            runs_by_ta, runs_by_client, runs = {}, {}, []
            t0 = clock.now
            for alloc in task_allocations:
                ta = alloc.task
                j = 1 + [id(x) for x in tasks].index(id(ta.task))
                k = step * total + alloc.client_id  # the logical client of the element that runs on this client in this step
                i = k - cum[j - 1]
                if not 0 <= i < ecase["tasks"][j - 1]["clients"]:
                    i = ta.client_index_in_task
                    k = cum[j - 1] + i
                cfg = element_client_cfg(ecase, j, i)
                cfg.update(idx=k, total=total)  # for statistics / messages only: the trace specification derives both itself
                case = {
                    "cfg": cfg,
                    "t0": int(round(t0 * tps)),
                    "script": ecase["scripts"].get(str(k), []),
                    "incs": [],
                    "exact": ecase.get("exact", True),
                    "elem": {"use": True, "cap": cap, "clients": [t["clients"] for t in ecase["tasks"]], "j": j, "i": i},
                }
                run = _Run(case, clock=clock)
                run.sampler, run.cancel, run.complete = sampler, cancel, complete
                runs_by_ta[id(ta)] = run
                runs_by_client[alloc.client_id] = run
                runs.append(run)
            real_schedule_for = driver.schedule_for

            def observed_schedule_for(task_allocation, parameter_source, _real=real_schedule_for, _runs=runs_by_ta):
                return ObservedSchedule(_real(task_allocation, parameter_source), _runs[id(task_allocation)])

            def create_async(self_, api_key=None, client_id=None, _runs=runs_by_client):
                run = _runs[client_id]
                run.es_client_id = client_id
                return FakeClient(run)

            patch(driver, "schedule_for", observed_schedule_for)
            patch(es_client_mod.EsClientFactory, "__init__", lambda self_, *a, **k: None)
            patch(es_client_mod.EsClientFactory, "create_async", create_async)
            aborted = ""
            try:
                contexts = {a.client_id: driver.ClientContext(client_id=a.client_id, parent_worker_id=0) for a in task_allocations}
                adapter = driver.AsyncIoAdapter(_adapter_config(), trk, task_allocations, sampler, cancel, complete, "continue", contexts, 0)
                try:
                    run_coroutine(clock, adapter.run())
                except exceptions.RallyError as ex:
                    aborted = "%s: %s" % (type(ex).__name__, ex)
            finally:
                for obj, attr, old in reversed(patches):
                    setattr(obj, attr, old)
                del patches[:]
            for run in runs:
                run.tail_samples = run.take_samples()
                run.cfg["client"] = run.es_client_id if run.es_client_id is not None else -1
                item, info = _project(run.case, run, aborted, 1)
                if run.case["exact"] and not item["exact"]:
                    item, _ = _project(run.case, run, aborted, FINE)
                item["end"]["stray"] += len(sampler.orphans)
                results.append((item, info))
            step += 1
    finally:
        clock.uninstall()
        _RUN = None
    return results


def random_element_case(rnd):
    """A `parallel` element (sometimes a plain multi-client task): ramp-up over several sub-tasks, or an over-committed element."""
    tps = rnd.choice([1, 4])
    flavour = rnd.choice(["ramp", "ramp", "over", "over", "plain"])
    if flavour == "ramp":
        clients = rnd.choice([[1, 1], [2, 2], [1, 2, 1], [1, 1, 2], [2, 1, 1], [1, 1, 1, 1], [2, 2, 4], [4, 2, 2], [1, 1, 2, 4]])
        cap = 0
    elif flavour == "over":
        clients = rnd.choice([[1, 1, 1], [1, 1], [2, 2], [2, 1, 1], [1, 1, 1, 1], [2, 2, 2], [1, 2]])
        cap = rnd.choice([c for c in (1, 2, 3) if c < sum(clients)])
    else:
        clients = [rnd.choice([2, 4])]
        cap = 0
    total = cap if cap > 0 else sum(clients)
    ramp = 0
    wt = 0
    if flavour in ("ramp", "plain") and rnd.random() < 0.85:
        ramp = total * rnd.randint(1, 3)  # ramp * idx / total integral in ticks
        wt = ramp + rnd.choice([0, 0, tps, 2 * tps])
    tasks = []
    for n, c in enumerate(clients):
        sched = rnd.choice(["unthrottled", "deterministic"])
        tnum, tden = rnd.choice([(1, 2), (1, 1), (2, 1)])
        while (c * tps * tden) % tnum:
            tnum, tden = rnd.choice([(1, 2), (1, 1)])
        t = {"name": "t%d" % (n + 1), "clients": c, "kind": "time", "wi": 0, "it": 0, "wt": 0, "tp": 0, "sched": sched, "tnum": tnum, "tden": tden, "tunit": "ops", "runit": "ops"}
        if sched == "unthrottled":
            t.update(tnum=1, tden=1)
        if ramp > 0 or rnd.random() < 0.4:
            t.update(kind="time", wt=wt if ramp > 0 else rnd.choice([0, tps]), tp=rnd.randint(1, 3) * max(tps, c * tps * tden // tnum if sched != "unthrottled" else tps))
        else:
            t.update(kind="iter", wi=rnd.choice([0, 1, 2]), it=rnd.randint(1, 4))
        tasks.append(t)
    scripts = {}
    for k in range(sum(clients)):
        sc = []
        for _ in range(rnd.randint(0, 8)):
            d1, d2 = rnd.choice([0, 0, 1]), rnd.choice([0, 0, 1])
            svc = rnd.randint(0, 2 * tps + 1)
            if d1 + svc + d2 == 0:
                svc = 1
            outk = "ok" if rnd.random() < 0.85 else rnd.choice(["api", "transport", "timeout", "soft"])
            sc.append({"d1": d1, "svc": svc, "d2": d2, "out": outk, "w": rnd.choice([1, 1, 2]) if outk in ("ok", "soft") else 0, "ext": False})
        scripts[str(k)] = sc
    return {
        "src": "random-element",
        "exact": True,
        "tps": tps,
        "t0": rnd.choice([0, 3 * tps, 17 * tps]),
        "cap": cap,
        "ramp": ramp,
        "tasks": tasks,
        "scripts": scripts,
        "variant": random_variant(rnd),
        "force_parallel": flavour != "plain",
    }


# ---------------------------------------------------------------------------------------------------
# running cases + trace validation, shared by both drivers
# ---------------------------------------------------------------------------------------------------
def signature(prefix, clauses, case, item=None):
    cfg = item["cfg"] if item is not None else case["cfg"]
    sig = {"clauses": sorted(clauses), "kind": cfg["kind"], "sched": cfg["sched"], "ramp": cfg["ramp"] > 0, "unit_mismatch": cfg["runit"] != cfg["tunit"]}
    if "tasks" in case:
        sig.update(element=True, overcommitted=case["cap"] > 0, subtasks=len(case["tasks"]))
    return sig


def run_cases(cases, out, label, prefix, other_seen=None):
    """Execute every case on the real code, validate all recorded runs in TLC. prefix: 'C04_' or 'C05_' (the L1 clauses this
    check is responsible for). Returns (items, infos)."""
    items = []
    infos = []
    index = {}
    for ci, case in enumerate(cases):
        if "tasks" in case:  # a schedule element: one recorded run per (client, task allocation)
            results = execute_element(case)
            for ri, (item, info) in enumerate(results):
                item["id"] = "%s-%d-%d" % (label, ci, ri)
            out.add_case({k: case[k] for k in ("tps", "t0", "cap", "ramp", "tasks", "scripts")}, nontrivial=sum(i["requests"] for _, i in results) >= 2)
        else:
            item, info = execute(case)
            item["id"] = "%s-%d" % (label, ci)
            results = [(item, info)]
            out.add_case({k: case[k] for k in ("cfg", "t0", "script", "incs")}, nontrivial=info["requests"] >= 2)
        for item, info in results:
            items.append(item)
            infos.append(info)
            index[item["id"]] = (case, info, item)
            if case.get("exact", True) and not item["exact"]:
                out.drift.append("%s: a dyadic case produced values off the tick grid (%s): the model expects tick-exact arithmetic" % (item["id"], ",".join(info["inexact"][:4])))
    if not items:
        raise tlc.MachineryError("no cases for %s" % label)
    verdicts = tracecheck.validate("ClientLoop", "TraceClientLoop", "TraceClientLoop.cfg", items, name="cltrace", chunk=1500)
    out.states += verdicts.n_events
    out.transitions += verdicts.n_events
    bad = set()
    for tid, fails in verdicts.l1.items():
        case, info, item = index[tid]
        mine = sorted({c for _, cl in fails for c in cl if c.startswith(prefix)})
        others = sorted({c for _, cl in fails for c in cl if not c.startswith(prefix)})
        if others and other_seen is not None:
            other_seen.update(others)
        if mine:
            bad.add(tid)
            first = min(ln for ln, cl in fails if any(c.startswith(prefix) for c in cl))
            out.violations.append(
                Violation(
                    ",".join(mine),
                    {k: case[k] for k in case if k != "default_note"},
                    signature=signature(prefix, mine, case, item),
                    detail="trace %s%s first failing event %d (%s)" % (tid, _who(item), first, describe_event(item, first)),
                )
            )
    for tid, lines in verdicts.l2.items():
        case, info, item = index[tid]
        bad.add(tid)
        out.drift.append("trace %s%s: event %d is not the step of ClientLoop.tla (%s)" % (tid, _who(item), lines[0], describe_event(item, lines[0])))
    out.traces_validated += len(items) - len(bad)
    return items, infos


def _who(item):
    if item["elem"]["use"]:
        e = item["elem"]
        return " [client %d of sub-task %d of element clients=%s cap=%d, executed by client %d]" % (e["i"], e["j"], e["clients"], e["cap"], item["cfg"]["client"])
    return ""


def describe_event(item, line):
    evs = item["events"]
    if line == 0:
        return "start of run: executing client %s" % item["cfg"]["client"]
    if 1 <= line <= len(evs):
        e = evs[line - 1]
        return "request %d: sched=%s ty=%s yat=%s issue=%s ws=%s we=%s ret=%s sample=%s" % (
            line,
            e["sched"],
            e["ty"],
            e["yat"],
            e["issue"],
            e["ws"],
            e["we"],
            e["ret"],
            {k: e["s"][k] for k in ("ty", "abs", "lat", "svc", "proc", "p")} if e["nsamples"] else None,
        )
    return "end of run: %s" % (item["end"],)


def replay(ctx, case, pid, prefix):
    from .core import Outcome

    out = Outcome(pid)
    items, infos = run_cases([case], out, "replay", prefix)
    print("replayed on the real code: %d run(s), %d requests, aborted=%r" % (len(infos), sum(i["requests"] for i in infos), [i["aborted"] for i in infos if i["aborted"]]))
    for v in out.violations:
        print("VIOLATION property=%s clause=%s %s" % (pid, v.clause, v.detail))
    for d in out.drift:
        print("MODEL-DRIFT property=%s %s" % (pid, d))
    return 1 if out.violations else 0


# ---------------------------------------------------------------------------------------------------
# the check itself (C04 and C05 differ in the model-checking configuration, the clauses they own and the seeds)
# ---------------------------------------------------------------------------------------------------
REQUIRED_ACTIONS = ["Start", "RampUp", "Yield", "SleepUntil", "Issue", "WireStart", "WireEnd", "Return", "AfterRequest", "Record", "LoopNext", "Finish", "Abort"]


def coverage_stats(items):
    """What the executed runs actually exercised (vacuity guard for the L1 clauses)."""
    st = {
        "runs": len(items),
        "requests": 0,
        "throttled_requests": 0,
        "requests_behind_schedule": 0,
        "requests_that_slept_until_schedule": 0,
        "failed_requests": 0,
        "failed_requests_reporting_a_weight": 0,
        "throttled_runs_first_weight_from_a_failed_request": 0,
        "weight_changes": 0,
        "warmup_requests": 0,
        "runs_iteration_based": 0,
        "runs_time_based": 0,
        "runs_with_straddling_warmup_request": 0,
        "runs_with_rampup_delay": 0,
        "runs_completed_externally": 0,
        "runs_aborted_by_unit_check": 0,
        "runs_with_unit_conversion": 0,
        "poisson_requests": 0,
        "deterministic_gaps": 0,
        "requests_decided_within_1ms_before_schedule": 0,
        "runs_through_real_allocator_and_adapter": 0,
        "runs_of_wrapped_clients_on_overcommitted_element": 0,
        "runs_with_rampup_delay_in_multi_subtask_parallel": 0,
        "runs_with_completion_runner_not_completing": 0,
        "runs_completed_by_runner": 0,
        "runs_completed_externally_during_a_throttle_wait": 0,
    }
    for it in items:
        cfg = it["cfg"]
        t0 = it["t0"]
        st["runs_iteration_based" if cfg["kind"] == "iter" else "runs_time_based"] += 1
        if cfg["ramp"] * cfg["idx"] > 0:
            st["runs_with_rampup_delay"] += 1
        if it["end"]["aborted"]:
            st["runs_aborted_by_unit_check"] += 1
        el = it["elem"]
        if el["use"]:
            st["runs_through_real_allocator_and_adapter"] += 1
            if el["cap"] > 0 and cfg["idx"] >= el["cap"]:
                st["runs_of_wrapped_clients_on_overcommitted_element"] += 1
            if len(el["clients"]) > 1 and cfg["ramp"] * cfg["idx"] > 0:
                st["runs_with_rampup_delay_in_multi_subtask_parallel"] += 1
        if cfg.get("rc", 0) > 0:
            if it["end"]["n"] >= cfg["rc"]:
                st["runs_completed_by_runner"] += 1
            elif cfg["kind"] == "iter":
                st["runs_with_completion_runner_not_completing"] += 1
        if cfg["sched"] != "unthrottled" and cfg["tunit"] == "ops" and cfg["runit"] != "ops" and it["events"]:
            st["runs_with_unit_conversion"] += 1
        lastw = None
        strad = False
        for e in it["events"]:
            if not e["executed"]:
                continue
            st["requests"] += 1
            if e["sched"] > 0:
                st["throttled_requests"] += 1
                rem = t0 + e["sched"] - e["yat"]
                if it["exact"] and 0 < rem and rem * 1000 <= cfg["tps"]:
                    st["requests_decided_within_1ms_before_schedule"] += 1
                if e["issue"] > t0 + e["sched"] + it["tol"]:
                    st["requests_behind_schedule"] += 1
                elif e["yat"] < e["issue"]:
                    st["requests_that_slept_until_schedule"] += 1
                if cfg["sched"] == "deterministic":
                    st["deterministic_gaps"] += 1
            if e["ncalls"]:
                st["poisson_requests"] += 1
            if not e["ok"]:
                st["failed_requests"] += 1
                if e["w"] > 0:
                    st["failed_requests_reporting_a_weight"] += 1
                    if lastw is None and cfg["sched"] != "unthrottled":
                        st["throttled_runs_first_weight_from_a_failed_request"] += 1
            if e["w"] > 0:
                if lastw is not None and lastw != e["w"]:
                    st["weight_changes"] += 1
                lastw = e["w"]
            if e["ty"] == 0:
                st["warmup_requests"] += 1
            if cfg["kind"] == "time" and e["yat"] - t0 < cfg["wt"] <= e["ret"] - t0:
                strad = True
            if e["ext"]:
                st["runs_completed_externally"] += 1
            if e.get("xw") and e["sched"] > 0 and e["yat"] < e["issue"]:
                st["runs_completed_externally_during_a_throttle_wait"] += 1
        if strad:
            st["runs_with_straddling_warmup_request"] += 1
    return st


def run_property(ctx, out, pid, prefix, mc_cfg, selftest, seed_off, n_sim, n_rand, n_edge=0, n_elem=0):
    """mc_cfg: cfg file for leg M; selftest: (cfg file, property expected to be violated, description)."""
    # ---- Leg M
    wd = tlc.prepare_workdir("ClientLoop", pid.lower() + "mc")
    res = tlc.run_tlc(wd, "MC_ClientLoop", mc_cfg, workers=8, timeout=600 if ctx.quick else 2400, allow_violation=True)
    out.add_tlc(res)
    if not res.ok:
        raise tlc.MachineryError(
            "model violates %s in %s (model and code are supposed to agree on the unchanged tree): %s"
            % (res.invariant_violated or res.property_violated, mc_cfg, res.out[-1500:])
        )
    out.note("leg M %s: %d distinct states, depth %d, %.1fs" % (mc_cfg, res.distinct, res.depth, res.wall_s))
    out.exhaustive = False
    # self-test of the model: a variant with the breakage the property is about must violate the property in the model
    wd = tlc.prepare_workdir("ClientLoop", pid.lower() + "self")
    res = tlc.run_tlc(wd, "MC_ClientLoop", selftest[0], workers=4, timeout=600, allow_violation=True)
    if res.property_violated != selftest[1]:
        raise tlc.MachineryError("self-test failed: %s does not violate %s (got %r)" % (selftest[0], selftest[1], res.property_violated or res.invariant_violated))
    out.extra["model_selftest"] = selftest[2]
    # ---- Leg S2C (+ C2S): TLC behaviours executed on the real code
    sim = behaviours_from_tlc(ctx, out, "ClientLoop.sim.cfg", n_sim, 150, seed_off)
    seen_actions = set()
    for c in sim:
        seen_actions.update(c.pop("actions", ()))
    other = set()
    items, infos = run_cases(sim, out, "sim", prefix, other)
    out.note("leg S2C: %d TLC behaviours (%d complete) executed on the real code, %d requests" % (len(sim), sum(1 for c in sim if c["complete"]), sum(i["requests"] for i in infos)))
    all_items = list(items)
    if sim:
        k = max(range(len(sim)), key=lambda i: len(sim[i]["script"]) * (2 if sim[i]["cfg"]["sched"] != "unthrottled" else 1))
        out.sample({"source": "tlc-simulate", "cfg": sim[k]["cfg"], "t0": sim[k]["t0"], "script": sim[k]["script"][:4], "recorded_requests": items[k]["events"][:3], "end": items[k]["end"]})
    # ---- Leg C2S: seeded random runs not derived from TLC
    rnd = _random_mod.Random(ctx.seed * 7919 + seed_off)
    dy = [random_case(rnd, True) for _ in range(n_rand)]
    items, infos = run_cases(dy, out, "dyadic", prefix, other)
    all_items += items
    out.sample({"source": "random-dyadic", "cfg": dy[0]["cfg"], "script": dy[0]["script"][:3], "recorded_requests": items[0]["events"][:2]})
    ap = [random_case(rnd, False) for _ in range(n_rand)]
    items, infos = run_cases(ap, out, "approx", prefix, other)
    all_items += items
    out.sample({"source": "random-approx (ms, non-dyadic: L1 with tolerance 3 ms, no L2)", "cfg": ap[0]["cfg"], "script": ap[0]["script"][:3], "recorded_requests": items[0]["events"][:2]})
    if n_edge:
        ed = [edge_case(rnd) for _ in range(n_edge)]
        items, infos = run_cases(ed, out, "edge", prefix, other)
        all_items += items
        out.sample({"source": "random-edge (1/1024 s or 1/2048 s ticks, client back within the last ticks before its schedule)", "cfg": ed[0]["cfg"], "script": ed[0]["script"][:3], "recorded_requests": items[0]["events"][:3]})
    if n_elem:
        el = [random_element_case(rnd) for _ in range(n_elem)]
        items, infos = run_cases(el, out, "elem", prefix, other)
        all_items += items
        out.sample({"source": "random-element (real Allocator -> ClientAllocations -> AsyncIoAdapter)", "element": {k: el[0][k] for k in ("tps", "t0", "cap", "ramp", "tasks")}, "first_run": {"elem": items[0]["elem"], "cfg": items[0]["cfg"], "recorded_requests": items[0]["events"][:2]}})
        out.note("leg C2S (element): %d schedule elements allocated by the real Allocator and run by the real AsyncIoAdapter: %d client runs" % (len(el), len(items)))
    out.note("leg C2S: %d recorded runs accepted by TLC (L1 clauses %s*, and L2 on tick-exact runs)" % (out.traces_validated, prefix))
    if other:
        out.note("clauses of the sibling property failed on some run (reported by its own check): %s" % sorted(other))
    cov = coverage_stats(all_items)
    out.extra["exercised"] = cov
    missing = [a for a in REQUIRED_ACTIONS if a not in seen_actions]
    if missing:
        out.vacuous.append("actions never taken by a simulated behaviour: %s" % missing)
    return cov
