"""C13 helper: turn an abstract team description (the `inp` record of specs/Team/Team.tla) into a REAL team directory and a
stub distribution archive, run the real esrally code on it (team.load_car, ElasticsearchInstaller, BareProvisioner.prepare,
provisioner.cleanup) and project what happened back to the vocabulary of the specification.

Vocabulary (JSON as handed to TLC):
  VAL   = {"l": bool, "v": [str, ...]}                 a variable value; scalar "x" = {"l": false, "v": ["x"]}, list = {"l": true, ...}
  FILE  = {"path": [dir, ..., name], "kind": "text"|"binary", "cid": str}
  inp   = {"cars": [{"name","kind","bases":[..],"vars":{k:VAL}}],        the car names given on the command line, in order
           "bases": {name: {"vars": {k:VAL}, "tree": [FILE]}},
           "params": {k:VAL}, "tpl": {cid: [referenced variable names]}, "shipped": [FILE], "preserve": bool,
           "node": {"vars": {k:VAL}, "default_data": str, "watch": [{"p": token, "inHome": bool, "pre": bool}]}}
  out   = {"err", "names", "paths", "vars", "final": {"captured", "vars"}, "tree": [{"path", "content": [SEG]}],
           "dataPaths", "home", "after": {"exists": {token: bool}, "same": bool},
           "more": [{"err", "final", "tree", "dataPaths", "home", "homeExists"}]   2nd, 3rd ... node provisioned from the SAME Car
           "varsAfter": {k: VAL}}                                                  Car.variables after all nodes were provisioned
  inp additionally has "more": [{"vars", "default_data", "home"}], the node records of those further nodes ($NODE2, $ES2, ...)
  SEG   = {"t": cid, "vals": [[str, ...], ...]}         one rendering of a template (values of the referenced variables) or a blob

Strings that are absolute paths are tokenised ($ES installation home, $NODE node root, $DATA external data root, $CARS cars
directory) so that cases do not depend on the scratch location.
"""
import hashlib
import io as _io
import os
import random
import re
import shutil
import tarfile

ES_DIR = "elasticsearch-9.9.9"
OPEN, CLOSE = "⟦", "⟧"  # delimiters around rendered values (non-ASCII on purpose: files are written as UTF-8)

BLOBS = {
    "B1": b"\x00\x01binary-one\n\x00",
    "B2": b"PK\x03\x04second blob\r\n",
    "B3": b"\xff\xfe\x80\x81 not utf-8 \xc3\x28 {{x}} \n",  # invalid UTF-8 and something that looks like a template
    "B4": b"#!/bin/sh\nexit 0\n",
}
_BLOB_BY_SHA = {hashlib.sha1(v).hexdigest(): k for k, v in BLOBS.items()}
# text templates that render to nothing whatever the variables are (`Blank` of specs/Team/Team.tla): one conditional block on a
# name nobody defines, a loop over an empty default list, an intentionally empty file. Their rendering is an empty line.
BLANK = {
    "E1": "{%- if verif_nobody_defines_this is defined %}\nE1:{{verif_nobody_defines_this}}\n{%- endif %}",
    "E2": "{% for r in verif_no_such_list | default([]) %}{{r}}:\n  cluster: [all]\n{% endfor %}",
    "E3": "",
}

# BareProvisioner.prepare / DockerProvisioner.prepare require them (mandatory_var)
AMBIENT = {"runtime.jdk": "17", "runtime.jdk.bundled": "true", "docker_image": "docker.elastic.co/elasticsearch/elasticsearch"}
DOCKER_HOME = "/usr/share/elasticsearch"


def S(x):
    return {"l": False, "v": [str(x)]}


def L(xs):
    return {"l": True, "v": [str(x) for x in xs]}


# ---------------------------------------------------------------------------------------------------
# materialisation
# ---------------------------------------------------------------------------------------------------
class Layout:
    def __init__(self, root, nodes=1):
        self.root = root
        self.team = os.path.join(root, "team")
        self.cars = os.path.join(self.team, "cars", "v1")
        self.race = os.path.join(root, "races", "r1")
        self.node = os.path.join(self.race, "rally-node")
        self.data = os.path.join(root, "ext-data")
        self.es = os.path.join(self.node, "install", ES_DIR)
        self.tokens = [(self.es, "$ES"), (self.node, "$NODE"), (self.data, "$DATA"), (self.cars, "$CARS"), (self.root, "$ROOT")]
        # further nodes on the same host, provisioned from the same Car (mechanic.create: <race root>/<node name>): $NODE2, $ES2, ...
        self.node_roots = [self.node]
        self.es_homes = [self.es]
        for j in range(2, nodes + 1):
            nr = os.path.join(self.race, "rally-node-%d" % j)
            self.node_roots.append(nr)
            self.es_homes.append(os.path.join(nr, "install", ES_DIR))
            self.tokens += [(self.es_homes[-1], "$ES%d" % j), (nr, "$NODE%d" % j)]
        # the node provisioned with the Docker provisioner from the same car: provisioner.docker(cfg, car, ip, port, <race root>, name)
        self.dnode_name = "rally-docker"
        self.dnode = os.path.join(self.race, self.dnode_name)
        self.tokens.append((self.dnode, "$DNODE"))
        # longest / most specific first
        self.tokens.sort(key=lambda t: -len(t[0]))

    def real(self, s):
        for path, tok in self.tokens:
            # "$ES/data" is below the ES home, "$ES-data" / "$ES.data0" are SIBLINGS whose name starts with the name of the ES home
            if s.startswith(tok) and (len(s) == len(tok) or not s[len(tok)].isalnum()):
                return path + s[len(tok) :]
        return s

    def tok(self, s):
        for path, tok in self.tokens:
            s = s.replace(path, tok)
        return s


def template_text(cid, refs):
    parts = [cid + ":"]
    for n in refs:
        expr = "data_paths|join('|')" if n == "data_paths" else n
        parts.append("%s=%s{{%s}}%s;" % (n, OPEN, expr, CLOSE))
    return "".join(parts)


_LINE = re.compile(r"^([A-Za-z0-9_]+):((?:[A-Za-z0-9_]+=%s[^%s]*%s;)*)$" % (OPEN, CLOSE, CLOSE))
_VAL = re.compile(r"=%s([^%s]*)%s;" % (OPEN, CLOSE, CLOSE))


def project_content(data, lay):
    """bytes of a file of the installation -> list of SEG."""
    sha = hashlib.sha1(data).hexdigest()
    if sha in _BLOB_BY_SHA:
        return [{"t": _BLOB_BY_SHA[sha], "vals": []}]
    try:
        text = data.decode("utf-8")
    except UnicodeDecodeError:
        return [{"t": "raw:" + sha[:10], "vals": []}]
    lines = text.split("\n")
    if lines and lines[-1] == "":
        lines.pop()
    else:
        # no final newline: keep the fact visible
        lines.append("raw:unterminated")
    segs = []
    for ln in lines:
        m = _LINE.match(ln)
        if ln == "":
            # an empty line: the rendering of a template that renders to nothing (t = "" in the specification)
            segs.append({"t": "", "vals": []})
            continue
        if not m:
            segs.append({"t": "raw:" + hashlib.sha1(ln.encode("utf-8")).hexdigest()[:10], "vals": []})
            continue
        vals = [[lay.tok(x) for x in v.split("|")] for v in _VAL.findall(m.group(2))]
        segs.append({"t": m.group(1), "vals": vals})
    return segs


def _ini_value(val, lay):
    if val["l"] or len(val["v"]) != 1:
        raise ValueError("only scalar values can be written to an ini file: %r" % (val,))
    return lay.real(val["v"][0])


def _write_ini(path, sections, rnd):
    """sections: list of (name, dict or None). None = omit the section."""
    lines = []
    if rnd.random() < 0.3:
        lines.append("# generated")
    for name, kv in sections:
        if kv is None:
            continue
        lines.append("[%s]" % name)
        for k, v in kv.items():
            sep = rnd.choice(["=", " = ", ": "])
            lines.append("%s%s%s" % (k, sep, v))
        if rnd.random() < 0.5:
            lines.append("")
    with open(path, "w", encoding="utf-8") as f:
        f.write("\n".join(lines) + ("\n" if rnd.random() < 0.7 else ""))


def _file_bytes(f, inp, rnd):
    if f["kind"] == "binary":
        return BLOBS[f["cid"]]
    if f["cid"] in BLANK:
        return (BLANK[f["cid"]] + ("\n" if rnd.random() < 0.7 else "")).encode("utf-8")
    refs = inp["tpl"].get(f["cid"])
    if refs is None:
        raise ValueError("no template for %s" % f["cid"])
    return (template_text(f["cid"], refs) + ("\n" if rnd.random() < 0.7 else "")).encode("utf-8")


def _shipped_bytes(f):
    if f["kind"] == "binary":
        return BLOBS[f["cid"]]
    return (f["cid"] + ":\n").encode("utf-8")


_archives = {}


def build_archive(adir, shipped):
    """Stub distribution: elasticsearch-9.9.9/{config/, <shipped files>} as tar.gz; cached per content."""
    key = hashlib.sha1(repr(sorted((tuple(f["path"]), f["kind"], f["cid"]) for f in shipped)).encode()).hexdigest()[:16]
    path = os.path.join(adir, "elasticsearch-9.9.9-%s.tar.gz" % key)
    if _archives.get(key) == path and os.path.exists(path):
        return path
    os.makedirs(adir, exist_ok=True)
    with tarfile.open(path, "w:gz") as tf:
        seen = set()

        def add_dir(rel):
            if rel in seen:
                return
            seen.add(rel)
            ti = tarfile.TarInfo(rel)
            ti.type = tarfile.DIRTYPE
            ti.mode = 0o755
            tf.addfile(ti)

        add_dir(ES_DIR)
        add_dir(ES_DIR + "/config")
        for f in sorted(shipped, key=lambda x: x["path"]):
            for i in range(1, len(f["path"])):
                add_dir(ES_DIR + "/" + "/".join(f["path"][:i]))
            data = _shipped_bytes(f)
            ti = tarfile.TarInfo(ES_DIR + "/" + "/".join(f["path"]))
            ti.size = len(data)
            ti.mode = 0o755 if f["path"][0] == "bin" else 0o644
            tf.addfile(ti, _io.BytesIO(data))
    _archives[key] = path
    return path


def materialise(lay, inp, mat):
    """Creates the team directory below lay.root. mat: {"seed": int, ...} drives everything the model does not see."""
    rnd = random.Random(mat.get("seed", 0))
    shutil.rmtree(lay.root, ignore_errors=True)
    os.makedirs(lay.cars)
    written = {}
    for c in inp["cars"]:
        if c["name"] in written:
            if written[c["name"]] != c:
                raise ValueError("car %s named twice with different definitions" % c["name"])
            continue
        written[c["name"]] = c
        if c["bases"]:
            cfg = {"base": ",".join(c["bases"])}
        else:
            cfg = rnd.choice([None, {}, {"base": ""}])
        variables = {k: _ini_value(v, lay) for k, v in c["vars"].items()}
        _write_ini(
            os.path.join(lay.cars, c["name"] + ".ini"),
            [
                ("meta", {"type": c["kind"], "description": "generated %s" % c["name"]} if rnd.random() < 0.8 else {"type": c["kind"]}),
                ("config", cfg),
                ("variables", variables if variables or rnd.random() < 0.5 else None),
            ],
            rnd,
        )
    for b, bd in inp["bases"].items():
        bdir = os.path.join(lay.cars, b)
        os.makedirs(bdir)
        variables = {k: _ini_value(v, lay) for k, v in bd["vars"].items()}
        if variables or rnd.random() < 0.5:
            _write_ini(os.path.join(bdir, "config.ini"), [("variables", variables if variables or rnd.random() < 0.5 else None)], rnd)
        if bd["tree"] or rnd.random() < 0.5:
            os.makedirs(os.path.join(bdir, "templates"))
        for f in bd["tree"]:
            p = os.path.join(bdir, "templates", *f["path"])
            os.makedirs(os.path.dirname(p), exist_ok=True)
            with open(p, "wb") as fh:
                fh.write(_file_bytes(f, inp, rnd))
        if rnd.random() < 0.2:
            # an empty directory in the template tree
            os.makedirs(os.path.join(bdir, "templates", "config", "empty.d"), exist_ok=True)
    # noise that must not matter: a car and a config base nobody asked for
    if mat.get("noise", True):
        if "zz_unused" not in written:
            _write_ini(
                os.path.join(lay.cars, "zz_unused.ini"),
                [("meta", {"type": "car"}), ("config", {"base": "zz_unused_base"}), ("variables", {"x": "noise", "http_port": "1", "data_paths": "/nonexistent/noise"})],
                rnd,
            )
        if "zz_unused_base" not in inp["bases"]:
            bdir = os.path.join(lay.cars, "zz_unused_base", "templates", "config")
            os.makedirs(bdir)
            with open(os.path.join(bdir, "noise.yml"), "w", encoding="utf-8") as fh:
                fh.write("noise: {{x}}\n")
            _write_ini(os.path.join(lay.cars, "zz_unused_base", "config.ini"), [("variables", {"x": "noise", "y": "noise"})], rnd)


def node_args(mat):
    """Start arguments of every node provisioned on this host from the one composed car ([0] = first node)."""
    rnd = random.Random(mat.get("seed", 0) * 7919 + 13)
    n = rnd.randint(1, 3)
    ips = ["10.%d.%d.%d" % (rnd.randint(0, 255), rnd.randint(0, 255), rnd.randint(1, 254)) for _ in range(n)]
    names = ["rally-node-%d" % i for i in range(n)]
    me = rnd.randrange(n)
    cluster = rnd.choice(["rally-benchmark", "verif-cluster"])
    port = rnd.choice([9200, 39200, 19200 + rnd.randint(0, 99)])
    local = [(names[me], port)]
    for j in range(2, int(mat.get("nodes", 1)) + 1):
        # as mechanic.create: same host ip, same lists of all nodes, another node name (and, here, another port)
        names.append("rally-node-h%d" % j)
        ips.append(ips[me])
        local.append((names[-1], port + j - 1))
    return [
        {"node_name": nm, "cluster_name": cluster, "ip": ips[me], "http_port": pt, "all_node_ips": list(ips), "all_node_names": list(names)}
        for nm, pt in local
    ]


def _node_vars(a, suffix):
    return {
        "cluster_name": S(a["cluster_name"]),
        "node_name": S(a["node_name"]),
        "log_path": S("$NODE%s/logs/server" % suffix),
        "heap_dump_path": S("$NODE%s/heapdump" % suffix),
        "node_ip": S(a["ip"]),
        "network_host": S(a["ip"]),
        "http_port": S(a["http_port"]),
        "transport_port": S(a["http_port"] + 100),
        "all_node_ips": S("[" + ",".join('"%s"' % x for x in a["all_node_ips"]) + "]"),
        "all_node_names": S("[" + ",".join('"%s"' % x for x in a["all_node_names"]) + "]"),
        "minimum_master_nodes": S(len(a["all_node_ips"])),
        "install_root_path": S("$ES%s" % suffix),
        "cluster_settings": S("{}"),
    }


def node_record(inp, mat):
    """What Rally's own node variables have to be, given the arguments Rally is started with (the documented derivation)."""
    a = node_args(mat)[0]
    nv = _node_vars(a, "")
    toks = set()

    def scan(vm):
        for k, v in vm.items():
            for s in v["v"]:
                # every directory some source proposes as a data path (wherever it is: on another root, inside the installation,
                # next to it, ...) is watched, whether or not that source wins
                if s.startswith("$DATA/") or (k == "data_paths" and s.startswith("$") and s != "$ES"):
                    toks.add(s)

    for c in inp["cars"]:
        scan(c["vars"])
    for bd in inp["bases"].values():
        scan(bd["vars"])
    scan(inp["params"])
    toks.discard("$ES/data")
    # inHome: below the ES home directory (path containment); pre: the path STRING starts with the ES home path
    watch = [{"p": "$ES", "inHome": True, "pre": True, "stuck": False}, {"p": "$ES/data", "inHome": True, "pre": True, "stuck": False}]
    watch += [{"p": t, "inHome": t.startswith("$ES/"), "pre": t.startswith("$ES"), "stuck": False} for t in sorted(toks)]
    # in a third of the cases one candidate data directory on another root cannot be deleted when the node is cleaned up (it has
    # been replaced by a plain file: rmtree raises OSError); the choice depends on the case only
    ext = [w for w in watch if not w["pre"]]
    if ext:
        import hashlib

        h = int(hashlib.sha1(repr(sorted(toks)).encode("utf-8") + repr(sorted(inp["params"])).encode("utf-8")).hexdigest(), 16)
        if h % 3 == 0:
            ext[(h // 3) % len(ext)]["stuck"] = True
    return {"vars": nv, "default_data": "$ES/data", "home": "$ES", "watch": watch}


def more_records(mat):
    """Node records of the 2nd, 3rd ... node provisioned from the same car."""
    res = []
    for j, a in enumerate(node_args(mat)[1:], start=2):
        res.append({"vars": _node_vars(a, str(j)), "default_data": "$ES%d/data" % j, "home": "$ES%d" % j})
    return res


def docker_record(mat):
    """Rally's own node variables of a Docker-provisioned node (DockerProvisioner: the container's view) and what the compose
    file has to say, given the start arguments."""
    a = node_args(mat)[0]
    nv = {
        "cluster_name": S(a["cluster_name"]),
        "node_name": S("rally-docker"),
        "install_root_path": S(DOCKER_HOME),
        "data_paths": L([DOCKER_HOME + "/data"]),
        "log_path": S("/var/log/elasticsearch"),
        "heap_dump_path": S(DOCKER_HOME + "/heapdump"),
        "network_host": S("0.0.0.0"),
        "discovery_type": S("single-node"),
        "http_port": S(a["http_port"]),
        "transport_port": S(a["http_port"] + 100),
        "cluster_settings": S("{}"),
    }
    return {
        "vars": nv,
        "home": "$DNODE/install",
        "es_version": "9.9.9",
        "node_ip": a["ip"],
        "http_port": str(a["http_port"]),
        "volumes": [["$DNODE/data/UUID", DOCKER_HOME + "/data"], ["$DNODE/logs/server", "/var/log/elasticsearch"], ["$DNODE/heapdump", DOCKER_HOME + "/heapdump"]],
    }


def complete(inp, mat):
    """Adds what every real run needs (mandatory variables in every config base, bin/ in the archive, Rally's node record)."""
    inp = {
        "cars": [dict(c, bases=list(c["bases"]), vars=dict(c["vars"])) for c in inp["cars"]],
        "bases": {b: {"vars": dict(bd["vars"]), "tree": [dict(f, path=list(f["path"])) for f in bd["tree"]]} for b, bd in inp["bases"].items()},
        "params": dict(inp["params"]),
        "tpl": {k: list(v) for k, v in inp["tpl"].items()},
        "shipped": [dict(f, path=list(f["path"])) for f in inp["shipped"]],
        "preserve": bool(inp["preserve"]),
    }
    for bd in inp["bases"].values():
        for k, v in AMBIENT.items():
            bd["vars"].setdefault(k, S(v))
    if not any(f["path"] == ["bin", "elasticsearch"] for f in inp["shipped"]):
        inp["shipped"].append({"path": ["bin", "elasticsearch"], "kind": "binary", "cid": "B4"})
    inp["node"] = node_record(inp, mat)
    inp["more"] = more_records(mat)
    inp["docker"] = docker_record(mat)
    return inp


# ---------------------------------------------------------------------------------------------------
# execution + projection
# ---------------------------------------------------------------------------------------------------
def _proj_val(v, lay, render=False):
    if isinstance(v, str):
        return S(lay.tok(v))
    if isinstance(v, (list, tuple)) and all(isinstance(x, str) for x in v):
        return L([lay.tok(x) for x in v])
    if render:
        return S(lay.tok(str(v)))  # what a template sees
    return S("py:" + lay.tok(repr(v)))


def _snapshot(root):
    snap = {}
    for d, dirs, files in os.walk(root):
        rel = os.path.relpath(d, root)
        snap[rel + "/"] = ""
        for fn in files:
            p = os.path.join(d, fn)
            with open(p, "rb") as fh:
                snap[os.path.join(rel, fn)] = hashlib.sha1(fh.read()).hexdigest()
    return snap


def _tree(lay, es=None):
    es = es or lay.es
    res = []
    if not os.path.isdir(es):
        return res
    for d, dirs, files in os.walk(es):
        dirs.sort()
        for fn in sorted(files):
            p = os.path.join(d, fn)
            rel = os.path.relpath(p, es).split(os.sep)
            with open(p, "rb") as fh:
                res.append({"path": rel, "content": project_content(fh.read(), lay)})
    res.sort(key=lambda e: e["path"])
    return res


EMPTY_OUT = {
    "err": "none",
    "names": [],
    "paths": [],
    "vars": {},
    "final": {"captured": False, "vars": {}},
    "tree": [],
    "dataPaths": [],
    "home": "",
    "after": {"exists": {}, "same": False},
    "more": [],
    "varsAfter": {},
    "docker": None,  # filled below
}
EMPTY_COMPOSE = {"image": "", "version": "", "ports": [], "volumes": [], "mounts": [], "health_port": "", "node_ip": "", "cpu": "-", "mem": "-"}
EMPTY_DOCKER = {"err": "skipped", "final": {"captured": False, "vars": {}}, "tree": [], "compose": EMPTY_COMPOSE, "dataPaths": [], "home": ""}
EMPTY_OUT["docker"] = EMPTY_DOCKER

_UUID = re.compile(r"[0-9a-f]{8}-[0-9a-f]{4}-[0-9a-f]{4}-[0-9a-f]{4}-[0-9a-f]{12}")


def _dtok(lay, s):
    return _UUID.sub("UUID", lay.tok(str(s)))


def project_compose(text, lay):
    """docker-compose.yml as rendered from esrally/resources/docker-compose.yml.j2 -> what it says (no yaml module needed)."""
    c = dict(EMPTY_COMPOSE, ports=[], volumes=[], mounts=[])
    section = None
    vols = []
    for ln in text.splitlines():
        st = ln.strip()
        if st.endswith(":") and not st.startswith("-"):
            section = st[:-1]
            continue
        m = re.match(r'image:\s*"(.*)"$', st)
        if m:
            img, _, ver = m.group(1).rpartition(":")
            c["image"], c["version"] = img, ver
        elif st.startswith("cpu_count:"):
            c["cpu"] = st.split(":", 1)[1].strip()
        elif st.startswith("mem_limit:"):
            c["mem"] = st.split(":", 1)[1].strip()
        elif st.startswith("test: nc -z 127.0.0.1"):
            c["health_port"] = st.split()[-1]
        elif st.startswith("com.docker.network.bridge.host_binding_ipv4:"):
            c["node_ip"] = st.split(":", 1)[1].strip().strip('"')
        elif st.startswith("- ") and section == "ports":
            c["ports"].append(st[2:].strip().split(":"))
        elif st.startswith("- ") and section == "volumes":
            vols.append(st[2:].strip().split(":", 1))
    for v in vols:
        host = _dtok(lay, v[0])
        dock = v[1] if len(v) > 1 else ""
        if host.startswith("$DNODE/install/"):
            rel = host[len("$DNODE/install/") :].split("/")
            d = dock[len(DOCKER_HOME) + 1 :].split("/") if dock.startswith(DOCKER_HOME + "/") else ["?" + dock]
            c["mounts"].append({"p": rel, "d": d})
        else:
            c["volumes"].append([host, dock])
    c["mounts"].sort(key=lambda e: (e["p"], e["d"]))
    return c


def _final(captured, lay):
    if not captured:
        return {"captured": False, "vars": {}}
    fin = {"captured": True, "vars": {str(k): _proj_val(v, lay, render=True) for k, v in captured[0].items()}}
    if any(c != captured[0] for c in captured[1:]):
        fin["vars"]["__inconsistent__"] = S("config variables differ between config bases")
    return fin


def _dps(node_config, lay):
    dps = node_config.data_paths
    return [lay.tok(str(x)) for x in dps] if isinstance(dps, (list, tuple)) else ["py:" + lay.tok(repr(dps))]


def _docker(lay, car, a):
    import copy

    import esrally
    from esrally import config, exceptions
    from esrally.mechanic import provisioner

    r = copy.deepcopy(EMPTY_DOCKER)
    r["err"] = "none"
    try:
        cfg = config.Config()
        cfg.add(config.Scope.application, "mechanic", "distribution.version", "9.9.9")
        cfg.add(config.Scope.application, "mechanic", "cluster.name", a["cluster_name"])
        cfg.add(config.Scope.application, "node", "rally.root", os.path.dirname(os.path.realpath(esrally.__file__)))
        prov = provisioner.docker(cfg, car, a["ip"], a["http_port"], lay.race, lay.dnode_name)
        cv = getattr(prov, "config_vars", None)
        if isinstance(cv, dict):
            r["final"] = {"captured": True, "vars": {str(k): _proj_val(v, lay, render=True) for k, v in cv.items()}}
        nc = prov.prepare({"elasticsearch": None})
    except exceptions.RallyError as e:
        r["err"] = "prepare:" + type(e).__name__
        return r
    except Exception as e:  # pylint: disable=broad-except
        r["err"] = "crash:prepare:" + type(e).__name__
        return r
    home = str(nc.binary_path)
    tree = _tree(lay, home)
    r["tree"] = [e for e in tree if e["path"] != ["docker-compose.yml"]]
    try:
        with open(os.path.join(home, "docker-compose.yml"), "r", encoding="utf-8") as fh:
            r["compose"] = project_compose(fh.read(), lay)
    except OSError:
        r["err"] = "no-compose-file"
    dps = nc.data_paths
    r["dataPaths"] = [_dtok(lay, x) for x in dps] if isinstance(dps, (list, tuple)) else ["py:" + _dtok(lay, repr(dps))]
    r["home"] = lay.tok(home)
    return r


def execute(root, inp, mat, archive_dir):
    """Runs the real code on the materialised team. inp must be complete()."""
    import copy

    from esrally import exceptions
    from esrally.mechanic import provisioner, team
    from esrally.utils import console

    console.init(quiet=True)
    args = node_args(mat)
    lay = Layout(root, nodes=len(args))
    materialise(lay, inp, mat)
    archive = build_archive(archive_dir, inp["shipped"])
    out = copy.deepcopy(EMPTY_OUT)
    names = [c["name"] for c in inp["cars"]]
    params = {}
    for k, v in inp["params"].items():
        params[k] = [lay.real(x) for x in v["v"]] if v["l"] else lay.real(v["v"][0])
    try:
        car = team.load_car(lay.team, names, params if params or mat.get("seed", 0) % 2 else None)
    except exceptions.RallyError as e:
        out["err"] = type(e).__name__
        return out
    except Exception as e:  # pylint: disable=broad-except
        out["err"] = "crash:load_car:" + type(e).__name__
        return out
    cn = car.names
    out["names"] = [cn] if isinstance(cn, str) else [str(x) for x in cn]
    for p in car.config_paths:
        b = None
        for cand in inp["bases"]:
            if p == os.path.join(lay.cars, cand, "templates"):
                b = cand
        out["paths"].append(b if b is not None else "?" + lay.tok(str(p)))
    out["vars"] = {str(k): _proj_val(v, lay) for k, v in car.variables.items()}

    def provision(j):
        """One node from THE car object, as mechanic.create / Mechanic.start_engine do for every node id of the host."""
        a = args[j]
        captured = []
        installer = provisioner.ElasticsearchInstaller(
            car=car,
            java_home=None,
            node_name=a["node_name"],
            cluster_name=a["cluster_name"],
            node_root_dir=lay.node_roots[j],
            all_node_ips=a["all_node_ips"],
            all_node_names=a["all_node_names"],
            ip=a["ip"],
            http_port=a["http_port"],
        )
        prov = provisioner.BareProvisioner(es_installer=installer, plugin_installers=[], distribution_version="9.9.9")
        orig = getattr(prov, "apply_config", None)
        if callable(orig):

            def spy(source_root_path, target_root_path, config_vars):
                captured.append(dict(config_vars))
                return orig(source_root_path, target_root_path, config_vars)

            prov.apply_config = spy
        return prov.prepare({"elasticsearch": archive}), captured

    try:
        node_config, captured = provision(0)
    except exceptions.RallyError as e:
        out["err"] = "prepare:" + type(e).__name__
        return out
    except Exception as e:  # pylint: disable=broad-except
        out["err"] = "crash:prepare:" + type(e).__name__
        return out
    out["final"] = _final(captured, lay)
    out["tree"] = _tree(lay)
    out["dataPaths"] = _dps(node_config, lay)
    out["home"] = lay.tok(str(node_config.binary_path))
    more_cfg = []
    for j in range(1, len(args)):
        r = {"err": "none", "final": {"captured": False, "vars": {}}, "tree": [], "dataPaths": [], "home": "", "homeExists": False}
        try:
            nc, cap = provision(j)
            r["final"] = _final(cap, lay)
            r["tree"] = _tree(lay, lay.es_homes[j])
            r["dataPaths"] = _dps(nc, lay)
            r["home"] = lay.tok(str(nc.binary_path))
            more_cfg.append(nc)
        except exceptions.RallyError as e:
            r["err"] = "prepare:" + type(e).__name__
            more_cfg.append(None)
        except Exception as e:  # pylint: disable=broad-except
            r["err"] = "crash:prepare:" + type(e).__name__
            more_cfg.append(None)
        out["more"].append(r)
    # one more node from the same car, with the Docker provisioner (prepare only renders files; no docker needed)
    out["docker"] = _docker(lay, car, args[0])
    # the composed car after every node has been provisioned from it
    out["varsAfter"] = {str(k): _proj_val(v, lay) for k, v in car.variables.items()}
    # the nodes have run: every candidate data directory, the logs and the installation contain something
    for w in inp["node"]["watch"]:
        rp = lay.real(w["p"])
        if w.get("stuck"):
            # something Rally cannot delete sits where the data directory was (shutil.rmtree raises NotADirectoryError)
            shutil.rmtree(rp, ignore_errors=True)
            os.makedirs(os.path.dirname(rp), exist_ok=True)
            with open(rp, "w", encoding="utf-8") as fh:
                fh.write("not a directory")
        elif w["p"] != "$ES":
            os.makedirs(os.path.join(rp, "nodes", "0"), exist_ok=True)
            with open(os.path.join(rp, "nodes", "0", "node.lock"), "w", encoding="utf-8") as fh:
                fh.write(w["p"])
    # (the tree is only compared when the installation is to be preserved; otherwise `same` is reported as false)
    before = _snapshot(lay.root) if inp["preserve"] else None
    try:
        # as mechanic.stop / NodeMechanicActor.stop_engine do, node after node
        provisioner.cleanup(preserve=inp["preserve"], install_dir=node_config.binary_path, data_paths=node_config.data_paths)
        for nc in more_cfg:
            if nc is not None:
                provisioner.cleanup(preserve=inp["preserve"], install_dir=nc.binary_path, data_paths=nc.data_paths)
    except Exception as e:  # pylint: disable=broad-except
        out["err"] = "crash:cleanup:" + type(e).__name__
    same = False
    if inp["preserve"]:
        # "removes nothing": everything that was there is still there, unchanged
        now = _snapshot(lay.root)
        same = all(now.get(k) == v for k, v in before.items())
    out["after"] = {"exists": {w["p"]: os.path.exists(lay.real(w["p"])) for w in inp["node"]["watch"]}, "same": same}
    for j, r in enumerate(out["more"], start=1):
        r["homeExists"] = os.path.exists(lay.es_homes[j])
    return out
