"""C17 — metrics store calls survive transient faults and never repeat after success (esrally.metrics.EsClient.guarded).

Leg M   : TLC on specs/Guarded: (a) every status / set of bulk item statuses (77 letters) and, separately, every SHAPE of
          the error body (ApiError.body: ES error object, string error, error without type, JSON without error, {}, None,
          str, bytes, list; bulk items: error object / error string) with full history and a small budget, (b) the real
          budget of 10 retries with full history over a reduced alphabet, (c) the real budget over the full alphabet
          (status x shape, 292 letters) with the history hidden by VIEW.  The property clauses and "the transcription
          retries exactly the documented transient classes while retries remain, whatever the body shape" are
          invariants.  Self-tests: a loop allowing one retry more than documented, and the pinned handling of string
          item errors (ItemShapeTolerant = FALSE), violate the property in the model.
Leg S2C : every path of (b), an edge cover (every number of preceding retries x every outcome) for EVERY public operation of
          EsClient, and TLC -simulate behaviours are executed on the REAL EsClient through its public operations
          (bulk_index / index run the real elasticsearch.helpers.bulk, which raises the real BulkIndexError from scripted
          per-item statuses) over a scripted underlying client raising real exception instances; time.sleep and
          random.random are replaced by recorders.
Leg C2S : every recorded execution (S2C ones and seeded random ones not derived from TLC) is validated by TLC against
          TraceGuarded.tla: L1 = clauses of the property, L2 = equals the transcription (exact pauses, exception class,
          message template).
"""
import glob
import inspect
import json
import logging
import os
import random
import re
import time
from unittest import mock

from .. import tlc, tracecheck
from ..core import Violation
from ..fastdump import last_simulation_state, parse_dump

UNIT = 1024  # recorded pauses: 1/1024 s
TRANSIENT_CODES = (429, 502, 503, 504)
API_CODES = [429, 502, 503, 504, 401, 403, 404, 400, 409, 500]
ITEM_CODES = [429, 502, 503, 504, 400, 409]
API_SHAPES = ["es", "errstr", "notype", "noerror", "empty", "none", "str", "bytes", "list"]
ITEM_SHAPES = ["es", "errstr"]
MANY_SHAPES = ["esmany"]  # more than ten failed items per status (bulk_index only)
MANY = 12
N_VARIANTS = 8
_CLASSES = {}


def connection_classes():
    """Concrete classes of connection errors and timeouts that elastic_transport / elasticsearch.exceptions export, discovered on
    every run: {"connError": {name: class}, "connTimeout": {name: class}} (TlsError is re-exported as elasticsearch.exceptions.SSLError)."""
    if _CLASSES:
        return _CLASSES
    import elastic_transport
    import elasticsearch.exceptions

    found = {"connError": {}, "connTimeout": {}}
    for mod in (elastic_transport, elasticsearch.exceptions, elasticsearch):
        for name in dir(mod):
            obj = getattr(mod, name)
            if not isinstance(obj, type):
                continue
            if issubclass(obj, elastic_transport.ConnectionTimeout):
                found["connTimeout"].setdefault(obj.__name__, obj)
            elif issubclass(obj, elastic_transport.ConnectionError):
                found["connError"].setdefault(obj.__name__, obj)
    _CLASSES.update(found)
    return _CLASSES


def _shape(entry):
    """Body shape of a script entry [k, code, items, r, variant(, shape)] (older replay files have no shape: Elasticsearch style)."""
    if len(entry) > 5:
        return entry[5]
    return "es" if entry[0] in ("api", "bulk") else ""


def api_body(shape, code, token):
    """What elasticsearch-py can deliver as ApiError.body (= the deserialised HTTP response body) for an error status."""
    if shape == "es":
        return {"error": {"type": token, "reason": "scripted reason", "root_cause": [{"type": token, "reason": "scripted"}]}, "status": int(code)}
    if shape == "errstr":  # REST-layer errors ("no handler found for uri ..."), legacy servers
        return {"error": token + " no handler found", "status": int(code)}
    if shape == "notype":
        return {"error": {"reason": token + " something went wrong"}, "status": int(code)}
    if shape == "noerror":  # JSON answer of a proxy in front of the store
        return {"ok": False, "message": token + " unknown resource"}
    if shape == "empty":
        return {}
    if shape == "none":  # HEAD requests carry no body
        return None
    if shape == "str":  # text/html or text/plain answer of a load balancer
        return "<html><body><h1>%d %s</h1></body></html>" % (int(code), token)
    if shape == "bytes":
        return ("%d %s" % (int(code), token)).encode("ascii")
    if shape == "list":
        return [{"status": int(code), "msg": token}]
    raise tlc.MachineryError("unknown body shape %r" % (shape,))


def api_message(body):
    """The message elasticsearch's BaseClient.perform_request derives from the response body."""
    message = str(body)
    if isinstance(body, dict):
        error = body.get("error", message)
        if isinstance(error, dict) and "type" in error:
            error = error["type"]
        message = error
    return message


class _Abort(BaseException):
    """Raised by the scripted client when the loop under test runs away."""


# ---------------------------------------------------------------------------------------------------
# scripted underlying client
# ---------------------------------------------------------------------------------------------------
def _meta(status):
    import elastic_transport

    return elastic_transport.ApiResponseMeta(
        status=status, http_version="1.1", headers=elastic_transport.HttpHeaders(), duration=0.0, node=elastic_transport.NodeConfig("https", "metrics.example.org", 9243)
    )


def _api_token(code, n):
    return "verif_api_%d_%d" % (code, n)


def _item_token(code):
    return "verif_item_%d" % code


class Session:
    """One execution: the script, what was observed (calls, sleeps, random draws)."""

    def __init__(self, script):
        self.script = script
        self.cap = min(len(script) + 3, 16)
        self.calls = []
        self.products = []
        self.metas = []  # transport layer: the meta object of every successful answer (None for faults)
        self.ignored = set()  # transport layer: statuses the operation asked the client to ignore
        self.last_r = 0
        self.rnd_stream = 0

    # replaced random.random: the scripted value for the coming invocation (dyadic, < 1)
    def random(self):
        i = len(self.calls)
        r = self.script[i][3] if i < len(self.script) else 0
        self.last_r = r
        return r / float(UNIT)

    # replaced time.sleep
    def sleep(self, seconds):
        if self.calls:
            self.calls[-1]["p"] += int(round(seconds * UNIT))
            self.calls[-1]["ns"] += 1
        else:
            self.pre_sleep = True

    def invoke(self, method, args, kwargs):
        import elastic_transport
        import elasticsearch

        i = len(self.calls)
        if i >= self.cap:
            raise _Abort()
        entry = self.script[i] if i < len(self.script) else ["ok", 0, [], 0, 0, ""]
        k, code, items, _r, var = entry[:5]
        shape = _shape(entry)
        n = i + 1
        self.calls.append({"o": {"k": k, "code": int(code), "items": sorted(items), "shape": shape}, "r": int(self.last_r), "p": 0, "ns": 0})
        self.last_r = 0
        if k == "ok":
            if method == "bulk":
                ops = kwargs.get("operations") or []
                ndocs = max(1, len(ops) // 2)
                prod = elastic_transport.ObjectApiResponse(body={"errors": False, "took": n, "items": [{"index": {"_id": str(j), "status": 201, "result": "created"}} for j in range(ndocs)]}, meta=_meta(200))
            else:
                prod = [{"acknowledged": True, "attempt": n}, True, False, {}, elastic_transport.ObjectApiResponse(body={"hits": {"total": n}}, meta=_meta(200)), None, 0, ["r", n]][var % 8]
            self.products.append(prod)
            return prod
        if k == "bulk":
            if method != "bulk":
                raise tlc.MachineryError("bulk outcome scripted for non-bulk client method %s" % method)
            ops = kwargs.get("operations") or []
            ndocs = len(ops) // 2
            statuses = sorted(items)
            if shape in MANY_SHAPES:
                # more than ten failed items of every status, grouped by status (the order of the groups varies below)
                groups = statuses
                rot = var % len(groups)
                groups = groups[rot:] + groups[:rot]
                if var % 2:
                    groups.reverse()
                statuses = [st for st in groups for _ in range(MANY)]
            if ndocs < len(statuses):
                raise tlc.MachineryError("not enough documents (%d) for item statuses %s" % (ndocs, statuses))
            # the order of the failed items and their position among successful ones vary with the variant
            if shape not in MANY_SHAPES:
                rot = var % len(statuses)
                statuses = statuses[rot:] + statuses[:rot]
                if var % 2:
                    statuses.reverse()
            first = (var // 2) % (ndocs - len(statuses) + 1)
            body_items = []
            for j in range(ndocs):
                if first <= j < first + len(statuses):
                    st = statuses[j - first]
                    if shape == "errstr":  # legacy shape of an item error
                        err = "%s scripted %d" % (_item_token(st), n)
                    else:
                        err = {"type": _item_token(st), "reason": "scripted %d" % n}
                    body_items.append({"index": {"_id": str(j), "status": st, "error": err}})
                else:
                    body_items.append({"index": {"_id": str(j), "status": 201, "result": "created"}})
            prod = elastic_transport.ObjectApiResponse(body={"errors": True, "took": n, "items": body_items}, meta=_meta(200))
            self.products.append(prod)
            return prod  # the real elasticsearch.helpers.bulk turns this into BulkIndexError
        if k in ("connTimeout", "connError") and shape:
            # the concrete class is part of the outcome; the variant decides whether the transport attached the low-level error
            import ssl

            cls = connection_classes()[k].get(shape)
            if cls is None:
                raise tlc.MachineryError("unknown %s class %r" % (k, shape))
            inner = ssl.SSLError(1, "[SSL] record layer failure (_ssl.c:1000)") if shape == "TlsError" else TimeoutError("inner") if k == "connTimeout" else ConnectionResetError(104, "reset by peer")
            prod = cls("verif_%s_%d" % (k, n), errors=(inner,)) if var % 2 else cls("verif_%s_%d" % (k, n))
        elif k == "connTimeout":
            prod = [elasticsearch.ConnectionTimeout("verif_timeout_%d" % n), elastic_transport.ConnectionTimeout("verif_timeout_%d" % n, errors=(TimeoutError("inner"),))][var % 2]
        elif k == "connError":
            prod = [elasticsearch.ConnectionError("verif_conn_%d" % n), elastic_transport.TlsError("verif_tls_%d" % n), elasticsearch.ConnectionError("verif_conn_%d" % n, errors=(OSError("refused"),))][var % 3]
        elif k == "api":
            cls = elasticsearch.exceptions.HTTP_EXCEPTIONS.get(int(code), elasticsearch.ApiError)
            body = api_body(shape, code, _api_token(code, n))
            prod = cls(message=api_message(body), meta=_meta(int(code)), body=body)
        elif k == "transportOther":
            prod = [
                elastic_transport.SerializationError("verif_transport_%d" % n),
                elastic_transport.TransportError("verif_transport_%d" % n),
                elastic_transport.TransportError("verif_transport_%d" % n, errors=(ValueError("verif_inner_%d" % n),)),
                elastic_transport.SniffingError("verif_transport_%d" % n),
            ][var % 4]
        else:
            raise tlc.MachineryError("unknown outcome kind %r" % (k,))
        self.products.append(prod)
        raise prod


class _NotAFault(BaseException):
    """HEAD answered with 404: the documented answer 'does not exist', not one of the fault classes of the property."""


def _transport_request(session):
    """Replacement for elastic_transport.Transport.perform_request under the REAL esrally.client RallySyncElasticsearch (transport
    layer): answers from the session's script with a status and a body (the client itself turns a status into an exception) or
    raises the scripted connection / transport error."""
    import collections

    import elastic_transport
    import elasticsearch

    # what Transport.perform_request returns (a named tuple; not exported by elastic_transport 8.4)
    response = collections.namedtuple("TransportApiResponse", "meta body")

    def perform_request(method, target, *, headers=None, body=None, **_kwargs):
        if method == "GET" and target == "/":  # the client's product check, not an attempt of the operation
            meta = elastic_transport.ApiResponseMeta(
                status=200, http_version="1.1", headers=elastic_transport.HttpHeaders({"x-elastic-product": "Elasticsearch"}), duration=0.0,
                node=elastic_transport.NodeConfig("https", "metrics.example.org", 9243),
            )  # fmt: skip
            return response(meta, {"version": {"number": "8.6.1", "build_flavor": "default"}, "tagline": "You Know, for Search"})
        i = len(session.calls)
        entry = session.script[i] if i < len(session.script) else ["ok", 0, [], 0, 0, ""]
        k, code = entry[0], entry[1]
        if k == "api" and i < session.cap:
            if (method == "HEAD" and int(code) == 404) or int(code) in session.ignored:
                raise _NotAFault()
            shape = _shape(entry)
            n = i + 1
            session.calls.append({"o": {"k": k, "code": int(code), "items": sorted(entry[2]), "shape": shape}, "r": int(session.last_r), "p": 0, "ns": 0})
            session.last_r = 0
            b = api_body(shape, code, _api_token(code, n))
            meta = _meta(int(code))
            cls = elasticsearch.exceptions.HTTP_EXCEPTIONS.get(int(code), elasticsearch.ApiError)
            session.products.append(cls(message=api_message(b), meta=meta, body=b))  # what a correct client raises (for 'names the cause')
            session.metas.append(None)
            return response(meta, b)
        is_bulk = "_bulk" in target
        try:
            prod = session.invoke("bulk" if is_bulk else "other", (), {"operations": body} if is_bulk else {})
        except BaseException:
            session.metas.append(None)
            raise
        meta = _meta(200)
        session.metas.append(meta)
        out = prod.body if is_bulk else {"acknowledged": True, "attempt": i + 1}
        return response(meta, None if method == "HEAD" else out)

    return perform_request


def real_client(session):
    """The client the metrics store really uses (esrally.client.EsClientFactory.create()) over the scripted transport."""
    from esrally.client import factory

    es = factory.EsClientFactory(
        hosts=[{"host": "metrics.example.org", "port": 9243}], client_options={"timeout": 120}, distribution_version="8.6.1", distribution_flavor="default"
    ).create()
    es.transport.perform_request = _transport_request(session)
    return es


def _recording_options(session):
    """RallySyncElasticsearch.options wrapped: a status the OPERATION asks the client to ignore (delete: 404, create_index: 400) is an
    answer for that operation, not a fault."""
    from esrally.client import synchronous

    original = synchronous.RallySyncElasticsearch.options

    def options(self, **kwargs):
        ign = kwargs.get("ignore_status")
        if ign is not None and not (hasattr(ign, "__class__") and ign.__class__.__name__ == "DefaultType"):
            session.ignored.update([ign] if isinstance(ign, int) else list(ign))
        return original(self, **kwargs)

    return mock.patch.object(synchronous.RallySyncElasticsearch, "options", options)


def _scripted_function(session, name):
    def fn(*args, **kwargs):
        return session.invoke(name, args, kwargs)

    fn.__name__ = name
    fn.__qualname__ = name
    return fn


class _Namespace:
    def __init__(self, session):
        self._session = session

    def __getattr__(self, name):
        if name.startswith("_"):
            raise AttributeError(name)
        return _scripted_function(self._session, name)


class _NodePool:
    def get(self):
        import elastic_transport

        return elastic_transport.NodeConfig("https", "metrics.example.org", 9243)


class _Transport:
    _serializers = None

    def __init__(self):
        import elastic_transport
        from elasticsearch.serializer import DEFAULT_SERIALIZERS

        if _Transport._serializers is None:
            _Transport._serializers = elastic_transport.SerializerCollection(DEFAULT_SERIALIZERS)
        self.node_pool = _NodePool()
        self.serializers = _Transport._serializers


class FakeClient(_Namespace):
    """Every API method (also of .indices, .cluster, ...) is routed to the session's script."""

    def __init__(self, session):
        super().__init__(session)
        self.transport = _Transport()
        self.indices = _Namespace(session)
        self.cluster = _Namespace(session)
        self._client_meta = ()

    def options(self, **kwargs):
        return self


# ---------------------------------------------------------------------------------------------------
# public operations of EsClient
# ---------------------------------------------------------------------------------------------------
_ARGS = {
    "name": "rally-metrics",
    "index": "rally-metrics-2026-09",
    "template": json.dumps({"index_patterns": ["rally-metrics-*"], "template": {"settings": {"index": {"number_of_shards": 1}}}}),
    "body": {"query": {"match_all": {}}},
    "id": "race-1",
}


def public_operations():
    """name -> kind, discovered from the real class on every run (guarded itself is exercised directly as 'guarded')."""
    from esrally import metrics

    ops = {}
    for name, member in inspect.getmembers(metrics.EsClient, predicate=inspect.isfunction):
        if name.startswith("_") or name == "guarded":
            continue
        params = list(inspect.signature(member).parameters)[1:]
        ops[name] = "bulk" if "items" in params else "bulk1" if "item" in params else "plain"
    ops["guarded"] = "plain"
    return ops


def _call_operation(es_client, session, op, kind, ndocs):
    from esrally import metrics

    if op == "guarded":
        target = _scripted_function(session, "custom_target")
        return es_client.guarded(target, "positional", 7, keyword="kw")
    member = getattr(metrics.EsClient, op)
    kwargs = {}
    for pname, prm in list(inspect.signature(member).parameters.items())[1:]:
        if pname == "items":
            kwargs[pname] = [{"_source": {"name": "latency", "value": j}} for j in range(ndocs)]
        elif pname == "item":
            kwargs[pname] = {"name": "latency", "value": 1}
        elif pname in _ARGS:
            if pname == "id" and kind == "bulk1" and ndocs % 2 == 0:
                continue
            kwargs[pname] = _ARGS[pname]
        elif prm.default is inspect.Parameter.empty:
            kwargs[pname] = "x"
    return getattr(es_client, op)(**kwargs)


_MSG_CLASSES = [
    ("timeout", r"^A connection timeout occurred while running the operation \["),
    ("connect", r"^Could not connect to your Elasticsearch metrics store"),
    ("authn", r"could not authenticate against your Elasticsearch metrics store"),
    ("authz", r"does not have enough privileges to run the operation \["),
    ("bulk-unretryable", r"^Unretryable error encountered when sending metrics to remote metrics store: \["),
    ("bulk-exhausted", r"^Failed to send metrics to remote metrics store: \["),
    ("api", r"^An error \[.*\] occurred while running the operation \["),
    ("transport", r"^Transport error\(s\) \[.*\] occurred while running the operation \["),
]


def _names_cause(o, product, msg):
    """Does the message of the surfaced error name the cause (the class of the fault or its specific error type / status)?"""
    low = msg.lower()
    k = o["k"]
    if k == "connTimeout":
        return re.search(r"time(d)?[ -]?out", low) is not None
    if k == "connError":
        return "connect" in low
    if k == "api":
        code = o["code"]
        if code == 401:
            return re.search(r"authenticat|credential|password|\b401\b", low) is not None
        if code == 403:
            return re.search(r"privilege|authoriz|permission|forbidden|\b403\b", low) is not None
        return str(getattr(product, "message", "\0")) in msg or re.search(r"\b%d\b" % code, msg) is not None
    if k == "transportOther":
        toks = [str(getattr(product, "message", "\0")), type(product).__name__] + [str(e) for e in getattr(product, "errors", ())]
        return any(t and t in msg for t in toks)
    if k == "bulk":
        bad = [c for c in o["items"] if c not in TRANSIENT_CODES]
        codes = bad or o["items"]
        return any(_item_token(c) in msg or re.search(r"\b%d\b" % c, msg) is not None for c in codes)
    return False


def execute(case):
    """case: {src, op, kind, script [[k, code, items, r, variant], ...], ndocs}.  Returns the item for TraceGuarded.tla."""
    from esrally import exceptions, metrics

    session = Session(case["script"])
    transport_layer = case.get("layer") == "transport"
    fake = real_client(session) if transport_layer else FakeClient(session)
    es_client = metrics.EsClient(fake)
    kind = case["kind"]
    ndocs = case.get("ndocs", 1)
    import contextlib

    with mock.patch.object(time, "sleep", session.sleep), mock.patch.object(random, "random", session.random), (_recording_options(session) if transport_layer else contextlib.nullcontext()):
        try:
            res = ("returned", _call_operation(es_client, session, case["op"], kind, ndocs))
        except _Abort:
            res = ("aborted", None)
        except _NotAFault:
            return None
        except tlc.MachineryError:
            raise
        except BaseException as ex:  # pylint: disable=broad-except
            res = ("raised", ex)
    st = {"k": res[0], "of": 0, "rally": False, "names": False, "cls": "", "msg": "", "named": 0}
    detail = ""
    if res[0] == "returned":
        val = res[1]
        if kind == "plain" and transport_layer:
            # the answer object the real client built carries the meta object of the attempt it belongs to
            cands = [j for j, m in enumerate(session.metas) if m is not None and session.calls[j]["o"]["k"] == "ok" and getattr(val, "meta", None) is m]
            st["of"] = -1 if not cands else (len(session.metas) if len(session.metas) - 1 in cands else cands[0] + 1)
        elif kind == "plain":
            cands = [j for j, pr in enumerate(session.products) if session.calls[j]["o"]["k"] == "ok" and type(pr) is type(val) and (pr is val or pr == val)]
            st["of"] = -1 if not cands else (len(session.products) if len(session.products) - 1 in cands else cands[0] + 1)
        else:
            st["of"] = 0 if val is None else -1
    elif res[0] == "raised":
        ex = res[1]
        msg = str(getattr(ex, "message", None) or ex)
        st["rally"] = isinstance(ex, exceptions.RallyError)
        st["cls"] = type(ex).__name__
        last = session.calls[-1]["o"] if session.calls else {"k": "none", "code": 0, "items": []}
        prod = session.products[-1] if session.products else None
        st["names"] = bool(st["rally"] and session.calls and _names_cause(last, prod, msg))
        for name, rx in _MSG_CLASSES:
            if re.search(rx, msg):
                st["msg"] = name
                break
        else:
            st["msg"] = "other"
        if st["msg"] == "api":
            m = re.search(r"verif_api_(\d+)_", msg)
            st["named"] = int(m.group(1)) if m else 0
        elif st["msg"] == "bulk-unretryable":
            m = re.search(r"verif_item_(\d+)", msg)
            st["named"] = int(m.group(1)) if m else 0
        detail = "%s: %s" % (type(ex).__name__, msg[:160])
    return {"kd": kind, "calls": session.calls, "st": st}, detail


# ---------------------------------------------------------------------------------------------------
# case sources
# ---------------------------------------------------------------------------------------------------
def _script_from_state(st, rnd):
    script = []
    for c in st["calls"]:
        o = c["o"]
        script.append([str(o["k"]), int(o["code"]), sorted(int(x) for x in o["items"]), int(c["r"]), rnd.randrange(N_VARIANTS), str(o["shape"])])
    return script


def _ndocs(script, kind, rnd):
    if kind == "bulk1":
        return rnd.choice([1, 2])  # parity only decides whether an explicit id is passed; index() always sends one document
    need = max([len(s[2]) * (MANY if _shape(s) in MANY_SHAPES else 1) for s in script] + [1])
    return need + rnd.choice([0, 1, 3])


class OpChooser:
    def __init__(self, ops):
        self.by_kind = {}
        for name, kind in sorted(ops.items()):
            self.by_kind.setdefault(kind, []).append(name)
        self.count = {k: 0 for k in self.by_kind}

    def next(self, kind):
        lst = self.by_kind[kind]
        self.count[kind] += 1
        return lst[self.count[kind] % len(lst)]


def paths_from_dump(out, cfg_name, rnd, chooser):
    wd = tlc.prepare_workdir("Guarded", "c17mc")
    dump = os.path.join(wd, "states.dump")
    res = tlc.run_tlc(wd, "MC_Guarded", cfg_name, timeout=1500, dump=dump, allow_violation=True)
    out.add_tlc(res)
    if not res.ok:
        raise tlc.MachineryError("model violates %s in %s: %s" % (res.invariant_violated, cfg_name, res.out[-1500:]))
    paths = []
    n_states = 0
    for st in parse_dump(dump + ".dump" if os.path.exists(dump + ".dump") else dump, skip_containing='k |-> "running"'):
        n_states += 1
        if st is None:
            continue  # a proper prefix of other paths
        if st["status"]["k"] == "running":
            raise tlc.MachineryError("running state not skipped")
        if str(st["kind"]) in chooser.by_kind:
            paths.append(st)
    # TLC's workers write the dump in a run-dependent order: sort before any seeded choice is made
    paths.sort(key=lambda st: (st["kind"], [(c["o"]["k"], c["o"]["code"], sorted(c["o"]["items"]), c["o"]["shape"], c["r"]) for c in st["calls"]]))
    cases = []
    for st in paths:
        kind = str(st["kind"])
        script = _script_from_state(st, rnd)
        cases.append({"src": "tlc-paths", "op": chooser.next(kind), "kind": kind, "script": script, "ndocs": _ndocs(script, kind, rnd)})
    out.note("%s: %d states (depth %d, %.1fs) -> %d complete paths" % (cfg_name, n_states, res.depth, res.wall_s, len(cases)))
    return cases


def model_check(out, cfg_name, timeout=900):
    wd = tlc.prepare_workdir("Guarded", "c17mc")
    res = tlc.run_tlc(wd, "MC_Guarded", cfg_name, timeout=timeout, allow_violation=True)
    out.add_tlc(res)
    if not res.ok:
        raise tlc.MachineryError("model violates %s in %s: %s" % (res.invariant_violated, cfg_name, res.out[-1500:]))
    out.note("leg M %s: %d distinct states, depth %d, %.1fs" % (cfg_name, res.distinct, res.depth, res.wall_s))


def behaviours_from_sim(ctx, out, num, rnd, chooser):
    wd = tlc.prepare_workdir("Guarded", "c17sim")
    simdir = os.path.join(wd, "sim")
    os.makedirs(simdir)
    res = tlc.run_tlc(wd, "MC_Guarded", "Guarded.sim.cfg", workers=1, simulate={"num": num, "file": os.path.join(simdir, "b")}, depth=13, seed=ctx.seed + 17, timeout=900)
    if not res.ok:
        raise tlc.MachineryError("simulation reported a model violation: %s" % res.out[-2000:])
    out.add_tlc(res)
    cases = []
    for fn in sorted(glob.glob(os.path.join(simdir, "b_*"))):
        st = last_simulation_state(fn, crosscheck=len(cases) < 5)
        if st is None or st["status"]["k"] == "running":
            continue
        kind = str(st["kind"])
        if kind not in chooser.by_kind:
            continue
        script = _script_from_state(st, rnd)
        cases.append({"src": "tlc-simulate", "op": chooser.next(kind), "kind": kind, "script": script, "ndocs": _ndocs(script, kind, rnd)})
    return cases


def alphabet(kind, shapes="es"):
    """Letters (k, code, items, shape).  shapes: "es" = Elasticsearch-style bodies only, "other" = every other body shape, "all"."""
    want = (lambda sh: sh == "es") if shapes == "es" else (lambda sh: sh != "es") if shapes == "other" else (lambda sh: True)
    base = []
    if shapes != "other":
        base += [("ok", 0, [], ""), ("transportOther", 0, [], "")]
        base += [(k, 0, [], name) for k in ("connTimeout", "connError") for name in sorted(connection_classes()[k])]
    base += [("api", c, [], sh) for c in API_CODES for sh in API_SHAPES if want(sh)]
    if kind == "bulk":
        for mask in range(1, 1 << len(ITEM_CODES)):
            base += [("bulk", 0, [c for b, c in enumerate(ITEM_CODES) if mask >> b & 1], sh) for sh in ITEM_SHAPES + MANY_SHAPES if want(sh)]
    elif kind == "bulk1":
        base += [("bulk", 0, [c], sh) for c in ITEM_CODES for sh in ITEM_SHAPES if want(sh)]
    return base


def _entry(o, r, variant):
    return [o[0], o[1], list(o[2]), r, variant, o[3]]


def _is_transient(o):
    k, code, items = o[0], o[1], o[2]
    return k in ("connTimeout", "connError") or (k == "api" and code in TRANSIENT_CODES) or (k == "bulk" and items and all(c in TRANSIENT_CODES for c in items))


def edge_cover(ops, rnd, budget=10):
    """For EVERY public operation: every (number of preceding retries 0..budget) x (every status / set of item statuses, Elasticsearch-
    style bodies), and every other body shape of every status at 0, some and `budget` preceding retries."""
    cases = []
    for op, kind in sorted(ops.items()):
        alpha = alphabet(kind, "es")
        other = alphabet(kind, "other")
        # the faults that precede the letter under test keep Elasticsearch-style bodies, so that the letter under test is reached
        transient = [o for o in alpha if _is_transient(o)]
        plan = [(c, o) for c in range(budget + 1) for o in alpha]
        plan += [(c, o) for o in other for c in (0, rnd.randint(1, budget - 1), budget)]
        for c, o in plan:
            script = [_entry(rnd.choice(transient), rnd.choice([0, 1, 512, 1023]), rnd.randrange(N_VARIANTS)) for _ in range(c)]
            script.append(_entry(o, rnd.choice([0, 1, 512, 1023]), rnd.randrange(N_VARIANTS)))
            if _is_transient(o) and c < budget:
                # continue to a natural end: a few more transient faults, then success or a fatal error
                for _ in range(rnd.randint(0, min(2, budget - c - 1))):
                    script.append(_entry(rnd.choice(transient), rnd.choice([0, 512]), rnd.randrange(N_VARIANTS)))
                if len(script) <= budget or rnd.random() < 0.5:
                    script.append(["ok", 0, [], 0, rnd.randrange(N_VARIANTS), ""])
            cases.append({"src": "edge-cover", "op": op, "kind": kind, "script": script, "ndocs": _ndocs(script, kind, rnd)})
    return cases


def random_cases(seed, n, ops):
    """Not derived from TLC: arbitrary jitter values, long fault runs, every operation."""
    rnd = random.Random(seed)
    names = sorted(ops)
    cases = []
    for _ in range(n):
        op = rnd.choice(names)
        kind = ops[op]
        # half of the cases keep Elasticsearch-style bodies throughout, the others draw every letter's body shape at random
        alpha = alphabet(kind, "es" if rnd.random() < 0.5 else "all")
        transient = [o for o in alpha if _is_transient(o)]
        final = [o for o in alpha if not _is_transient(o)]
        length = rnd.choice([0, 1, 2, 3, 5, 8, 9, 10, 11, 12])
        script = [_entry(rnd.choice(transient), rnd.randrange(UNIT), rnd.randrange(N_VARIANTS)) for _ in range(length)]
        if rnd.random() < 0.8:
            script.append(_entry(rnd.choice(final if rnd.random() < 0.5 else [("ok", 0, [], "")]), rnd.randrange(UNIT), rnd.randrange(N_VARIANTS)))
        cases.append({"src": "random", "op": op, "kind": kind, "script": script, "ndocs": _ndocs(script, kind, rnd)})
    return cases


# ---------------------------------------------------------------------------------------------------
def _signature(case, item, clauses):
    calls = item["calls"]
    if calls:
        o = calls[-1]["o"]
        if o["k"] == "api":
            last = "api:%d" % o["code"]
        elif o["k"] == "bulk":
            last = "bulk:" + ("transient-items" if all(c in TRANSIENT_CODES for c in o["items"]) else "non-retryable-item")
        else:
            last = o["k"]
    else:
        last = "-"
    sig = {
        "clauses": sorted(clauses),
        "last_outcome": last,
        "last_body_shape": calls[-1]["o"]["shape"] if calls else "",
        "finished": item["st"]["k"],
        "escaped_as": "" if item["st"]["rally"] or item["st"]["k"] != "raised" else item["st"]["cls"],
    }
    if {"Budget", "ExhaustionRaises", "RetriesTransient"} & set(clauses) and not sig["escaped_as"]:
        sig["n_calls"] = min(len(calls), 12) if len(calls) >= 10 else "<10"
    if "ReturnsFirstSuccess" in clauses:
        sig["kind"] = case["kind"]
    return sig


SITUATIONS = {}


def _outcome_class(o):
    k, code, items = o[0], o[1], o[2]
    if k == "api":
        return "api-transient" if code in TRANSIENT_CODES else "api-%d" % code if code in (401, 403) else "api-other"
    if k == "bulk":
        return "bulk-transient" if all(c in TRANSIENT_CODES for c in items) else "bulk-non-retryable"
    return k


def _count_situations(case):
    """(operation, outcome class, number of preceding retries: 0 / 1..9 / 10) of every scripted invocation that the property allows to happen."""
    for j, o in enumerate(case["script"][:11]):
        key = (case["op"], _outcome_class(o), "0" if j == 0 else "10" if j == 10 else "1-9")
        SITUATIONS[key] = SITUATIONS.get(key, 0) + 1
        if o[0] in ("api", "bulk") or (o[0] in ("connError", "connTimeout") and _shape(o)):
            key = (case["op"], _outcome_class(o), "shape:" + _shape(o))
            SITUATIONS[key] = SITUATIONS.get(key, 0) + 1
        if not _is_transient(o):
            break


def run_cases(cases, out, label, chunk=20000):
    items = []
    index = {}
    t_start = time.time()
    for ci, case in enumerate(cases):
        res = execute(case)
        if res is None:  # transport layer: a HEAD request answered 404 (an answer, not a fault)
            continue
        item, detail = res
        _count_situations(case)
        item["id"] = "%s-%s-%d" % (label, case["src"], ci)
        items.append(item)
        index[item["id"]] = (case, item, detail)
        out.add_case((case["op"], [s[:4] + [_shape(s)] for s in case["script"]]), nontrivial=len(item["calls"]) >= 2)
    if not items:
        raise tlc.MachineryError("no cases for %s" % label)
    t_exec = time.time()
    verdicts = tracecheck.validate("Guarded", "TraceGuarded", "TraceGuarded.cfg", items, name="c17trace", chunk=chunk, timeout=1500)
    out.note("%s: %d cases executed in %.1fs, validated by TLC in %.1fs" % (label, len(items), t_exec - t_start, time.time() - t_exec))
    out.traces_validated += verdicts.accepted(len(items))
    for tid, fails in verdicts.l1.items():
        case, item, detail = index[tid]
        clauses = sorted({c for _, cl in fails for c in cl})
        out.violations.append(
            Violation(
                ",".join(clauses),
                case,
                signature=_signature(case, item, clauses),
                detail="last=%s/%s op=%s outcomes=%s -> %d calls, pauses=%s finished=%s %s"
                % (_signature(case, item, clauses)["last_outcome"], _signature(case, item, clauses)["last_body_shape"], case["op"], [(s[0], s[1] or s[2] or "", _shape(s)) for s in case["script"]], len(item["calls"]), [c["p"] for c in item["calls"]], {k: v for k, v in item["st"].items() if v not in ("", 0, False)}, detail),
            )
        )
    for tid in verdicts.l2:
        case, item, detail = index[tid]
        out.drift.append(
            "run %s: op=%s outcomes=%s recorded pauses=%s sleeps=%s st=%s (%s) is not the transcription's behaviour"
            % (tid, case["op"], [(s[0], s[1] or s[2] or "", _shape(s), s[3]) for s in case["script"]], [c["p"] for c in item["calls"]], [c["ns"] for c in item["calls"]], item["st"], detail)
        )
    return items


# ---------------------------------------------------------------------------------------------------
# store leg: "the call is not repeated after success" one layer up — the REAL EsMetricsStore (open / put / flush / close) over the
# real EsClient.guarded over a scripted cluster; every attempt either indexes the whole request or nothing (whole-call outcomes:
# ok, transient before processing, fatal; the refresh after the bulk: ok or fatal), so a document that reaches the index twice was
# handed to bulk_index again after a bulk_index call that had RETURNED. Executed and validated with the machinery of the extra
# module EsStore (specs/EsStore, harness/extras/esstore.py); only its clause AtMostOnce is a C17 verdict here.
# ---------------------------------------------------------------------------------------------------
def store_cases(seed, n):
    from ..extras import esstore as xs

    rnd = random.Random(seed)
    ok = {"k": "ok", "bad": [], "v": 0}
    val = dict(xs.NO_ARGS, kind="value", lvl="cluster", tm="auto", sty="normal", task="t1", op="o1", opt="bulk")
    cases = []
    for ci in range(n):
        ops = [{"op": "Open", "s": "rc", "how": "direct", "c": xs.CTXS[0], "create": True, "w": dict(xs.NO_WORLD)}]
        nbuf = 0
        is_open = True
        for _ in range(rnd.randint(3, 9)):
            r = rnd.random()
            if not is_open:
                break
            if r < 0.45 or nbuf == 0:
                k = rnd.randint(1, 3)
                ops += [{"op": "Put", "s": "rc", "a": val} for _ in range(k)]
                nbuf += k
                continue
            style = rnd.random()
            if style < 0.5:
                script = [ok]
            elif style < 0.7:
                script = [{"k": "reqT", "bad": [], "v": rnd.randrange(4)} for _ in range(rnd.randint(1, 3))] + [ok]
            elif style < 0.85:
                script = [{"k": "reqF", "bad": [], "v": rnd.randrange(4)}]
            else:
                script = [{"k": "reqT", "bad": [], "v": i % 4} for i in range(xs.REAL_RETRIES + 1)]
            rscript = "fatal" if rnd.random() < 0.35 else "ok"
            if r < 0.9:
                ops.append({"op": "Flush", "s": "rc", "refresh": rnd.random() < 0.7 or ci % 3 == 0, "script": script, "rscript": rscript})
            else:
                ops.append({"op": "Close", "s": "rc", "script": script, "rscript": rscript})
                is_open = False
            if script[-1]["k"] == "ok":
                nbuf = 0
        if is_open:
            ops.append({"op": "Close", "s": "rc", "script": [ok] if nbuf else [], "rscript": "ok"})
        cases.append({"src": "c17-store", "types": "eses", "group": 1, "ops": ops})
    # the shortest history of the kind: bulk succeeds, the refresh of the same flush fails, the caller flushes again
    cases.append({"src": "c17-store:refresh-fails", "types": "eses", "group": 1, "ops": [ops0 for ops0 in [
        {"op": "Open", "s": "rc", "how": "direct", "c": xs.CTXS[0], "create": True, "w": dict(xs.NO_WORLD)},
        {"op": "Put", "s": "rc", "a": val},
        {"op": "Flush", "s": "rc", "refresh": True, "script": [ok], "rscript": "fatal"},
        {"op": "Close", "s": "rc", "script": [], "rscript": "ok"},
    ]]})
    return cases


def store_leg(ctx, out, cases=None):
    from ..core import Outcome
    from ..extras import esstore as xs

    cases = cases if cases is not None else store_cases(ctx.seed + 1717, 60 if ctx.quick else 600)
    sub = Outcome("C17-store")
    xs.run_cases(cases, sub, "c17store")
    out.states += sub.states
    out.transitions += sub.transitions
    out.traces_validated += sub.traces_validated
    bad = 0
    for v in sub.violations:
        if v.clause != "AtMostOnce":
            continue  # other clauses of the extra module are not C17's
        bad += 1
        case = dict(v.case, store_leg=True, op="store", script=[], kind="store")
        out.violations.append(Violation("NotRepeatedAfterSuccess", case, signature={"clauses": ["NotRepeatedAfterSuccess"], "leg": "store", "cause": v.signature.get("cause")}, detail="store leg: " + v.detail))
    for d in sub.drift:
        out.drift.append("store leg: " + d)
    for c in cases:
        out.add_case(("store", c["ops"]), nontrivial=True)
    out.extra["store_leg"] = {"histories": len(cases), "flushes_with_failing_refresh_after_a_successful_bulk": sum(1 for c in cases for o in c["ops"] if o["op"] in ("Flush", "Close") and o.get("script") and o["script"][-1]["k"] == "ok" and o.get("rscript") == "fatal" and o.get("refresh", True)), "violating": bad}
    out.note("store leg: %d histories on the real EsMetricsStore (put / flush / close over guarded calls with whole-call outcomes), %d violating" % (len(cases), bad))
    return bad



def _quiet():
    lg = logging.getLogger("esrally.metrics")
    lg.addHandler(logging.NullHandler())
    lg.propagate = False
    lg.setLevel(logging.CRITICAL + 1)


def run(ctx, out):
    _quiet()
    out.rule = (
        "case = (public EsClient operation, sequence of outcomes of the wrapped client function with the random.random() value of each iteration); distinct by hash; "
        "non-trivial = at least 2 invocations observed. Sources: every path of the TLC state space of Guarded.tla with the real budget (reduced alphabet), an edge cover "
        "(#preceding retries x full alphabet) for every public operation, TLC -simulate behaviours, seeded random cases."
    )
    out.assumptions = [
        "the observation point is the function wrapped by guarded(): the scripted underlying client's API method (for bulk_index / index: client.bulk called once per attempt by the real "
        "elasticsearch.helpers.bulk, which raises the real BulkIndexError from the scripted per-item statuses)",
        "exceptions are real instances of elasticsearch-py 8.6.1 / elastic-transport 8.4.1 classes; time.sleep and random.random are replaced by recorders (dyadic random values)",
        "'exponentially growing pauses' is read as: the pause before the i-th retry is at least 2^(i-1) s and less than 2^i s (doubling base with a jitter smaller than the base); the exact "
        "value 2^(i-1) + random.random() is L2",
        "'naming the cause' is read as: the Rally error's message contains a word for the fault class (timeout / connect / authenticate / privileges ...) or the specific error type, "
        "status code or message of the fault",
        "bulk_index / index return nothing by design; 'the first successful attempt's result is returned' is checked for the operations that return the client's result",
        "other Python exceptions (not API / transport / bulk errors) are outside the property and are not injected",
        "connection errors and timeouts are injected as every concrete class that elastic_transport / elasticsearch.exceptions export (discovered on every run: ConnectionError, "
        "TlsError = SSLError, ConnectionTimeout), with and without the low-level error attached; bulk responses carry one failed item per status or (esmany) twelve per status, "
        "grouped by status in varying order and position",
        "ApiError objects are built as elasticsearch's BaseClient.perform_request builds them (message derived from the body) for every body the transport can deliver: "
        "JSON object with error object / error string / error object without type / without error / empty, no body (HEAD), str (text/*), bytes, JSON array; bulk item errors "
        "as object or (legacy) string; the documented reaction depends on the status only",
    ]
    rnd = random.Random(ctx.seed + 17)
    quick = ctx.quick
    ops = public_operations()
    out.extra["public_operations"] = ops
    chooser = OpChooser(ops)
    # ---- Leg M
    if not quick:
        model_check(out, "Guarded.small.cfg")
    model_check(out, "Guarded.shapes.cfg")
    model_check(out, "Guarded.view.cfg")
    wd = tlc.prepare_workdir("Guarded", "c17selftest")
    res = tlc.run_tlc(wd, "MC_Guarded", "Guarded.budget.cfg", timeout=600, allow_violation=True)
    if res.invariant_violated != "PropertyHolds":
        raise tlc.MachineryError("self-test failed: a loop with one retry more than documented does not violate PropertyHolds in the model")
    wd = tlc.prepare_workdir("Guarded", "c17selftest")
    res = tlc.run_tlc(wd, "MC_Guarded", "Guarded.pinned.cfg", timeout=600, allow_violation=True)
    if res.invariant_violated != "PropertyHolds":
        raise tlc.MachineryError("self-test failed: the pinned handling of string item errors (ItemShapeTolerant=FALSE) does not violate PropertyHolds in the model")
    out.extra["model_selftest"] = (
        "variant with CodeMaxRetries = DocRetries + 1 violates PropertyHolds in the model, as expected; pinned variant ItemShapeTolerant=FALSE "
        "(AttributeError escapes for a bulk item whose error member is a string) violates PropertyHolds in the model, as expected"
    )
    # ---- S2C
    cases = paths_from_dump(out, "Guarded.quick.cfg" if quick else "Guarded.thorough.cfg", rnd, chooser)
    out.exhaustive = True
    items = run_cases(cases, out, "path")
    longest = max(range(len(cases)), key=lambda i: len(items[i]["calls"]))
    out.sample({"source": "tlc-paths", "op": cases[longest]["op"], "script": cases[longest]["script"], "recorded": items[longest]})
    cover = edge_cover(ops, rnd)
    if not quick:
        for _ in range(4):
            cover += edge_cover(ops, rnd)
    out.note("leg S2C: edge cover %d cases over %d operations" % (len(cover), len(ops)))
    sims = behaviours_from_sim(ctx, out, 1000 if quick else 40000, rnd, chooser)
    out.note("leg S2C: %d TLC -simulate behaviours" % len(sims))
    # ---- cases not derived from TLC
    rnd_cases = random_cases(ctx.seed + 170, 3000 if quick else 60000, ops)
    # one validation run for the three groups (ids keep the group)
    items = run_cases(cover + sims + rnd_cases, out, "esr")
    # ---- transport layer: the same scripts under the REAL client of the metrics store (esrally.client RallySyncElasticsearch created
    # by EsClientFactory): the scripted transport answers with a status, the client decides what is an error
    tl = [dict(c, layer="transport", src="transport-" + c["src"]) for c in edge_cover(ops, rnd) + random_cases(ctx.seed + 171, 1000 if quick else 20000, ops) if c["op"] != "guarded"]
    tl_items = run_cases(tl, out, "tl")
    out.extra["transport_layer"] = "%d executions of every public operation through the real esrally.client.RallySyncElasticsearch over a scripted transport (status + body answers, connection / transport errors raised)" % len(tl_items)
    out.note("transport layer: %d executions" % len(tl_items))
    pick = next(i for i, c in enumerate(cover) if c["kind"] == "bulk" and len(c["script"]) >= 3)
    out.sample({"source": "edge-cover", "op": cover[pick]["op"], "script": cover[pick]["script"], "recorded": items[pick]})
    pick = next(i for i, c in enumerate(cover) if c["kind"] == "plain" and len(c["script"]) >= 2 and _shape(c["script"][0]) not in ("", "es"))
    out.sample({"source": "edge-cover", "op": cover[pick]["op"], "script": cover[pick]["script"], "recorded": items[pick]})
    first_rnd = len(cover) + len(sims)
    out.sample({"source": "random", "op": rnd_cases[0]["op"], "script": rnd_cases[0]["script"], "recorded": items[first_rnd]})
    per_op = {}
    for c in cases + cover + sims + rnd_cases:
        per_op[c["op"]] = per_op.get(c["op"], 0) + 1
    out.extra["executions_per_operation"] = per_op
    out.note("leg C2S: %d executions validated by TLC" % out.traces_validated)
    classes = ["ok", "connTimeout", "connError", "transportOther", "api-transient", "api-401", "api-403", "api-other"]
    want = [(op, cl, b) for op, kind in sorted(ops.items()) for cl in classes + (["bulk-transient", "bulk-non-retryable"] if kind != "plain" else []) for b in ("0", "1-9", "10")]
    want += [(op, cl, "shape:" + sh) for op in sorted(ops) for cl in ("api-transient", "api-401", "api-403", "api-other") for sh in API_SHAPES]
    want += [(op, cl, "shape:" + sh) for op, kind in sorted(ops.items()) if kind != "plain" for cl in ("bulk-transient", "bulk-non-retryable") for sh in ITEM_SHAPES + (MANY_SHAPES if kind == "bulk" else [])]
    want += [(op, k, "shape:" + name) for op in sorted(ops) for k in ("connError", "connTimeout") for name in sorted(connection_classes()[k])]
    out.extra["connection_error_classes"] = {k: sorted(v) for k, v in connection_classes().items()}
    missing = [w for w in want if not SITUATIONS.get(w)]
    out.extra["situations_exercised"] = "%d of %d (operation x outcome class x (preceding retries 0 / 1-9 / 10 | body shape)), least often: %d executions" % (
        len(want) - len(missing),
        len(want),
        min([SITUATIONS.get(w, 0) for w in want] or [0]),
    )
    if missing:
        out.vacuous.append("situations never exercised on the implementation: %s" % missing[:5])
    store_leg(ctx, out)
    # report the smallest failing case of every kind first
    out.violations.sort(key=lambda v: (len(v.case["script"]), len(repr(v.case)), repr(v.case)))


def replay(ctx, case):
    _quiet()
    if case.get("store_leg"):
        from ..core import Outcome

        sub = Outcome("C17-store-replay")
        n = store_leg(ctx, sub, cases=[{k: v for k, v in case.items() if k in ("src", "types", "group", "ops")}])
        for v in sub.violations:
            print("VIOLATION property=C17 clause=%s %s" % (v.clause, v.detail))
        return 1 if n else 0
    res = execute(case)
    if res is None:
        print("op=%s: HEAD answered 404 is an answer, not a fault" % case["op"])
        return 0
    item, detail = res
    item["id"] = "replay"
    v = tracecheck.validate("Guarded", "TraceGuarded", "TraceGuarded.cfg", [item], name="c17replay")
    print("op=%s kind=%s script=%s" % (case["op"], case["kind"], case["script"]))
    print("recorded: calls=%s st=%s %s" % (item["calls"], item["st"], detail))
    for _tid, fails in v.l1.items():
        print("VIOLATION property=C17 clause=%s" % ",".join(fails[0][1]))
    for _tid in v.l2:
        print("MODEL-DRIFT property=C17 recorded run is not the transcription's behaviour")
    return 1 if v.l1 else 0
