"""C06 — throughput counts every operation exactly once, however samples are batched.

Leg M   : TLC on specs/Throughput (exhaustive small streams x all cuts; pass-through config).
Leg S2C : TLC -simulate behaviours (wide alphabets) -> batches -> real ThroughputCalculator (Fraction clock).
Leg C2S : every recorded execution (S2C + seeded random multi-task streams, not derived from TLC) is validated
          by TLC against TraceThroughput.tla (L1 = property formulas on recorded state, L2 = spec step).
"""
import glob
import os
import random
from fractions import Fraction

from .. import tlc, tracecheck
from ..core import Violation
from ..tlaparse import parse_simulation_file

TPS = 4  # ticks per second used by the conformance legs

REQUIRED_ACTIONS = ["Arrive", "Flush"]


# ---------------------------------------------------------------------------------------------------
# real code driver
# ---------------------------------------------------------------------------------------------------
class _Op:
    def __init__(self, name):
        self.name = name
        self.type = "bulk"
        self.meta_data = {}


class _Task:
    def __init__(self, name):
        self.name = name
        self.operation = _Op(name)

    def __repr__(self):
        return "Task(%s)" % self.name


def _mk_sample(driver_mod, metrics_mod, task, s, num=Fraction):
    """s: dict(id,c,abs,per,ops,ty,tput,unit) in ticks."""
    abs_t = num(s["abs"]) / TPS if num is Fraction else s["abs"] / TPS
    per = num(s["per"]) / TPS if num is Fraction else s["per"] / TPS
    smp = driver_mod.Sample(
        client_id=s["c"],
        absolute_time=abs_t,
        request_start=abs_t,
        task_start=0,
        task=task,
        sample_type=metrics_mod.SampleType.Normal if s["ty"] == 1 else metrics_mod.SampleType.Warmup,
        request_meta_data={},
        latency=per,
        service_time=per,
        processing_time=per,
        throughput=None if s["tput"] == -1 else s["tput"],
        total_ops=s["ops"],
        total_ops_unit=s["unit"],
        time_period=per,
        percent_completed=None,
    )
    smp._verif = s  # pylint: disable=protected-access
    return smp


def _ticks(x):
    f = Fraction(x) * TPS
    if f.denominator != 1:
        raise tlc.MachineryError("non-integral tick value %r" % (x,))
    return int(f)


def _project_stats(calc, task):
    ts = calc.task_stats.get(task)
    if ts is None:
        return {"exists": False, "unproc": [], "total": 0, "interval": 0, "bucket": 0, "stype": 0, "has": False, "start": 0}
    return {
        "exists": True,
        "unproc": [dict(x._verif) for x in ts.unprocessed],  # pylint: disable=protected-access
        "total": int(ts.total_count),
        "interval": _ticks(ts.interval),
        "bucket": _ticks(ts.bucket),
        "stype": int(ts.sample_type),
        "has": bool(ts.has_samples_in_sample_type),
        "start": _ticks(ts.start_time),
    }


def _project_out(tuples):
    out = []
    for abs_t, _rel, stype, tput, unit in tuples:
        if tput is None:
            # (only a changed implementation reports no value at all: den = 0 never equals a rational of the model)
            out.append({"abs": _ticks(abs_t), "ty": int(stype), "num": 0, "den": 0, "unit": str(unit)})
            continue
        f = Fraction(tput)
        out.append({"abs": _ticks(abs_t), "ty": int(stype), "num": f.numerator, "den": f.denominator, "unit": unit})
    return out


def execute(calls, tasks):
    """calls: list of batches; batch = list of sample dicts each with key 'task'. Returns {task: [event,...]}.

    Runs the real ThroughputCalculator with exact (Fraction) times and, in parallel, with floats."""
    from esrally import metrics
    from esrally.driver import driver

    calc = driver.ThroughputCalculator()
    calc_f = driver.ThroughputCalculator()
    tobj = {t: _Task(t) for t in tasks}
    events = {t: [] for t in tasks}
    float_mismatch = []
    for batch in calls:
        smp = [_mk_sample(driver, metrics, tobj[s["task"]], {k: v for k, v in s.items() if k != "task"}) for s in batch]
        res = calc.calculate(smp, bucket_interval_secs=1)
        smp_f = [_mk_sample(driver, metrics, tobj[s["task"]], {k: v for k, v in s.items() if k != "task"}, num=float) for s in batch]
        res_f = calc_f.calculate(smp_f, bucket_interval_secs=1)
        for t in tasks:
            tb = [{k: v for k, v in s.items() if k != "task"} for s in batch if s["task"] == t]
            if not tb:
                continue
            out = res.get(tobj[t], [])
            events[t].append({"batch": tb, "st": {"stats": _project_stats(calc, tobj[t]), "out": _project_out(out)}})
            outf = res_f.get(tobj[t], [])
            if len(calc.task_stats[tobj[t]].unprocessed if tobj[t] in calc.task_stats else []) > 64:
                # runaway carry-over (only possible when samples are duplicated): the violation is already recorded
                return events, float_mismatch
            if len(outf) != len(out) or any((a[3] is None) != (b[3] is None) or (a[3] is not None and abs(float(a[3]) - b[3]) > 1e-9 * max(1.0, abs(b[3]))) for a, b in zip(out, outf)):
                float_mismatch.append(t)
    return events, float_mismatch


# ---------------------------------------------------------------------------------------------------
# case sources
# ---------------------------------------------------------------------------------------------------
def behaviours_from_tlc(ctx, out, num, depth):
    wd = tlc.prepare_workdir("Throughput", "c06sim")
    simdir = os.path.join(wd, "sim")
    os.makedirs(simdir)
    res = tlc.run_tlc(
        wd, "MC_Throughput", "Throughput.sim.cfg", workers=1, simulate={"num": num, "file": os.path.join(simdir, "b")}, depth=depth, seed=ctx.seed + 17, timeout=600
    )
    if not res.ok:
        raise tlc.MachineryError("simulation reported a model violation: %s" % res.out[-2000:])
    out.add_tlc(res)
    cases = []
    for fn in sorted(glob.glob(os.path.join(simdir, "b_*"))):
        states = parse_simulation_file(fn)
        calls = []
        prev_pending = ()
        for st in states:
            if st["act"]["name"] == "Flush":
                calls.append([dict(s, unit="docs", task="t1") for s in prev_pending])
            prev_pending = st["pending"]
        if calls:
            cases.append({"src": "tlc-simulate", "tasks": ["t1"], "calls": calls})
    return cases


def random_cases(seed, n, max_samples, tasks=("t1", "t2", "t3")):
    rnd = random.Random(seed)
    cases = []
    for _ in range(n):
        k = rnd.randint(1, len(tasks))
        use = list(tasks[:k])
        nclients = rnd.randint(1, 4)
        mode = {t: (-1 if rnd.random() < 0.75 else rnd.choice([0, 0, 7, 11])) for t in use}
        unit = {t: rnd.choice(["docs", "ops", "pages", "MB"]) for t in use}
        stream = []
        sid = {t: 0 for t in use}
        # each client walks its own clock; per client and task sample types are monotone
        for t in use:
            dens = rnd.choice([1, 2, 4, 8])  # how many samples per second on average (ticks spacing)
            for c in range(1, nclients + 1):
                now = rnd.randint(0, 6)
                ty = 0 if rnd.random() < 0.7 else 1
                m = rnd.randint(0, max(1, max_samples // (nclients * k)))
                for _i in range(m):
                    now += rnd.randint(1, max(1, 2 * TPS // dens + 1))
                    if ty == 0 and rnd.random() < 0.3:
                        ty = 1
                    per = rnd.randint(1, min(now, 3))
                    ops = rnd.choice([0, 1, 1, 2, 5, 1000])
                    # a failed request reports 0 operations in unit "ops" whatever the operation's own unit is (execute_single)
                    u = "ops" if ops == 0 and mode[t] == -1 and rnd.random() < 0.7 else unit[t]
                    stream.append({"task": t, "c": c, "abs": now, "per": per, "ops": ops, "ty": ty, "tput": mode[t], "unit": u})
        if not stream:
            continue
        # arrival order: per-(task, client) order kept, otherwise random merge with bounded skew
        keyed = {}
        for s in stream:
            keyed.setdefault((s["task"], s["c"]), []).append(s)
        queues = list(keyed.values())
        arrival = []
        while queues:
            q = rnd.choice(queues)
            arrival.append(q.pop(0))
            if not q:
                queues.remove(q)
        for s in arrival:
            sid[s["task"]] += 1
            s["id"] = sid[s["task"]]
        # cut into calls
        calls = []
        i = 0
        style = rnd.choice(["ones", "random", "big"])
        while i < len(arrival):
            step = 1 if style == "ones" else rnd.randint(1, 4) if style == "random" else rnd.randint(3, 12)
            calls.append(arrival[i : i + step])
            i += step
        cases.append({"src": "random", "tasks": use, "calls": calls})
    return cases


# ---------------------------------------------------------------------------------------------------
def _signature(clauses, case):
    return {"clauses": sorted(clauses), "src": case["src"]}


def run_cases(cases, out, label):
    traces = []
    index = {}
    for ci, case in enumerate(cases):
        events, fm = execute(case["calls"], case["tasks"])
        if fm:
            out.drift.append("float/exact throughput disagree for %s in %s case %d" % (fm, label, ci))
        for t in case["tasks"]:
            if events[t]:
                tid = "%s-%d-%s" % (label, ci, t)
                traces.append({"id": tid, "events": events[t]})
                index[tid] = case
        nontrivial = sum(len(c) for c in case["calls"]) >= 2
        out.add_case(case["calls"], nontrivial)
    if not traces:
        raise tlc.MachineryError("no traces produced for %s" % label)
    verdicts = tracecheck.validate("Throughput", "TraceThroughput", "TraceThroughput.cfg", traces, name="c06trace", chunk=4000)
    out.states += verdicts.n_events
    out.transitions += verdicts.n_events
    out.traces_validated += verdicts.accepted(len(traces))
    for tid, fails in verdicts.l1.items():
        case = index[tid]
        clauses = sorted({c for _, cl in fails for c in cl})
        out.violations.append(
            Violation(
                ",".join(clauses),
                case,
                signature=_signature(clauses, case),
                detail="trace %s first failing call %d" % (tid, fails[0][0]),
            )
        )
    for tid, lines in verdicts.l2.items():
        out.drift.append("trace %s: call %d is not a FlushWith step of Throughput.tla" % (tid, lines[0]))
    return traces


def run(ctx, out):
    out.rule = (
        "case = one arrival stream of samples cut into successive calculate() calls; distinct by hash of the list of batches; "
        "non-trivial = at least 2 samples. Sources: TLC -simulate behaviours of Throughput.tla (S2C) and seeded random multi-task/multi-client streams (C2S only)."
    )
    out.assumptions = [
        "times are multiples of 1/4 s and fed as fractions.Fraction so that the implementation's arithmetic is exact; a float run is compared to 1e-9",
        "tasks are independent in ThroughputCalculator (one TaskStats per task); the model has one task, traces are projected per task",
        "pass-through (runner-provided throughput) values keep each sample's own sample type; monotonicity of sample types is claimed for calculated values",
    ]
    # ---- Leg M
    for cfg, to in [("Throughput.quick.cfg" if ctx.quick else "Throughput.thorough.cfg", 3000), ("Throughput.pass.cfg", 600)]:
        wd = tlc.prepare_workdir("Throughput", "c06mc")
        res = tlc.run_tlc(wd, "MC_Throughput", cfg, timeout=to, coverage=False, allow_violation=True)
        out.add_tlc(res)
        if not res.ok:
            raise tlc.MachineryError("model violates %s in %s (model and code are supposed to agree on the unchanged tree): %s" % (res.invariant_violated or res.property_violated, cfg, res.out[-1500:]))
        out.note("leg M %s: %d distinct states, depth %d, %.1fs" % (cfg, res.distinct, res.depth, res.wall_s))
    out.exhaustive = False
    # self-test of the model: the pinned (pre-fix) variant must violate Conservation
    wd = tlc.prepare_workdir("Throughput", "c06pinned")
    res = tlc.run_tlc(wd, "MC_Throughput", "Throughput.pinned.cfg", timeout=600, allow_violation=True)
    if res.invariant_violated != "Conservation":
        raise tlc.MachineryError("self-test failed: pinned variant of the model no longer violates Conservation")
    out.extra["model_selftest"] = "pinned variant (ResetUnprocessed=FALSE) violates Conservation in the model, as expected"
    # ---- Leg S2C + C2S
    sim = behaviours_from_tlc(ctx, out, 300 if ctx.quick else 3000, 20)
    out.note("leg S2C: %d TLC behaviours with at least one calculate() call" % len(sim))
    traces = run_cases(sim, out, "sim")
    out.sample({"source": "tlc-simulate", "calls": sim[0]["calls"], "recorded": traces[0]["events"][-1]["st"]})
    rnd = random_cases(ctx.seed, 400 if ctx.quick else 6000, 40)
    traces = run_cases(rnd, out, "rnd")
    out.sample({"source": "random", "calls": rnd[0]["calls"][:3]})
    out.note("leg C2S: %d traces validated by TLC" % out.traces_validated)
    # ---- driver leg: the batching the real Driver does
    driver_leg(ctx, out)
    # binding self-test: one corrupted field / one removed call must be rejected
    import copy

    # (on a trace whose first call changes the recorded state: otherwise a removed call cannot be noticed)
    base = next((t for t in traces if len(t["events"]) >= 3 and t["events"][0]["st"] != t["events"][1]["st"] and t["events"][0]["st"]["stats"]["total"] > 0), None)
    if base is None:
        if out.violations or out.drift:
            out.note("binding self-test skipped: no recorded trace is suitable")
            return
        raise tlc.MachineryError("binding self-test: no recorded trace with >= 3 state-changing calls")
    m1 = copy.deepcopy(base)
    m1["id"] = "bind-total"
    m1["events"][1]["st"]["stats"]["total"] += 1
    m2 = copy.deepcopy(base)
    m2["id"] = "bind-drop"
    del m2["events"][0]
    v = tracecheck.validate("Throughput", "TraceThroughput", "TraceThroughput.cfg", [m1, m2], name="c06bind")
    missed = [m for m in ("bind-total", "bind-drop") if m not in v.l1 and m not in v.l2]
    if missed:
        raise tlc.MachineryError("binding self-test failed: corrupted traces accepted: %s" % missed)
    out.extra["binding_selftest"] = "a trace with total_count off by one and a trace with its first call removed are rejected by TLC"


# ---------------------------------------------------------------------------------------------------
# driver leg: the batches the REAL Driver makes (periodic post-processing, join points) in simulated races
# ---------------------------------------------------------------------------------------------------
def _race_traces(job, label):
    """Runs one race on the real actors (harness/racetrace.py) and turns every ThroughputCalculator.calculate() call the driver
    made into C06 trace events, one trace per task. Absolute times are rebased (the calculator only compares them)."""
    from .. import racetrace

    tr = racetrace.TracedRace(job["scn"], seed=job["seed"], test_mode=job["test_mode"], pp_interval=job.get("pp", 2))
    try:
        tr.start()
        tr.run([tuple(x) for x in job.get("script", [])], random.Random(job["seed"] * 7919 + 13), max_events=400)
        calls = list(tr.w.tput_calls)
        done = tr.done()
    finally:
        tr.close()
    base = None
    for c in calls:
        for smp in c["batch"]:
            t0 = Fraction(smp.absolute_time) - Fraction(smp.time_period)
            base = t0 if base is None or t0 < base else base
    if base is None:
        return [], done
    base = Fraction(int(base) - 8)
    ids = {}

    def sdict(smp):
        key = id(smp)
        tname = smp.task.name
        if key not in ids:
            ids[key] = sum(1 for v in ids.values() if v[0] == tname) + 1, tname
            ids[key] = (tname, ids[key][0])
        return {
            "id": ids[key][1],
            "c": int(smp.client_id) + 1,
            "abs": _ticks(Fraction(smp.absolute_time) - base),
            "per": _ticks(Fraction(smp.time_period)),
            "ops": int(smp.total_ops),
            "ty": 1 if smp.sample_type.name == "Normal" else 0,
            "tput": -1 if smp.throughput is None else smp.throughput,
            "unit": smp.total_ops_unit,
        }

    traces = {}
    keep = []  # the Sample objects must stay alive while ids are taken from id()
    for c in calls:
        keep.append(c)
        tasks = []
        for smp in c["batch"]:
            if smp.task not in tasks:
                tasks.append(smp.task)
        for task in tasks:
            tb = [sdict(smp) for smp in c["batch"] if smp.task is task]
            ts = c["stats"].get(task)
            if ts is None:
                st = {"exists": False, "unproc": [], "total": 0, "interval": 0, "bucket": 0, "stype": 0, "has": False, "start": 0}
            else:
                st = {
                    "exists": True,
                    "unproc": [sdict(x) for x in ts["unprocessed"]],
                    "total": int(ts["total_count"]),
                    "interval": _ticks(ts["interval"]),
                    "bucket": _ticks(ts["bucket"]),
                    "stype": int(ts["sample_type"]),
                    "has": bool(ts["has"]),
                    "start": _ticks(Fraction(ts["start_time"]) - base),
                }
            outp = []
            for abs_t, _rel, stype, tput, unit in c["res"].get(task, []):
                # the driver's calculator works with floats: a value is identified with the simple rational it agrees with to 1e-9
                # (count * 4 / elapsed ticks has a small denominator)
                if tput is None:
                    outp.append({"abs": _ticks(Fraction(abs_t) - base), "ty": int(stype), "num": 0, "den": 0, "unit": str(unit)})
                    continue
                f = Fraction(tput).limit_denominator(100000)
                if abs(float(f) - float(tput)) > 1e-9 * max(1.0, abs(float(tput))):
                    raise tlc.MachineryError("non-integral throughput value %r" % (tput,))
                outp.append({"abs": _ticks(Fraction(abs_t) - base), "ty": int(stype), "num": f.numerator, "den": f.denominator, "unit": unit})
            traces.setdefault(task.name, []).append({"batch": tb, "st": {"stats": st, "out": outp}})
    return [{"id": "%s-%s" % (label, t), "events": ev} for t, ev in sorted(traces.items())], done


def driver_leg(ctx, out, jobs=None, label="drv"):
    """C2S on the batches the real Driver makes: every calculate() call of simulated races is validated against Throughput.tla."""
    from . import racecommon as rc

    if jobs is None:
        jobs = []
        beh = rc.behaviours(ctx, out, 24 if ctx.quick else 240, 100, cfg="RaceDriver.sim.cfg", seed_off=61)
        for i, (scn, script) in enumerate(beh):
            jobs.append({"scn": scn, "script": script, "seed": ctx.seed + 600 + i, "test_mode": i % 2 == 0, "pp": [2, 1, 30][i % 3]})
    traces = []
    index = {}
    ncalls = 0
    skipped = 0
    for n, job in enumerate(jobs):
        try:
            trs, done = _race_traces(job, "%s%d" % (label, n))
        except tlc.MachineryError as ex:
            if "non-integral" in str(ex):
                skipped += 1
                continue
            raise
        for t in trs:
            index[t["id"]] = job
            ncalls += len(t["events"])
        traces.extend(trs)
        out.add_case({"race": job["scn"], "seed": job["seed"], "n": n}, nontrivial=bool(trs))
    if skipped * 2 > len(jobs) or not traces:
        raise tlc.MachineryError("driver leg: %d of %d races unusable (times not on the tick grid)" % (skipped, len(jobs)))
    multi = sum(1 for t in traces if len(t["events"]) >= 2)
    if multi == 0:
        raise tlc.MachineryError("driver leg vacuous: no task was post-processed in more than one batch")
    verdicts = tracecheck.validate("Throughput", "TraceThroughput", "TraceThroughput.cfg", traces, name="c06drv", chunk=4000)
    out.states += verdicts.n_events
    out.transitions += verdicts.n_events
    out.traces_validated += verdicts.accepted(len(traces))
    for tid, fails in verdicts.l1.items():
        clauses = sorted({c for _, cl in fails for c in cl})
        job = index[tid]
        case = {"src": "race", "job": {k: v for k, v in job.items()}}
        out.violations.append(Violation(",".join(clauses), case, signature={"clauses": clauses, "src": "race"}, detail="driver leg: trace %s (throughput calculation calls of the real Driver in a simulated race) first failing call %d" % (tid, fails[0][0])))
    for tid, lines in verdicts.l2.items():
        out.drift.append("driver leg: trace %s: call %d is not a FlushWith step of Throughput.tla" % (tid, lines[0]))
    out.extra["driver_leg"] = {"races": len(jobs), "task_traces": len(traces), "calculate_calls_validated": ncalls, "tasks_post_processed_in_several_batches": multi, "races_skipped_off_grid": skipped}
    out.note("driver leg: %d races on the real Driver, %d per-task traces (%d with >= 2 batches), %d calculate() calls validated by TLC" % (len(jobs), len(traces), multi, ncalls))


def replay(ctx, case):
    from ..core import Outcome

    out = Outcome(ctx.pid)
    if case.get("src") == "race":
        driver_leg(ctx, out, jobs=[case["job"]], label="replay")
        for v in out.violations:
            print("VIOLATION property=C06 clause=%s %s" % (v.clause, v.detail))
        for d in out.drift:
            print("MODEL-DRIFT property=C06 %s" % d)
        return 1 if out.violations else 0
    run_cases([case], out, "replay")
    for v in out.violations:
        print("VIOLATION property=C06 clause=%s %s" % (v.clause, v.detail))
    for d in out.drift:
        print("MODEL-DRIFT property=C06 %s" % d)
    return 1 if out.violations else 0
