"""C16 — retryable operations retry exactly as configured (esrally.driver.runner.Retry).

Leg M   : TLC on specs/Retry: every outcome sequence (10 outcome classes) x every parameter combination within the
          bounds; the property clauses and "the transcribed reaction equals the documented reaction" are invariants.
          Self-test: the pinned variant (OtherTransportPropagates = FALSE) must violate the property in the model.
Leg S2C : every maximal path of the TLC state space (history variable `calls`; repaired AND pinned variant of the model)
          plus TLC -simulate behaviours over wider alphabets are executed on the REAL runner.Retry, on a virtual-time
          asyncio loop, around a scripted delegate that raises real elasticsearch / elastic_transport / socket
          exception instances or returns dict / tuple / non-dict values.
Leg C2S : every recorded execution (those of S2C, seeded random ones with absent parameters / odd values, and runs
          through the runner chain registered by register_default_runners for every retryable operation type) is
          validated by TLC against TraceRetry.tla: L1 = clauses of the property, L2 = equals the transcription.
Table   : which operation types are wrapped in Retry (real registry) vs. marked retryable in docs/track.rst, compared
          by TLC as a finite table (documented but not wrapped = drift, wrapped but not documented = note).
"""
import asyncio
import glob
import os
import random
import re
import socket

from .. import tlc, tracecheck
from ..core import Violation
from ..fastdump import last_simulation_state, parse_dump
from ..tlaparse import parse_value

TICK = 0.25  # seconds per model tick (dyadic: float sums stay exact)
US = 1000000  # recorded time unit: microseconds
REPO = os.environ.get("VERIF_REPO", "/repo")

OUTCOMES = ["okDict", "okOther", "failDict", "connTimeout", "connError", "sockTimeout", "api408", "apiOther", "transportOther", "otherExc"]
VALUE_OUTCOMES = {"okDict", "okOther", "failDict"}
N_VARIANTS = 12


# ---------------------------------------------------------------------------------------------------
# virtual-time event loop: asyncio.sleep advances a virtual clock, nothing really sleeps
# ---------------------------------------------------------------------------------------------------
class VirtualTimeLoop(asyncio.SelectorEventLoop):
    def __init__(self):
        super().__init__()
        self.vt = 0.0

    def time(self):
        return self.vt

    def _run_once(self):
        if not self._ready and self._scheduled:
            live = [h._when for h in self._scheduled if not h._cancelled]  # pylint: disable=protected-access
            if live:
                w = min(live)
                if w > self.vt:
                    self.vt = w
        super()._run_once()


_LOOP = None


def loop():
    global _LOOP
    if _LOOP is None:
        _LOOP = VirtualTimeLoop()
        import atexit

        atexit.register(_LOOP.close)
    return _LOOP


class _Abort(BaseException):
    """Raised by the scripted delegate when the loop under test runs away (not catchable by `except Exception`)."""


# ---------------------------------------------------------------------------------------------------
# outcome classes -> real objects
# ---------------------------------------------------------------------------------------------------
def _meta(status):
    import elastic_transport

    return elastic_transport.ApiResponseMeta(
        status=status, http_version="1.1", headers=elastic_transport.HttpHeaders(), duration=0.0, node=elastic_transport.NodeConfig("http", "localhost", 9200)
    )


def _api(status, n):
    import elasticsearch

    cls = elasticsearch.exceptions.HTTP_EXCEPTIONS.get(status, elasticsearch.ApiError)
    return cls(message="verif_api_%d_%d" % (status, n), meta=_meta(status), body={"error": {"type": "verif_api_%d" % status, "root_cause": [{"reason": "r%d" % n}]}, "status": status})


def make_product(o, n, variant):
    """A fresh object of outcome class o for invocation n (distinguishable from the product of every other invocation)."""
    import elastic_transport
    import elasticsearch

    from esrally import exceptions

    v = variant
    if o == "okDict":
        return [{"success": True, "attempt": n}, {"attempt": n}, {"weight": n, "unit": "docs", "success": True}, {"success": True, "attempt": n, "error-count": 0}][v % 4]
    if o == "okOther":
        return [(n, "ops"), 1000 + n, None, [n], "result-%d" % n, (n, "docs", {"k": n}), float(n) + 0.5, True][v % 8]
    if o == "failDict":
        return [
            {"success": False, "attempt": n},
            {"success": False, "attempt": n, "error-type": "api", "error-description": "boom", "weight": 1, "unit": "ops"},
        ][v % 2]
    if o == "connTimeout":
        return [elasticsearch.ConnectionTimeout("verif_timeout_%d" % n), elastic_transport.ConnectionTimeout("verif_timeout_%d" % n, errors=(ValueError("inner"),))][v % 2]
    if o == "connError":
        return [elasticsearch.ConnectionError("verif_conn_%d" % n), elastic_transport.TlsError("verif_tls_%d" % n), elasticsearch.exceptions.SSLError("verif_ssl_%d" % n)][v % 3]
    if o == "sockTimeout":
        return [socket.timeout("verif_sock_%d" % n), asyncio.TimeoutError("verif_aio_%d" % n), TimeoutError("verif_to_%d" % n)][v % 3]
    if o == "api408":
        return _api(408, n)
    if o == "apiOther":
        return _api([404, 400, 500, 429, 409, 401, 403, 503, 502, 504, 413, 410][v % 12], n)
    if o == "transportOther":
        return [
            elastic_transport.SerializationError("verif_ser_%d" % n),
            elastic_transport.TransportError("verif_transport_%d" % n),
            elastic_transport.SniffingError("verif_sniff_%d" % n),
        ][v % 3]
    if o == "otherExc":
        return [
            KeyError("verif_key_%d" % n),
            exceptions.RallyTaskAssertionError("verif_assert_%d" % n),
            exceptions.DataError("verif_data_%d" % n),
            ValueError("verif_value_%d" % n),
            RuntimeError("verif_rt_%d" % n),
        ][v % 5]
    raise tlc.MachineryError("unknown outcome class %r" % (o,))


def _same_exception(a, b):
    if type(a) is not type(b):
        return False
    if a.args != b.args:
        return False
    for attr in ("message", "status_code", "body", "errors"):
        if getattr(a, attr, None) != getattr(b, attr, None):
            return False
    return True


def _same_value(a, b):
    return type(a) is type(b) and a == b


# ---------------------------------------------------------------------------------------------------
# documented defaults and the documented list of retryable operations (docs/track.rst, read on every run)
# ---------------------------------------------------------------------------------------------------
_DOC_CACHE = {}


def documented():
    if "d" in _DOC_CACHE:
        return _DOC_CACHE["d"]
    path = os.path.join(REPO, "docs", "track.rst")
    with open(path, "r", encoding="utf-8") as f:
        lines = f.read().split("\n")
    defaults = {}
    for ln in lines:
        m = re.match(r"^\* ``(retries|retry-until-success|retry-wait-period|retry-on-timeout|retry-on-error)`` \(optional, defaults? to (?:``)?([^`)\s]+)(?:``)?\)", ln)
        if m and m.group(1) not in defaults:
            raw = m.group(2)
            defaults[m.group(1)] = True if raw == "true" else False if raw == "false" else float(raw) if "." in raw else int(raw)
    heads = [i for i in range(1, len(lines)) if re.fullmatch(r"~{3,}", lines[i]) and lines[i - 1].strip()]
    retryable = {}
    for k, i in enumerate(heads):
        end = heads[k + 1] - 1 if k + 1 < len(heads) else len(lines)
        body = lines[i + 1 : end]
        # a section ends at the next heading of any level
        for j in range(1, len(body)):
            if re.fullmatch(r"(-{3,}|={3,}|\^{3,})", body[j]) and body[j - 1].strip():
                body = body[: j - 1]
                break
        retryable[lines[i - 1].strip()] = any("retryable <track_operations>" in b for b in body)
    _DOC_CACHE["d"] = (defaults, retryable)
    return _DOC_CACHE["d"]


def registry_table():
    """operation type -> (wrapped in Retry?, retry_until_success of that Retry instance) from the REAL registry."""
    from esrally import track
    from esrally.driver import runner

    runner.register_default_runners()
    _REGISTERED.append(True)
    table = {}
    for ot in track.OperationType:
        name = ot.to_hyphenated_string()
        try:
            r = runner.runner_for(name)
        except Exception:  # pylint: disable=broad-except
            continue
        found = _find_retry(r)
        table[name] = (found is not None, bool(found.retry_until_success) if found is not None else False)
    return table


def _find_retry(chain):
    from esrally.driver import runner

    x = chain
    seen = 0
    while x is not None and seen < 20:
        if isinstance(x, runner.Retry):
            return x
        x = getattr(x, "delegate", None)
        seen += 1
    return None


# ---------------------------------------------------------------------------------------------------
# executing one case on the real Retry
# ---------------------------------------------------------------------------------------------------
PARAM_KEYS = {"retries": "retries", "until": "retry-until-success", "wait": "retry-wait-period", "onTimeout": "retry-on-timeout", "onError": "retry-on-error"}


def effective(case):
    """Effective parameters of a case: explicit value, else the Retry instance's constructor flag (until), else the documented default."""
    defaults, _ = documented()
    p = case["params"]
    eff = {}
    for k, key in PARAM_KEYS.items():
        if key in p:
            eff[k] = p[key]
        elif k == "until":
            eff[k] = case["ctor_until"]
        else:
            if key not in defaults:
                raise tlc.MachineryError("no documented default for %s" % key)
            eff[k] = defaults[key]
    return eff


_EXPLICIT_IF_UNDOCUMENTED = {"retries": 0, "retry-wait-period": 0.5, "retry-on-timeout": True, "retry-on-error": False}


def complete_params(case):
    """If docs/track.rst no longer states a default for a parameter, the harness passes that parameter explicitly (its own choice
    of value), so that no verdict depends on an undocumented default."""
    defaults, _ = documented()
    for key, val in _EXPLICIT_IF_UNDOCUMENTED.items():
        if key not in defaults and key not in case["params"]:
            case["params"][key] = val
    return case


def _us(x):
    return int(round(x * US))


_REGISTERED = []


def execute(case, shared=None):
    """case: {src, ctor_until, params {track-level names}, script [[o, dur_seconds, variant], ...], op (optional registry op)}.

    shared: None, or a dict that carries the parameter object and the Retry instance from one invocation of a task to the next
    (the load generator hands the SAME dict - ParamSource.params() - to every invocation of a task and keeps one runner object).
    Returns the item for TraceRetry.tla."""
    from esrally.driver import runner

    lp = loop()
    lp.vt = 0.0
    complete_params(case)
    script = case["script"]
    cap = len(script) + 3
    calls = []
    products = []

    class Delegate:
        async def __call__(self, es, params):
            i = len(calls)
            if i >= cap:
                raise _Abort()
            o, d, var = script[i] if i < len(script) else ("okDict", 0, 0)
            s = lp.time()
            if d:
                await asyncio.sleep(d)
            prod = make_product(o, i + 1, var)
            calls.append({"o": o, "s": _us(s), "e": _us(lp.time())})
            products.append(prod)
            if o in VALUE_OUTCOMES:
                return prod
            raise prod

        async def __aenter__(self):
            return self

        async def __aexit__(self, *a):
            return False

        def __repr__(self):
            return "scripted-delegate"

    delegate = Delegate()
    if shared is None:
        params = dict(case["params"])
    else:
        params = shared.setdefault("params", dict(case["params"]))
    retry_before = {k: params[k] for k in PARAM_KEYS.values() if k in params}
    op = case.get("op")
    if op:
        if not _REGISTERED:
            runner.register_default_runners()
            _REGISTERED.append(True)
        chain = runner.runner_for(op)
        rt = _find_retry(chain)
        if rt is None:
            raise tlc.MachineryError("operation %s is not wrapped in Retry" % op)
        saved = rt.delegate
        rt.delegate = delegate
        target, es = chain, {"default": None}
    elif shared is not None and shared.get("rt") is not None:
        rt = shared["rt"]
        saved = rt.delegate
        rt.delegate = delegate
        target, es = rt, None
    else:
        rt = runner.Retry(delegate, retry_until_success=case["ctor_until"])
        saved = None
        target, es = rt, None
        if shared is not None:
            shared["rt"] = rt

    async def go():
        try:
            return ("returned", await target(es, params))
        except _Abort:
            return ("aborted", None)
        except BaseException as ex:  # pylint: disable=broad-except
            return ("raised", ex)

    try:
        kind, res = lp.run_until_complete(go())
    finally:
        if saved is not None:
            rt.delegate = saved
    t_end = lp.time()
    retry_after = {k: params[k] for k in PARAM_KEYS.values() if k in params}
    untouched = retry_after == retry_before and all(type(retry_after[k]) is type(retry_before[k]) for k in retry_after)
    of, same = -1, False
    if kind == "returned":
        if not calls and res is None:
            of, same = 0, True
        else:
            cands = [j for j, pr in enumerate(products) if calls[j]["o"] in VALUE_OUTCOMES and _same_value(pr, res)]
            if cands:
                j = cands[-1] if len(products) - 1 in cands else cands[0]
                of, same = j + 1, products[j] is res
    elif kind == "raised":
        cands = [j for j, pr in enumerate(products) if calls[j]["o"] not in VALUE_OUTCOMES and _same_exception(pr, res)]
        if cands:
            j = cands[-1] if len(products) - 1 in cands else cands[0]
            of, same = j + 1, products[j] is res
    eff = effective(case)
    c = {"retries": int(eff["retries"]), "until": bool(eff["until"]), "onTimeout": bool(eff["onTimeout"]), "onError": bool(eff["onError"]), "wait": _us(eff["wait"])}
    detail = "" if kind != "raised" or of != -1 else "%s: %s" % (type(res).__name__, res)
    if not untouched:
        detail = (detail + " retry parameters of the caller before the call: %s, after: %s" % (retry_before, retry_after)).strip()
    return {"kind": "run", "c": c, "calls": calls, "st": {"k": kind, "of": of if kind != "aborted" else 0}, "t": _us(t_end), "same": bool(same), "pu": bool(untouched)}, detail


# ---------------------------------------------------------------------------------------------------
# case sources
# ---------------------------------------------------------------------------------------------------
def _params_from_cfg(cfg, rnd, ctor_until):
    """Explicit track-level parameters for a model configuration; parameters equal to their default are sometimes left out."""
    defaults, _ = documented()
    p = {}
    vals = {
        "retries": int(cfg["retries"]),
        "retry-until-success": bool(cfg["until"]),
        "retry-wait-period": cfg["wait"] * TICK,
        "retry-on-timeout": bool(cfg["onTimeout"]),
        "retry-on-error": bool(cfg["onError"]),
    }
    for key, val in vals.items():
        dflt = ctor_until if key == "retry-until-success" else defaults.get(key)
        if dflt is not None and val == dflt and type(val) is type(dflt) and rnd.random() < 0.5:
            continue
        p[key] = val
    if isinstance(p.get("retry-wait-period"), float) and p["retry-wait-period"].is_integer() and rnd.random() < 0.5:
        p["retry-wait-period"] = int(p["retry-wait-period"])
    return p


def _case_from_state(st, rnd, src):
    cfg = {k: (bool(v) if isinstance(v, bool) else int(v)) for k, v in st["cfg"].items()}
    script = [[str(c["o"]), (c["e"] - c["s"]) * TICK, rnd.randrange(N_VARIANTS)] for c in st["calls"]]
    ctor_until = rnd.random() < 0.3
    return {"src": src, "ctor_until": ctor_until, "params": _params_from_cfg(cfg, rnd, ctor_until), "script": script}


def _key(case):
    eff = effective(complete_params(case))
    return (eff["retries"], eff["until"], eff["onTimeout"], eff["onError"], eff["wait"], tuple((o, d) for o, d, _ in case["script"]))


def paths_from_dump(out, cfg_name, max_depth, rnd, src, check):
    wd = tlc.prepare_workdir("Retry", "c16mc")
    dump = os.path.join(wd, "states.dump")
    res = tlc.run_tlc(wd, "MC_Retry", cfg_name, timeout=1500, dump=dump, allow_violation=True)
    out.add_tlc(res)
    if check and not res.ok:
        raise tlc.MachineryError("model violates %s in %s (the repaired transcription is supposed to satisfy the property): %s" % (res.invariant_violated, cfg_name, res.out[-1500:]))
    if not check and (res.invariant_violated or res.deadlock):
        raise tlc.MachineryError("unexpected violation in %s: %s" % (cfg_name, res.out[-1500:]))
    paths = []
    n_states = 0
    for st in parse_dump(dump + ".dump" if os.path.exists(dump + ".dump") else dump):
        n_states += 1
        terminal = st["status"]["k"] != "running"
        if not terminal and len(st["calls"]) < max_depth:
            continue  # a proper prefix of other paths
        paths.append(st)
    # TLC's workers write the dump in a run-dependent order: sort before any seeded choice is made
    paths.sort(key=lambda st: (sorted(st["cfg"].items()), [(c["o"], c["s"], c["e"]) for c in st["calls"]]))
    cases = [_case_from_state(st, rnd, src) for st in paths]
    out.note("%s: %d states (depth %d, %.1fs) -> %d maximal paths" % (cfg_name, n_states, res.depth, res.wall_s, len(cases)))
    return cases


def behaviours_from_sim(ctx, out, cfg_name, num, depth, rnd, src, seed_off):
    wd = tlc.prepare_workdir("Retry", "c16sim")
    simdir = os.path.join(wd, "sim")
    os.makedirs(simdir)
    res = tlc.run_tlc(wd, "MC_Retry", cfg_name, workers=1, simulate={"num": num, "file": os.path.join(simdir, "b")}, depth=depth, seed=ctx.seed + seed_off, timeout=900)
    if not res.ok:
        raise tlc.MachineryError("simulation reported a model violation: %s" % res.out[-2000:])
    out.add_tlc(res)
    cases = []
    for fn in sorted(glob.glob(os.path.join(simdir, "b_*"))):
        st = last_simulation_state(fn, crosscheck=len(cases) < 5)
        if st is not None:
            cases.append(_case_from_state(st, rnd, src))
    return cases


WEIGHTED = ["failDict"] * 3 + ["connTimeout"] * 3 + ["connError"] * 3 + ["sockTimeout"] * 3 + ["api408"] * 3 + ["transportOther"] * 2 + ["okDict", "okOther", "apiOther", "otherExc"]


def share_params(cases, rnd, prefix):
    """Turns half of the runs of consecutive cases with the same effective parameters into histories of 2..4 invocations of one
    task: the members of a history get the same `group` id; they are executed in order on ONE Retry instance with ONE parameter
    object (the first member's parameters and constructor flag), as the load generator does."""
    i, gid = 0, 0
    while i < len(cases):
        j = i + 1
        k0 = _key(cases[i])[:5] + (cases[i].get("op"),)
        limit = rnd.randint(2, 4)
        while j < len(cases) and j - i < limit and _key(cases[j])[:5] + (cases[j].get("op"),) == k0:
            j += 1
        if j - i >= 2 and rnd.random() < 0.5:
            gid += 1
            for c in cases[i:j]:
                c["group"] = "%s%d" % (prefix, gid)
                c["params"] = dict(cases[i]["params"])
                c["ctor_until"] = cases[i]["ctor_until"]
        i = j
    return cases


def random_cases(seed, n, ops=None):
    """Cases that are NOT derived from TLC: odd parameter values, absent parameters, constructor flag, wider durations; half of them
    come as histories of 2..4 invocations of one task (same parameters, consecutive)."""
    rnd = random.Random(seed)
    cases = []
    history = 0
    for _ in range(n):
        if history > 0:
            # next invocation of the same task: same parameters, new outcomes
            history -= 1
            prev = cases[-1]
            script = []
            for _i in range(rnd.randint(0, 8)):
                o = rnd.choice(WEIGHTED) if rnd.random() < 0.85 else rnd.choice(OUTCOMES)
                script.append([o, rnd.choice([0, 0, 0.125, 0.25, 1, 0.003]), rnd.randrange(N_VARIANTS)])
            case = dict(prev, params=dict(prev["params"]), script=script)
            cases.append(case)
            continue
        p = {}
        if rnd.random() < 0.7:
            p["retries"] = rnd.choice([-1, 0, 0, 1, 1, 2, 3, 5, 8])
        if rnd.random() < 0.35:
            p["retry-until-success"] = rnd.random() < 0.5
        if rnd.random() < 0.7:
            p["retry-wait-period"] = rnd.choice([0, 0.001, 0.1, 0.25, 0.5, 1, 2.5, 2, 0.75, 10])
        if rnd.random() < 0.6:
            p["retry-on-timeout"] = rnd.random() < 0.7
        if rnd.random() < 0.6:
            p["retry-on-error"] = rnd.random() < 0.6
        if rnd.random() < 0.3:
            p.update({"index": "logs-*", "request-timeout": 7, "name": "some-task"})
        length = rnd.randint(0, 10)
        script = []
        for _i in range(length):
            o = rnd.choice(WEIGHTED) if rnd.random() < 0.85 else rnd.choice(OUTCOMES)
            script.append([o, rnd.choice([0, 0, 0.125, 0.25, 1, 0.003]), rnd.randrange(N_VARIANTS)])
        case = {"src": "random", "ctor_until": rnd.random() < 0.25, "params": p, "script": script}
        if ops:
            op, until = rnd.choice(ops)
            case["op"] = op
            case["ctor_until"] = until
            case["src"] = "registry"
        if rnd.random() < 0.3:
            history = rnd.randint(1, 3)
        cases.append(case)
    return share_params(cases, random.Random(seed + 1), "r")


# ---------------------------------------------------------------------------------------------------
def _doc_retryable(c, o):
    return (o in ("connTimeout", "sockTimeout", "api408", "connError") and c["onTimeout"]) or (o == "failDict" and (c["until"] or c["onError"]))


def _signature(item, clauses, case=None):
    """Describes the kind of failing input: after which outcome classes an attempt followed illegally / without the wait."""
    sig = _signature0(item, clauses)
    if case is not None and case.get("before"):
        sig["later_invocation_with_shared_params"] = True
    return sig


def _signature0(item, clauses):
    c, calls = item["c"], item["calls"]
    trig = set()
    for i in range(len(calls) - 1):
        if not _doc_retryable(c, calls[i]["o"]) or calls[i + 1]["s"] - calls[i]["e"] != c["wait"]:
            trig.add(calls[i]["o"])
    sig = {"clauses": sorted(clauses), "trigger": ",".join(sorted(trig)) or "-"}
    if not trig:
        sig["last_outcome"] = calls[-1]["o"] if calls else "-"
        sig["finished"] = item["st"]["k"]
    return sig


SITUATIONS = {}
SHARED = {}


def _count_situations(item):
    """(outcome class, retry-on-timeout, effective retry-on-error, is it the last allowed attempt) observed at an invocation."""
    c = item["c"]
    for j, call in enumerate(item["calls"]):
        key = (call["o"], c["onTimeout"], c["until"] or c["onError"], (not c["until"]) and j + 1 >= c["retries"] + 1)
        SITUATIONS[key] = SITUATIONS.get(key, 0) + 1


def run_cases(cases, out, label, chunk=60000):
    items = []
    index = {}
    group, shared, before = None, None, []
    n_shared = 0
    for ci, case in enumerate(cases):
        if case.get("group") is not None and case["group"] == group:
            case = dict(case, before=[list(map(list, b)) for b in before])  # replayable: the earlier invocations of this history
            n_shared += 1
        elif case.get("group") is not None:
            group, shared, before = case["group"], {}, []
        else:
            group, shared, before = None, None, []
        item, detail = execute(case, shared)
        if group is not None:
            before.append(case["script"])
        _count_situations(item)
        item["id"] = "%s-%d" % (label, ci)
        items.append(item)
        index[item["id"]] = (case, item, detail)
        out.add_case(_key(case) + (case.get("op"),), nontrivial=len(item["calls"]) >= 2)
    if not items:
        raise tlc.MachineryError("no cases for %s" % label)
    SHARED["later_invocations"] = SHARED.get("later_invocations", 0) + n_shared
    verdicts = tracecheck.validate("Retry", "TraceRetry", "TraceRetry.cfg", items, name="c16trace", chunk=chunk, timeout=1500)
    out.traces_validated += verdicts.accepted(len(items))
    for tid, fails in verdicts.l1.items():
        case, item, detail = index[tid]
        clauses = sorted({c for _, cl in fails for c in cl})
        out.violations.append(
            Violation(
                ",".join(clauses),
                case,
                signature=_signature(item, clauses, case),
                detail="params=%s ctor_until=%s%s outcomes=%s -> calls(us)=%s finished=%s at %d us %s"
                % (case["params"], case["ctor_until"], (" after %d earlier invocation(s) with the same parameter object %s" % (len(case["before"]), [[s[0] for s in b] for b in case["before"]])) if case.get("before") else "", [s[0] for s in case["script"]], [(c["o"], c["s"], c["e"]) for c in item["calls"]], item["st"], item["t"], detail),
            )
        )
    for tid in verdicts.l2:
        case, item, _ = index[tid]
        out.drift.append("run %s: params=%s outcomes=%s recorded calls=%s st=%s t=%d same=%s is not the transcription's behaviour" % (tid, case["params"], [s[0] for s in case["script"]], item["calls"], item["st"], item["t"], item["same"]))
    return items


def check_table(out):
    _, doc = documented()
    reg = registry_table()
    rows = []
    for name in sorted(reg):
        rows.append({"id": "op:" + name, "kind": "table", "op": name, "wrapped": reg[name][0], "until": reg[name][1], "documented": bool(doc.get(name, False))})
    for name in sorted(doc):
        if doc[name] and name not in reg:
            rows.append({"id": "op:" + name, "kind": "table", "op": name, "wrapped": False, "until": False, "documented": True})
    v = tracecheck.validate("Retry", "TraceRetry", "TraceRetry.cfg", rows, name="c16table")
    undocumented = []
    for ln in v.result.printed:
        if ln.startswith('<<"N"'):
            undocumented.append(parse_value(ln)[1][3:])
    for tid in v.l2:
        out.drift.append("operation %s is documented as retryable in docs/track.rst but is not wrapped in Retry by register_default_runners" % tid[3:])
    out.extra["retry_table"] = {
        "wrapped": sorted(n for n in reg if reg[n][0]),
        "wrapped_until_success_by_default": sorted(n for n in reg if reg[n][1]),
        "not_wrapped": sorted(n for n in reg if not reg[n][0]),
        "wrapped_but_not_documented_as_retryable": sorted(undocumented),
        "documented_but_not_wrapped": sorted(t[3:] for t in v.l2),
    }
    if undocumented:
        out.note("wrapped in Retry but not marked retryable in docs/track.rst (documentation gap, not a property violation): %s" % sorted(undocumented))
    out.traces_validated += v.accepted(len(rows))
    return [(n, reg[n][1]) for n in sorted(reg) if reg[n][0]]


def run(ctx, out):
    out.rule = (
        "case = (effective retry parameters, sequence of (outcome class, duration) of the delegate's invocations[, registered operation type]); distinct by "
        "hash; non-trivial = at least 2 invocations observed. Sources: every maximal path of the TLC state space of Retry.tla (repaired and pinned variant), "
        "TLC -simulate behaviours over wider alphabets, seeded random cases (absent parameters -> documented defaults, constructor flag, odd wait periods), "
        "random cases through the runner chain registered for every retryable operation type."
    )
    out.assumptions = [
        "outcome classes: success dict, non-dict, dict with success=False, elasticsearch ConnectionTimeout / ConnectionError (incl. TlsError) / socket.timeout / ApiError 408 / "
        "other ApiError / other TransportError (SerializationError, SniffingError, plain) / exceptions outside these hierarchies; objects are real instances of elasticsearch-py 8.6.1",
        "time is observed on a virtual-time asyncio loop (asyncio.sleep advances the clock); recorded in microseconds",
        "'returns/raises exactly what that attempt produced' is judged by type and equality (L1); object identity is only required at L2",
        "an absent parameter means its documented default (docs/track.rst, parsed on every run); retry-until-success defaults to the Retry instance's constructor flag",
        "half of the cases are executed as histories of 2..4 invocations of one task: one Retry instance and ONE parameter dict object for all of them (ParamSource.params() returns "
        "the same dict for every invocation); every invocation is judged against the parameters the task configured, and must leave the retry parameters it was handed unchanged",
        "retries < 0 is degenerate: 'at most retries + 1 = 0 attempts' is met by returning None without calling the delegate (reported as a note, not as a violation)",
        "'retry exactly as configured' is read as an obligation too: the loop must not give up while a documented retry is configured and attempts remain",
    ]
    rnd = random.Random(ctx.seed + 16)
    quick = ctx.quick
    # ---- Leg M + exhaustive path enumeration (history variable)
    main_cfg = "Retry.quick.cfg" if quick else "Retry.thorough.cfg"
    depth = 4 if quick else 6
    cases = paths_from_dump(out, main_cfg, depth, rnd, "tlc-paths", check=True)
    out.exhaustive = True
    pinned_paths = paths_from_dump(out, "Retry.pinnedpaths.cfg", 4, rnd, "tlc-paths-pinned", check=False)
    wd = tlc.prepare_workdir("Retry", "c16pinned")
    res = tlc.run_tlc(wd, "MC_Retry", "Retry.pinned.cfg", timeout=600, allow_violation=True)
    if res.invariant_violated != "PropertyHolds":
        raise tlc.MachineryError("self-test failed: the pinned variant of the model (OtherTransportPropagates=FALSE) does not violate PropertyHolds")
    out.extra["model_selftest"] = "pinned variant (OtherTransportPropagates=FALSE: other TransportError swallowed, next attempt at once) violates PropertyHolds in the model, as expected"
    seen = {_key(c) for c in cases}
    extra = [c for c in pinned_paths if _key(c) not in seen]
    out.note("leg S2C: %d maximal paths of the repaired model + %d further paths of the pinned model" % (len(cases), len(extra)))
    cases += extra
    share_params(cases, rnd, "p")
    # ---- simulation over wider alphabets
    nsim = 1500 if quick else 20000
    sims = []
    sims += behaviours_from_sim(ctx, out, "Retry.sim.cfg", nsim, 10, rnd, "tlc-simulate", 1)
    sims += behaviours_from_sim(ctx, out, "Retry.simheavy.cfg", nsim, 10, rnd, "tlc-simulate", 2)
    sims += behaviours_from_sim(ctx, out, "Retry.simpinned.cfg", nsim, 10, rnd, "tlc-simulate-pinned", 3)
    out.note("leg S2C: %d TLC -simulate behaviours" % len(sims))
    items = run_cases(cases, out, "path")
    mid = len(cases) // 2
    out.sample({"source": cases[mid]["src"], "params": cases[mid]["params"], "script": cases[mid]["script"], "recorded": {k: items[mid][k] for k in ("c", "calls", "st", "t")}})
    items = run_cases(sims, out, "sim")
    longest = max(range(len(sims)), key=lambda i: len(items[i]["calls"]))
    out.sample({"source": sims[longest]["src"], "params": sims[longest]["params"], "script": sims[longest]["script"], "recorded": {k: items[longest][k] for k in ("c", "calls", "st", "t")}})
    # ---- registry table + runs through the registered chains
    retryable_ops = check_table(out)
    missing = sorted(k for k in _EXPLICIT_IF_UNDOCUMENTED if k not in documented()[0])
    if missing:
        out.note("docs/track.rst states no default for %s: these parameters are always passed explicitly" % missing)
    # ---- cases not derived from TLC
    rnd_cases = random_cases(ctx.seed + 160, 3000 if quick else 60000)
    items = run_cases(rnd_cases, out, "rnd")
    out.sample({"source": "random", "params": rnd_cases[0]["params"], "ctor_until": rnd_cases[0]["ctor_until"], "script": rnd_cases[0]["script"], "recorded": {k: items[0][k] for k in ("c", "calls", "st", "t")}})
    if retryable_ops:
        per_op = 25 if quick else 400
        reg_cases = random_cases(ctx.seed + 161, per_op * len(retryable_ops), ops=retryable_ops)
        # make sure every retryable operation type is exercised
        for i, (op, until) in enumerate(retryable_ops):
            reg_cases[i]["op"], reg_cases[i]["ctor_until"] = op, until
            reg_cases[i].pop("group", None)
        items = run_cases(reg_cases, out, "reg")
        out.extra["registered_chains_exercised"] = len({c["op"] for c in reg_cases})
        out.sample({"source": "registry", "op": reg_cases[0]["op"], "params": reg_cases[0]["params"], "script": reg_cases[0]["script"], "recorded": {k: items[0][k] for k in ("c", "calls", "st", "t")}})
    degenerate = sum(1 for c in cases + rnd_cases if effective(c)["retries"] < 0 and not effective(c)["until"])
    out.note("degenerate configuration retries=-1 (no attempt, None returned): %d cases, accepted by the property as stated" % degenerate)
    out.note("leg C2S: %d executions validated by TLC" % out.traces_validated)
    out.extra["later_invocations_sharing_params_and_runner"] = SHARED.get("later_invocations", 0)
    if not SHARED.get("later_invocations"):
        out.vacuous.append("no history of several invocations sharing one parameter object was executed")
    missing = [(o, a, b, last) for o in OUTCOMES for a in (False, True) for b in (False, True) for last in (False, True) if not SITUATIONS.get((o, a, b, last))]
    out.extra["situations_exercised"] = "%d of %d (outcome class x retry-on-timeout x retry-on-error x last attempt or not), least often: %d executions" % (
        80 - len(missing),
        80,
        min(SITUATIONS.values()) if SITUATIONS else 0,
    )
    if missing:
        out.vacuous.append("situations never exercised on the implementation: %s" % missing[:5])
    # report the smallest failing case of every kind first
    out.violations.sort(key=lambda v: (len(v.case.get("before", [])), len(v.case["script"]), len(repr(v.case)), repr(v.case)))


def replay(ctx, case):
    shared = None
    if case.get("before") or case.get("group") is not None:
        # earlier invocations of the same task: same Retry instance, same parameter object
        shared = {}
        for b in case.get("before", []):
            execute(dict(case, script=b), shared)
    item, detail = execute(case, shared)
    item["id"] = "replay"
    v = tracecheck.validate("Retry", "TraceRetry", "TraceRetry.cfg", [item], name="c16replay")
    print("params=%s ctor_until=%s script=%s" % (case["params"], case["ctor_until"], case["script"]))
    print("recorded: c=%s calls=%s st=%s t=%d same=%s %s" % (item["c"], item["calls"], item["st"], item["t"], item["same"], detail))
    for _tid, fails in v.l1.items():
        print("VIOLATION property=C16 clause=%s" % ",".join(fails[0][1]))
    for _tid in v.l2:
        print("MODEL-DRIFT property=C16 recorded run is not the transcription's behaviour")
    return 1 if v.l1 else 0
