"""C18 — request timings span all sub-requests and never leak between clients.

Leg M   : TLC on specs/ReqContext (repaired variant MinMaxPropagation = TRUE): every program of up to N tasks / contexts / wire
          requests, every interleaving and completion order, every with block left normally or by an exception (failed
          sub-request); invariants SpanStart, SpanEnd, LeafExact, action property NoLeak.
          Self-tests: the as-written propagation (MinMaxPropagation = FALSE) must violate SpanStart / SpanEnd in the model, TLC's
          counterexamples are executed on the real code as further S2C cases; the as-written caller (StreamsAwaited = FALSE: tasks
          left behind after a failed sub-request, Composite before f822262) must violate the property in the model, too.
Leg S2C : TLC -simulate behaviours (wider bounds) are completed to closed scenarios and executed
          (a) step by step by scripted coroutines on the REAL RequestContextHolder / RequestContextManager (virtual clock),
          (b) projected onto composite operations and run by the REAL AsyncExecutor (on-error=continue) -> Composite ->
              RequestTiming -> raw-request / search / paginated-search runners against a scripted fake Elasticsearch (latencies,
              chunks, ConnectionTimeout / ApiError for a sub-request whose block raises in the behaviour), all clients in one loop.
Wire leg: harness/wireleg.py - the REAL EsClientFactory.create_async() client (aiohttp trace hooks that call on_request_start /
          on_request_end) against a scripted HTTP server on 127.0.0.1 in real time: several sequential / concurrent wire requests,
          nested contexts, late and streamed bodies, timeouts and aborted connections; judged by TLC (specs/WireTiming).
Leg C2S : every recorded execution (those of S2C and seeded random scripts / composite cases not derived from TLC: ties between
          instants, deeper trees, sleeps, connection limits, throttled requests) is validated by TLC against TraceReqContext.tla:
          L1 = the property clauses on the recorded state (+ what reached the sampler), L2 = each step is the transcription's.
"""
import glob
import os
import random

from .. import reqctxsim as R
from .. import tlc, tracecheck, wireleg
from ..core import Violation
from ..tlaparse import parse_simulation_file, parse_state, parse_value

ACTIONS = ["Enter", "WireStart", "WireEnd", "Exit", "Spawn", "Join"]
UNAWAITED = "a task left its block / ended while tasks it created inside were still running (caller as written before f822262, StreamsAwaited=FALSE)"
KNOWN_BEHAVIOUR = "as-written propagation (first child to exit sets start if absent, last child to exit overwrites end, None included)"


# ---------------------------------------------------------------------------------------------------
# TLC behaviours -> scripts
# ---------------------------------------------------------------------------------------------------
def _script_from_states(states, rnd, src):
    first = states[0]
    ts0 = first["ts"]
    if isinstance(ts0, dict):
        roots = sorted(t for t, v in ts0.items() if v == "run")
    else:
        roots = [i + 1 for i, v in enumerate(ts0) if v == "run"]
    steps = []
    for st in states[1:]:
        a = st["act"]
        # 4th component: WireEnd - last call for this request; Exit - the block is left by an exception
        steps.append((str(a["name"]), int(a["t"]), int(a["u"]), bool(a["raised"] if a["name"] == "Exit" else a["last"]), int(st["clock"])))
    if not steps:
        return None
    steps = R.complete(roots, steps, rnd, p_raise=0.3)
    return {"kind": "script", "src": src, "roots": roots, "steps": [list(s) for s in steps]}


def behaviours_from_tlc(ctx, out, cfg, num, depth, seed):
    wd = tlc.prepare_workdir("ReqContext", "c18sim")
    simdir = os.path.join(wd, "sim")
    os.makedirs(simdir)
    res = tlc.run_tlc(wd, "MC_ReqContext", cfg, workers=1, simulate={"num": num, "file": os.path.join(simdir, "b")}, depth=depth, seed=seed, timeout=900)
    if not res.ok:
        raise tlc.MachineryError("simulation reported a model violation: %s" % res.out[-2000:])
    out.add_tlc(res)
    rnd = random.Random(seed)
    scripts = []
    seen = set()
    for fn in sorted(glob.glob(os.path.join(simdir, "b_*"))):
        sc = _script_from_states(parse_simulation_file(fn), rnd, "tlc-simulate")
        if sc is None:
            continue
        key = R.dumps(sc["steps"])
        if key in seen:
            continue
        seen.add(key)
        scripts.append(sc)
    return scripts


def script_from_counterexample(res, rnd):
    states = [parse_state(text) for _label, text in res.counterexample]
    return _script_from_states(states, rnd, "tlc-counterexample")


# ---------------------------------------------------------------------------------------------------
# executing and validating
# ---------------------------------------------------------------------------------------------------
def execute(case):
    if case["kind"] == "script":
        return R.run_script(case)
    if case["kind"] == "composite":
        tr = R.run_composite(case)
        if len(case["clients"]) > 1:
            # every client once more, alone, with the same scripted latencies: what it records must not depend on the others
            for ci, cl in enumerate(case["clients"]):
                solo = R.run_composite({"kind": "composite", "clients": [cl]})
                alone = [e for e in solo["ev"] if e["a"] == "Sample"]
                together = [e for e in tr["ev"] if e["a"] == "Sample" and e["t"] == ci + 1]
                for k, e in enumerate(together):
                    if k < len(alone):
                        e["solo"] = [alone[k]["rs"], alone[k]["st"]]
                        e["solodeps"] = alone[k]["deps"]
                    else:
                        e["solo"] = [R.NONE, R.NONE]
                        e["solodeps"] = []
        return tr
    raise tlc.MachineryError("unknown case kind %r" % (case.get("kind"),))


def _features(tr, feats):
    ev = tr["ev"]
    for e in ev:
        feats[e["a"]] = feats.get(e["a"], 0) + 1
    if any(e["a"] == "WireEnd" and not e["last"] for e in ev):
        feats["chunked-end"] = feats.get("chunked-end", 0) + 1
    if len(tr["roots"]) > 1:
        root = {r: r for r in tr["roots"]}
        order = []
        for e in ev:
            if e["a"] == "Spawn":
                root[e["u"]] = root[e["t"]]
            if e["a"] in ("WireStart", "WireEnd") and (not order or order[-1] != root[e["t"]]):
                order.append(root[e["t"]])
        if len(order) > len(set(order)):  # wire events of different clients interleave
            feats["several-clients"] = feats.get("several-clients", 0) + 1
    if any(e["a"] == "Enter" and e["par"] != 0 for e in ev):
        feats["nested"] = feats.get("nested", 0) + 1
    if sum(1 for e in ev if e["a"] == "Spawn") >= 2:
        feats["concurrent-children"] = feats.get("concurrent-children", 0) + 1
    if any(e["a"] == "Sample" and len(e["deps"]) >= 2 for e in ev):
        feats["composite-with-sub-requests"] = feats.get("composite-with-sub-requests", 0) + 1
    if any(e["a"] == "Exit" and e["raised"] for e in ev):
        feats["exit-by-exception"] = feats.get("exit-by-exception", 0) + 1
    if len(tr["roots"]) > 1 and any(e["a"] == "Sample" for e in ev):
        feats["clients-compared-with-solo-run"] = feats.get("clients-compared-with-solo-run", 0) + 1
    if any(e["a"] == "Sample" and not e["ok"] for e in ev):
        feats["composite-with-failed-sub-request"] = feats.get("composite-with-failed-sub-request", 0) + 1


def _extra_tuples(text, heads):
    res = []
    lines = text.splitlines()
    i = 0
    while i < len(lines):
        ln = lines[i]
        if any(ln.startswith('<<"%s"' % h) or ln.startswith('<< "%s"' % h) for h in heads):
            buf = ln
            j = i
            while not tracecheck._balanced(buf):  # pylint: disable=protected-access
                j += 1
                if j >= len(lines) or j - i > 50:
                    raise tlc.MachineryError("unterminated tuple in TLC output: %r" % buf[:200])
                buf += "\n" + lines[j]
            res.append(parse_value(buf))
            i = j + 1
        else:
            i += 1
    return res


def _kinds(details):
    kinds = set()
    for _n, s, e, hs, he in details:
        if s < 0 or e < 0:
            kinds.add("none-recorded")
        if s >= 0 and s > hs:
            kinds.add("start-too-late")
        if s >= 0 and s < hs:
            kinds.add("start-too-early")
        if e >= 0 and e < he:
            kinds.add("end-too-early")
        if e >= 0 and e > he:
            kinds.add("end-too-late")
    return sorted(kinds)


def run_cases(cases, out, label, feats=None, chunk=400):
    """Executes the cases on the real code, validates the recordings with TLC; returns the traces."""
    traces = []
    index = {}
    for ci, case in enumerate(cases):
        tr = execute(case)
        tid = "%s-%d" % (label, ci)
        crash = tr.pop("crash")
        tr["id"] = tid
        traces.append(tr)
        index[tid] = (case, tr)
        if crash:
            out.drift.append("%s: the code under test raised during a disciplined execution: %s" % (tid, crash))
            out.extra["executions_that_raised"] = out.extra.get("executions_that_raised", 0) + 1
        if feats is not None:
            _features(tr, feats)
            if case["kind"] == "composite":
                limits = [{it["max_conn"] for it in cl["iters"] if it.get("max_conn")} for cl in case["clients"]]
                if any(limits):
                    feats["connection-limit"] = feats.get("connection-limit", 0) + 1
                if any(limits[i] & limits[j] for i in range(len(limits)) for j in range(i)):
                    feats["clients-with-the-same-connection-limit"] = feats.get("clients-with-the-same-connection-limit", 0) + 1
        nwire = sum(1 for e in tr["ev"] if e["a"] == "WireStart")
        nctx = sum(1 for e in tr["ev"] if e["a"] == "Enter")
        norm = {k: v for k, v in case.items() if k != "src"}
        out.add_case(norm, nontrivial=nwire >= 2 and nctx >= 2)
    if not traces:
        raise tlc.MachineryError("no traces produced for %s" % label)
    for c0 in range(0, len(traces), chunk):
        part = traces[c0 : c0 + chunk]
        verdicts = tracecheck.validate("ReqContext", "TraceReqContext", "TraceReqContext.cfg", part, name="c18trace", timeout=900)
        out.states += verdicts.n_events
        out.transitions += verdicts.n_events
        out.traces_validated += verdicts.accepted(len(part))
        pinned = {}
        unawaited = set()
        details = {}
        for t in _extra_tuples(verdicts.result.out, ("N", "D")):
            if t[0] == "N":
                if not t[2]:
                    pinned[t[1]] = bool(t[3])
                if not t[4]:
                    unawaited.add(t[1])
            else:
                details.setdefault(t[1], []).append((t[3], t[4], t[5], t[6], t[7]))
        for tid, fails in verdicts.l1.items():
            case, tr = index[tid]
            clauses = sorted({c for _, cl in fails for c in cl})
            det = details.get(tid, [])
            as_written = pinned.get(tid, False)
            sig = {
                "clauses": clauses,
                "level": case["kind"],
                "behaviour": KNOWN_BEHAVIOUR if as_written else "other",
                "discipline": UNAWAITED if tid in unawaited else "structured",
                "kinds": _kinds(det),
            }
            txt = "; ".join("context %d recorded (%s, %s), wire requests on its behalf span (%s, %s)" % d for d in det[:3])
            out.violations.append(
                Violation(
                    ",".join(clauses),
                    {k: v for k, v in case.items() if k != "src"},
                    signature=sig,
                    detail="trace %s event %d: %s [ticks of 1/%d s; -1 absent, -2 None]%s"
                    % (tid, fails[0][0], txt or "sample handed to the sampler differs", R.TPS, (" (steps conform to the as-written transcription)" if as_written else "") + (" (%s)" % UNAWAITED if tid in unawaited else "")),
                )
            )
        for tid, lines in verdicts.l2.items():
            case, tr = index[tid]
            ev = tr["ev"][lines[0] - 1] if 0 < lines[0] <= len(tr["ev"]) else {}
            out.drift.append(
                "trace %s: event %d (%s by task %s) is neither a step of the repaired nor of the as-written transcription in ReqContext.tla" % (tid, lines[0], ev.get("a"), ev.get("t"))
            )
        out.extra["traces_conforming_to_as_written_variant_only"] = out.extra.get("traces_conforming_to_as_written_variant_only", 0) + sum(1 for v in pinned.values() if v)
        out.extra["traces_with_tasks_left_behind"] = out.extra.get("traces_with_tasks_left_behind", 0) + len(unawaited)
    return traces


# ---------------------------------------------------------------------------------------------------
def run(ctx, out):
    quick = ctx.quick
    out.rule = (
        "case = one closed scenario: either a global sequence of steps (Enter / WireStart / WireEnd / Exit / Spawn / Join with task ids and "
        "instants) for scripted coroutines on the real RequestContextHolder, or a composite request structure per client and iteration "
        "(streams, operation types, per wire request delay / latency / chunk instants, max-connections, throttling) for AsyncExecutor + Composite; "
        "distinct by hash; non-trivial = at least 2 contexts and 2 wire requests. Sources: TLC -simulate behaviours of ReqContext.tla (S2C, both "
        "executors), TLC's counterexample for the as-written variant, seeded random scripts and composite cases (C2S only)."
    )
    out.assumptions = [
        "usage discipline of the callers (guards of the specification): one wire request at a time per asyncio task, with blocks are left "
        "innermost first, tasks created inside a with block are awaited before it is left (structured concurrency, as Composite.run_stream does)",
        "time.perf_counter never decreases; instants are multiples of 1/64 s on a virtual clock (exact floats); the model's clock is strictly "
        "increasing, recorded executions also contain equal instants",
        "'recorded for a logical request' = RequestContextManager.request_start / request_end when the with block is left and afterwards (AsyncExecutor "
        "and RequestTiming read them just before), and request_start / service_time / dependent_timing of the samples handed to the Sampler",
        "nothing is claimed for a request context on whose behalf no wire request was issued",
        "a wire request that fails (timeout, API error: on_request_end is called by the client's exception hook, the exception leaves the with block) has "
        "been issued on behalf of the enclosing requests like any other; in scripts the exception is handled right outside the block it leaves",
        "composite requests in which a stream fails while sibling streams are in flight are judged like all others: the requests of the sibling streams "
        "have been issued on behalf of the composite request, too. The trace specification accepts steps under the guards of the as-written caller "
        "(StreamsAwaited=FALSE: tasks may be left behind after a failure) so that such executions get an L1 verdict; coverage.traces_with_tasks_left_behind "
        "counts them (0 on a tree where Composite awaits its streams)",
        "observation: the code under test gets a subclass instance of the real RequestContextHolder (calls the real method, then records) and the real "
        "RequestContextManager behind a delegating proxy; absent / None of a timing is read from the manager's ctx dict; asyncio task creation is "
        "seen through the loop's task factory",
        "'timings of different clients never influence each other' on composite requests: all clients of a case run in one event loop through the one "
        "registered composite runner instance; each client is executed once more ALONE with the same scripted latencies (the fake client serves every "
        "request after its own scripted delay) and request_start / service_time / dependent timings of every sample must be identical (ClientIndependent)",
        "absolute_time of a sub-request (wall clock = epoch + virtual clock) must lie between the instant its timing context was entered and its first wire request",
        "composite driver: the schedule (ScheduleHandle) is replaced by a scripted one; sub-request samples are linked to their context by operation "
        "name where the request passes through perform_request (not for sleep), otherwise compared as a multiset",
    ]
    rnd = random.Random(ctx.seed + 18)
    # ---- Leg M
    cfgs = ["ReqContext.quick.cfg", "ReqContext.quick2.cfg"] if quick else ["ReqContext.quick.cfg", "ReqContext.quick2.cfg", "ReqContext.thorough.cfg", "ReqContext.thorough2.cfg", "ReqContext.thorough3.cfg"]
    for cfg in cfgs:
        wd = tlc.prepare_workdir("ReqContext", "c18mc")
        res = tlc.run_tlc(wd, "MC_ReqContext", cfg, workers=8, timeout=200 if quick else 1500, allow_violation=True)
        out.add_tlc(res)
        if not res.ok:
            raise tlc.MachineryError("the repaired variant of the model violates %s in %s: %s" % (res.invariant_violated or res.property_violated, cfg, res.out[-1500:]))
        out.note("leg M %s: %d distinct states (view), depth %d, %.1fs" % (cfg, res.distinct, res.depth, res.wall_s))
    out.exhaustive = False
    cexs = []
    selftest = []
    for cfg, expected in [
        ("ReqContext.pinned.cfg", ("SpanStart", "SpanEnd")),
        ("ReqContext.pinned2.cfg", ("ViolationsOnlyThroughNone",)),
        ("ReqContext.pinned3.cfg", ("SpanStart", "SpanEnd", "LeafExact")),
    ]:
        wd = tlc.prepare_workdir("ReqContext", "c18pinned")
        res = tlc.run_tlc(wd, "MC_ReqContext", cfg, workers=4, timeout=300, allow_violation=True)
        if res.invariant_violated not in expected:
            raise tlc.MachineryError("self-test failed: the as-written variant of the model does not violate %s in %s: %s" % ("/".join(expected), cfg, res.out[-800:]))
        if cfg == "ReqContext.pinned3.cfg":
            # the scenario itself leaves a task behind (that IS the as-written caller): nothing to execute on the repaired caller;
            # the situation is exercised through the real Composite by the composite cases with a failing sub-request
            selftest.append("%s: as-written caller (StreamsAwaited=FALSE) violates %s after %d steps, as expected" % (cfg, res.invariant_violated, len(res.counterexample) - 1))
            continue
        selftest.append("%s: as-written variant (MinMaxPropagation=FALSE) violates %s after %d steps, as expected" % (cfg, res.invariant_violated, len(res.counterexample) - 1))
        cexs.append(script_from_counterexample(res, rnd))
    out.extra["model_selftest"] = selftest
    # ---- Leg S2C
    feats = {}
    sims = behaviours_from_tlc(ctx, out, "ReqContext.sim.cfg", 350 if quick else 4000, 28 if quick else 40, ctx.seed + 181)
    sims += behaviours_from_tlc(ctx, out, "ReqContext.sim2.cfg", 150 if quick else 2000, 36 if quick else 50, ctx.seed + 182)
    out.note("leg S2C: %d distinct closed scenarios from TLC -simulate" % len(sims))
    traces = run_cases(cexs + sims, out, "sim", feats)
    for i, cex in enumerate(cexs):
        out.sample({"source": "tlc-counterexample (as-written variant)", "roots": cex["roots"], "steps": cex["steps"], "recorded_last_event": traces[i]["ev"][-1]})
    longest = max(range(len(sims)), key=lambda i: len(sims[i]["steps"]))
    out.sample({"source": "tlc-simulate", "roots": sims[longest]["roots"], "steps": sims[longest]["steps"][:40]})
    comps = []
    for sc in cexs + sims:
        c = R.composite_from_script(sc, rnd)
        if c is not None:
            c["src"] = "tlc-simulate/composite"
            comps.append(c)
    seen = set()
    comps = [c for c in comps if not (R.dumps(c["clients"]) in seen or seen.add(R.dumps(c["clients"])))]
    out.note("leg S2C: %d composite cases projected from the TLC behaviours" % len(comps))
    ctraces = run_cases(comps, out, "simc", feats)
    k = max(range(len(comps)), key=lambda i: len(ctraces[i]["ev"]))
    out.sample({"source": "tlc-simulate -> composite", "clients": comps[k]["clients"], "recorded_samples": [e for e in ctraces[k]["ev"] if e["a"] == "Sample"][:4]})
    # ---- Leg C2S: cases not derived from TLC
    rs = [dict(R.random_script(random.Random(ctx.seed * 1000 + i)), src="random") for i in range(300 if quick else 4000)]
    run_cases(rs, out, "rnd", feats)
    rc = [dict(R.random_composite(random.Random(ctx.seed * 1000 + 500000 + i)), src="random") for i in range(250 if quick else 3000)]
    rtraces = run_cases(rc, out, "rndc", feats)
    out.sample({"source": "random composite", "clients": rc[0]["clients"], "recorded_samples": [e for e in rtraces[0]["ev"] if e["a"] == "Sample"][:3]})
    # ---- wire leg: the real asynchronous client (aiohttp trace hooks of client/factory.py) against a loopback server, real time
    wireleg.run_leg(ctx, out, "C18")
    out.extra["features_exercised"] = feats
    for need in ACTIONS + ["Sample", "chunked-end", "several-clients", "nested", "concurrent-children", "composite-with-sub-requests", "exit-by-exception", "composite-with-failed-sub-request", "clients-compared-with-solo-run", "connection-limit", "clients-with-the-same-connection-limit"]:
        if not feats.get(need):
            if out.extra.get("executions_that_raised") and need in ("Sample", "composite-with-sub-requests", "composite-with-failed-sub-request"):
                continue  # no sample reaches the sampler when the executor raises; reported as drift above
            out.vacuous.append(need)
    out.note("leg C2S: %d executions validated by TLC; features %s" % (out.traces_validated, feats))


def replay(ctx, case):
    from ..core import Outcome

    if case.get("kind") == "wire":
        return wireleg.replay(ctx, case, "C18")
    out = Outcome(ctx.pid)
    traces = run_cases([case], out, "replay")
    for e in traces[0]["ev"]:
        if e["a"] == "Sample":
            print("  sample of task %d: context %d request_start=%s service_time=%s dependent=%s" % (e["t"], e["n"], e["rs"], e["st"], e["deps"]))
        else:
            print("  %-9s task %d%s at %d%s: var -> %s, changed dicts %s" % (e["a"], e["t"], (" / %d" % e["u"]) if e["u"] else "", e["tau"], " (exception)" if e["raised"] else "", e["cur"], e["d"]))
    for v in out.violations:
        print("VIOLATION property=C18 clause=%s %s signature=%s" % (v.clause, v.detail, v.signature))
    for d in out.drift:
        print("MODEL-DRIFT property=C18 %s" % d)
    return 1 if out.violations else 0
