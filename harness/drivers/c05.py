"""C05 — iterations, time periods, warm-up, progress and pacing follow the task spec.

Shares specs/ClientLoop and harness/clientloop.py with C04 (see c04.py); this check owns the clauses C05_* of ClientLoop.tla.

Leg M   : TLC on ClientLoop.c05.{quick,thorough}.cfg — warm-up iterations 0..2 x iterations 1..3, warm-up period 0..3 x
          time period 1..4 ticks, unthrottled / deterministic / Poisson, 1-2 clients, ramp-up for the second client of two,
          a one-client task inside a two-client parallel element; every service-time sequence over {0,1,3}; at most one failing request per
          run, either raising (weight 0) or RETURNED by the runner as success=False with a weight (kind "soft": the pacing follows that weight).
Leg S2C / C2S : as C04, other seeds; element runs (real Allocator -> ClientAllocations -> AsyncIoAdapter, see c04.py) carry the
          ramp-up clause into `parallel` elements with several sub-tasks: client index and total are derived in TLA+ from the
          element's declaration (Placement), not from the code's TaskAllocation.  Tasks whose RUNNER exposes the optional
          completion API (completed / percent_completed; cfg.rc) are part of the model, the simulated behaviours and the random
          runs: such a runner that does not complete within the iterations must not change anything; one that completes early ends
          the task (then: at most warmup+iterations requests, last progress 1).
"""
from .. import clientloop, driverprogress

PID = "C05"
PREFIX = "C05_"


def run(ctx, out):
    out.rule = (
        "case = one client's run: task configuration (loop kind and bounds, scheduler, target throughput and unit, clients, client index, "
        "ramp-up, tick size) + start instant + per-request script (overhead before, service time, overhead after, outcome/weight, external "
        "completion) + Poisson increments; distinct by hash of that input; non-trivial = at least 2 requests executed. Sources: TLC -simulate "
        "behaviours of ClientLoop.tla (S2C), seeded random dyadic runs (L1+L2) and seeded random millisecond runs with non-dyadic parameters (L1 only)."
    )
    out.assumptions = [
        "the client is driven on a virtual clock (time.perf_counter/time.time patched, asyncio loop time = that clock): time passes only in asyncio.sleep and in the scripted request; computation takes no time",
        "the instant at which a request is DECIDED is the instant at which the schedule yields it (observed by a transparent proxy around the real ScheduleHandle); "
        "a time-based task must not decide a request once warmup-time-period + time-period have elapsed since the client started the task; a request decided at or after the end of the warm-up period must be normal, "
        "one that returned before it must be warm-up, the one in between may be either",
        "the weight in 'weight*C/T apart' is the weight, in the unit of the target throughput, of the latest request that reported a weight > 0 - successful or not: a runner that RETURNS success=False with a weight (bulk with item errors, "
        "script outcome 'soft') counts like a successful one, a request that raised (API / transport error) reports weight 0 and leaves the pacing as it was "
        "(a runner unit differing from an ops/s target counts as 1 op); "
        "until the first request with a weight > 0 the task runs unthrottled (all scheduled times 0): named in the model, no spacing demanded",
        "ramp-up is only combined with time-based tasks and ramp-up <= warm-up period (enforced by the track loader); iteration counts are exact unless the task is completed externally (then: at most) or aborted by the unit check",
        "driver-reported progress (Driver.update_progress_message): judged per task - within [0,100], never decreasing within one task, never above the most advanced sample of that task the driver has received; "
        "the executed histories keep the clients of a task in lockstep (equal speed; workers and the driver wake up at unrelated moments): with clients of DIFFERENT speed the code as it is "
        "lets the message drop when a slower client reports for the first time (the mean is taken over the clients that have reported so far) - kept in DriverProgress.tla as the environment switch EqualSpeed "
        "(DriverProgress.pinned.speed.cfg violates ReportProperties in the model); samples-per-task counts are powers of two so that the float mean and Python's round-half-even are exact",
        "tick-exact runs use dyadic parameters so that float arithmetic is exact; millisecond runs with non-dyadic parameters are rounded to 1 ms and checked with L1 only, tolerance 3 ms; the Poisson distribution itself is not checked (increments are scripted)",
        "client i / total of the ramp-up clause: i = position of the client among all clients of the schedule element (clients of the preceding sub-tasks + index in its own sub-task), total = clients of the element; ramp-up is not combined with over-committed elements",
        "runner completion API: completed becomes true at the runner's k-th call, percent_completed stays None; loop controls with an unbounded iteration count (parameter source or runner alone decides the end), runner-provided progress values and cancellation are outside the model",
    ]
    cov = clientloop.run_property(
        ctx,
        out,
        PID,
        PREFIX,
        "ClientLoop.c05.quick.cfg" if ctx.quick else "ClientLoop.c05.thorough.cfg",
        (
            "ClientLoop.selftest.timer.cfg",
            "NoC05Violation",
            "variant TimerBeforeRampUp=FALSE (loop timer started after the ramp-up sleep) violates C05_WarmupFlagTime in the model, as expected",
        ),
        seed_off=503,
        n_sim=1500 if ctx.quick else 9000,
        n_rand=500 if ctx.quick else 5000,
        n_edge=0,
        n_elem=120 if ctx.quick else 1200,
    )
    for key in ("runs_with_rampup_delay_in_multi_subtask_parallel", "runs_with_completion_runner_not_completing", "runs_completed_by_runner", "runs_iteration_based", "runs_time_based", "warmup_requests", "runs_with_straddling_warmup_request", "runs_with_rampup_delay", "runs_completed_externally", "deterministic_gaps", "weight_changes", "failed_requests_reporting_a_weight", "throttled_runs_first_weight_from_a_failed_request"):
        if not cov[key]:
            out.vacuous.append("no executed run exercised: " + key)


    # ---- the progress the DRIVER reports from those samples (real Driver fed like DriverActor feeds it)
    driverprogress.run_leg(ctx, out)


def replay(ctx, case):
    if "progress_history" in case:
        return driverprogress.replay(ctx, case["progress_history"], PID)
    return clientloop.replay(ctx, case, PID, PREFIX)
