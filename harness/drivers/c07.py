"""C07 — every request sample reaches the metrics store exactly once.

Same specification and harness as C01 (RaceDriver.tla, racesim/racetrace); this check decides the sample-pipeline clauses:
SampleConservation (every produced, non-dropped sample is in exactly one stage: sampler queue, UpdateSamples in flight, driver
raw samples, driver metrics store, hand-over message, race control), AllSamplesAtRaceControl, OnlyFullQueueDrops and the final
record table (exactly one latency / service_time / processing_time record per executed request with the right task, operation,
sample type and client id, read from the metrics payloads race control received).
"""
from .. import tlc
from . import racecommon as rc

CLAUSES = rc.C07_CLAUSES


def run(ctx, out):
    out.rule = (
        "case = (scenario, queue size, test mode, sequence of scheduling decisions incl. sample shipments, periodic post-processing ticks, step boundaries) executed on the "
        "real actors; distinct by hash; non-trivial = more than 10 decisions. Sources: TLC -simulate behaviours of RaceDriver.tla (queue unbounded and queue size 1), seeded random schedules."
    )
    out.assumptions = [
        "Thespian semantics as reproduced by harness/simactor.py (FIFO per pair, run-to-completion handlers)",
        "race control is an endpoint that keeps the metrics payloads of TaskFinished/BenchmarkComplete (what BenchmarkCoordinator.bulk_add receives); the in-memory metrics store is used",
        "downsampling factor 1 in the model; factor 2/3 is checked by re-running recorded races with the same schedule and seed (only whole requests may lose their records, throughput records identical); POST_PROCESS_INTERVAL_SECONDS is set to 2 so that periodic post-processing interleaves with short races",
        "each sample is identified by the wire request that produced it (id carried in the request meta data by the harness runner)",
    ]
    rc.model_check(out, ["RaceDriver.c07.quick.cfg", "RaceDriver.c07.q1.cfg"] if ctx.quick else ["RaceDriver.c07.quick.cfg", "RaceDriver.c07.q1.thorough.cfg", "RaceDriver.c07.thorough.cfg"], timeout=3000)
    from .. import tlc

    wd = tlc.prepare_workdir("RaceDriver", "c07pinned")
    res = tlc.run_tlc(wd, "MC_RaceDriver", "RaceDriver.c07.pinned.cfg", timeout=900, allow_violation=True, workers=8)
    if res.invariant_violated != "SampleConservation":
        raise tlc.MachineryError("self-test failed: pinned variant (FlushFix=FALSE) does not violate SampleConservation in the model")
    out.extra["model_selftest"] = "pinned variant (FlushFix=FALSE: sampler replaced without shipping) violates SampleConservation in the model, as expected"
    jobs = []
    beh = rc.behaviours(ctx, out, 60 if ctx.quick else 600, 100, cfg="RaceDriver.sim.cfg", seed_off=7)
    for i, (scn, script) in enumerate(beh):
        jobs.append({"scn": scn, "script": script, "seed": ctx.seed + i, "test_mode": True, "qmax": 100})
    beh1 = rc.behaviours(ctx, out, 40 if ctx.quick else 400, 100, cfg="RaceDriver.sim.q1.cfg", seed_off=8)
    for i, (scn, script) in enumerate(beh1):
        jobs.append({"scn": scn, "script": script, "seed": ctx.seed + 500 + i, "test_mode": False, "qmax": 1})
    # generated scenario family (schedules drawn by the harness, see racecommon.gen_scenarios)
    gbeh, ngen = rc.behaviours_gen(ctx, out, 30 if ctx.quick else 400, 30 if ctx.quick else 400, 100, seed_off=9)
    for i, (scn, script) in enumerate(gbeh):
        jobs.append({"scn": scn, "script": script, "seed": ctx.seed + 7000 + i, "test_mode": i % 2 == 0, "qmax": [100, 100, 2][i % 3]})
    out.extra["generated_scenarios"] = ngen
    scns = []
    seen = set()
    for scn, _ in beh + beh1:
        if repr(scn) not in seen:
            seen.add(repr(scn))
            scns.append(scn)
    reps = 3 if ctx.quick else 12
    for i, scn in enumerate(scns):
        for k in range(reps):
            jobs.append({"scn": scn, "script": [], "seed": ctx.seed + 2000 + 17 * i + k, "test_mode": k % 2 == 1, "qmax": [100, 2, 1][k % 3]})
    stats, index = rc.run_races(ctx, out, jobs, CLAUSES, "c07")
    out.extra["races_run"] = len(jobs)
    out.extra["schedule_steps_followed"] = stats["followed"]
    some = index[sorted(index)[0]]
    last = some[1]["events"][-1]
    out.sample({"scenario": some[0]["scn"], "final_record_table": last.get("final", [])[:6], "rc_payloads": [m["k"] + ":" + str(len(m["ids"])) for m in last["st"]["rcbox"]]})
    out.note("leg C2S: %d races, %d traces accepted by TLC" % (len(jobs), out.traces_validated))
    composite_leg(ctx, out)
    downsampling_leg(ctx, out, index)
    volume_leg(ctx, out)


def volume_leg(ctx, out):
    """High volume: many more samples than any plausible batch / default buffer constant sit in a worker's sampler when the task
    ends; every one of them must leave the worker (only a queue that is full AT ITS CONFIGURED SIZE may drop)."""
    import random

    from .. import racetrace, tracecheck
    from ..core import Violation

    items, cases = [], {}
    for n, (added, qsize) in enumerate([(40000, None), (70000, 50000)] if ctx.quick else [(40000, None), (70000, 50000), (150000, None), (20000, 30000)]):
        scn = {"sched": [{"tasks": [{"id": 1, "clients": 1, "reqs": 2, "cp": False, "acp": False}], "cap": 0}], "workerOf": [1], "W": 1}
        tr = racetrace.TracedRace(scn, seed=ctx.seed + n, test_mode=True, queue_size=qsize)
        shipped = [0]
        try:
            tr.start()
            w = tr.w
            prev_hook = w.sim.send_hook

            def hook(src, dst, msg, _prev=prev_hook):
                if type(msg).__name__ == "UpdateSamples":
                    shipped[0] += sum(1 for s_ in msg.samples if s_.request_meta_data.get("verif-volume"))
                if _prev is not None:
                    _prev(src, dst, msg)

            w.sim.send_hook = hook
            rnd = random.Random(ctx.seed + 17 * n)
            injected = False
            for _ in range(600):
                en = w.enabled()
                if not en:
                    break
                inst = tr.worker(1)
                if not injected and inst.sampler is not None and w.pending:
                    # the executor is in its last request: the samples pile up now
                    from esrally import metrics

                    task = w.tasks_by_id[1]
                    for k in range(added):
                        inst.sampler.add(task, 0, metrics.SampleType.Normal, {"verif-volume": True}, 1.0, 1.0, 0.0, 0.0, 0.0, None, 1, "ops", 1.0, None)
                    injected = True
                # never deliver to the driver (it would post-process 10^5 samples): only workers, executors and requests move
                cand = [d for d in en if not injected or (not (d[0] == "deliver" and d[2] == w.DRIVER) and not (d[0] == "wakeup" and d[1] == w.DRIVER))]
                if not cand:
                    break
                d = rnd.choice(cand)
                if injected:
                    # the executor finishes first, then the worker wakes up: as few flushes as possible before the join point
                    first = [x for x in cand if x[0] in ("req", "exec_start")]
                    d = first[0] if first else d
                if d[0] == "req":
                    w.step(d, outcome={"vid": -1, "deps": 0, "t": w.clock.time()})
                else:
                    w.step(d)
                if injected and any(type(m).__name__ == "JoinPointReached" for q in w.sim.chan.values() for m in q if q):
                    jp = [m for q in w.sim.chan.values() for m in q if type(m).__name__ == "JoinPointReached"]
                    if len(jp) >= 1 and tr.worker(1).sampler is None:
                        break
            if not injected:
                raise tlc.MachineryError("volume leg: the worker never had a running executor")
        finally:
            tr.close()
        real_q = qsize if qsize is not None else (1 << 20)
        it = {"id": "vol%d" % n, "kind": "volume", "added": added, "qsize": real_q, "shipped": shipped[0]}
        items.append(it)
        cases[it["id"]] = {"kind": "volume", "added": added, "qsize": qsize, "n": n}
        out.add_case(("volume", added, qsize))
    v = tracecheck.validate("RaceDriver", "TraceDownsample", "TraceDownsample.cfg", items, name="c07vol")
    out.traces_validated += len(items) - len(v.l1)
    for tid, fails in v.l1.items():
        it = next(x for x in items if x["id"] == tid)
        out.violations.append(Violation("OnlyFullQueueDropsAtVolume", cases[tid], signature={"clauses": ["OnlyFullQueueDropsAtVolume"], "kind": "volume"}, detail="%d samples queued in a worker (queue size %d): %d left the worker by the time it reported the join point" % (it["added"], it["qsize"], it["shipped"])))
    out.extra["volume_leg"] = [{k: x[k] for k in ("added", "qsize", "shipped")} for x in items]
    out.note("volume leg: %s" % [(x["added"], x["qsize"], x["shipped"]) for x in items])


def downsampling_leg(ctx, out, index):
    """Explicit downsampling factor: re-run completed races with the same schedule and seed and factor 2 / 3; only the number of
    request records may shrink (per request all three records or none), throughput records must be identical."""
    import random

    from .. import racetrace, tracecheck
    from ..core import Violation

    picked = [tid for tid in sorted(index) if index[tid][0]["qmax"] >= 100 and index[tid][1]["thr"]][: (6 if ctx.quick else 40)]
    items = []
    cases = {}
    for n, tid in enumerate(picked):
        job, trace = index[tid]
        f = 2 + n % 2
        script = [(e["ev"], e["arg"]) for e in trace["events"] if e["ev"] != "Hang"]
        runs = {}
        for factor in (1, f):
            tr = racetrace.TracedRace(job["scn"], seed=job["seed"], test_mode=job["test_mode"], offsets=job.get("offsets"), downsample=factor)
            try:
                tr.start()
                tr.run(script, random.Random(job["seed"] * 7919 + 13), max_events=job.get("max_events", 400))
                runs[factor] = {
                    "done": tr.done(),
                    "evs": [(e["ev"], e["arg"]) for e in tr.events],
                    "rows": [{"lat": r["lat"], "svc": r["svc"], "proc": r["proc"]} for r in tr.final_table()] if tr.done() else [],
                    "thr": [[str(x) for x in d] for d in tr.throughput_docs()] if tr.done() else [],
                }
            finally:
                tr.close()
        # both runs must be the very same schedule (downsampling does not influence control flow); otherwise nothing is compared
        if not (runs[1]["done"] and runs[f]["done"]) or runs[1]["evs"] != runs[f]["evs"]:
            out.note("downsampling leg: pair %s not comparable (schedules differ), skipped" % tid)
            continue
        rows = runs[f]["rows"]
        thr = runs[f]["thr"]
        trace = dict(trace, thr=runs[1]["thr"], events=[{"final": runs[1]["rows"]}])
        item = {"id": "ds%d" % n, "f": f, "n": len(trace["events"][-1].get("final", [])), "rows": rows, "thrEqual": thr == trace["thr"]}
        if thr != trace["thr"]:
            item["thr_factor1"] = trace["thr"][:6]
            item["thr_factorf"] = thr[:6]
        items.append(item)
        cases[item["id"]] = {"scn": job["scn"], "seed": job["seed"], "test_mode": job["test_mode"], "qmax": 100, "offsets": job.get("offsets"), "decisions": script, "downsample": f}
        out.add_case(("downsample", f, job["scn"], script))
    if not items:
        raise tlc.MachineryError("downsampling leg: no completed race to re-run")
    v = tracecheck.validate("RaceDriver", "TraceDownsample", "TraceDownsample.cfg", items, name="c07ds")
    out.traces_validated += v.accepted(len(items))
    for tid, fails in v.l1.items():
        clauses = sorted({c for _, cl in fails for c in cl})
        out.violations.append(Violation(",".join(clauses), cases[tid], signature={"clauses": clauses, "leg": "downsampling"}, detail="downsampling factor %d" % cases[tid]["downsample"]))
    out.extra["downsampled_races"] = len(items)
    out.extra["downsampled_sample"] = items[0]
    out.note("downsampling leg: %d races re-run with factor 2/3, %d accepted" % (len(items), v.accepted(len(items))))


def composite_leg(ctx, out, cases=None):
    """'plus one service_time record per dependent sub-request', at the source of those records: the REAL runner.Composite on seeded
    random request trees (streams, operation items, latencies, scripted failures, max-connections) over the machinery of the extra
    module Composite (specs/Composite, harness/extras/composite.py); only its clause TimingsOwn - the returned dependent timings are
    exactly one per executed sub-request, each with its own type and instants - is a C07 verdict here."""
    import random

    from ..core import Outcome, Violation
    from ..extras import composite as xc

    if cases is None:
        rnd = random.Random(ctx.seed + 707)
        cases = [xc.random_case(rnd) for _ in range(250 if ctx.quick else 3000)]
        cases = [c for c in cases if c["nodes"]]
    sub = Outcome("C07-composite")
    stats = {k: 0 for k in ("runs", "raised", "cancels", "aborted_requests", "orphan_runs", "rejected_after_sending", "limit_reached", "s2c_complete", "s2c_followed")}
    stats["l1"] = {}
    xc.run_cases(cases, sub, "c07comp", stats)
    out.states += sub.states
    out.transitions += sub.transitions
    out.traces_validated += sub.traces_validated
    bad = 0
    for v in sub.violations:
        if "TimingsOwn" not in v.clause.split(","):
            continue
        bad += 1
        out.violations.append(Violation("DependentTimingPerSubRequest", {"composite_leg": True, "case": v.case}, signature={"clauses": ["DependentTimingPerSubRequest"], "leg": "composite"}, detail="composite leg: " + v.detail))
    for c in cases:
        out.add_case(("composite", c["maxc"], c["nodes"]), nontrivial=True)
    out.extra["composite_leg"] = {"composites": len(cases), "returned_normally": stats["runs"] - stats["raised"], "violating": bad}
    out.note("composite leg: %d composites on the real runner.Composite, %d returned normally, %d violating" % (len(cases), stats["runs"] - stats["raised"], bad))
    return bad


def replay(ctx, case):
    if case.get("composite_leg"):
        from ..core import Outcome

        sub = Outcome("C07-composite-replay")
        n = composite_leg(ctx, sub, cases=[case["case"]])
        for v in sub.violations:
            print("VIOLATION property=C07 clause=%s %s" % (v.clause, v.detail))
        return 1 if n else 0
    return rc.replay_case(ctx, case, CLAUSES, "C07")
