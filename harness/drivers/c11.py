"""C11 — task filters keep exactly the selected tasks and leave a runnable track.

Leg M   : TLC enumerates every (schedule, filter list, include/exclude) within the bounds (TaskFilter.tla, which transcribes
          TaskFilterTrackProcessor as written and reuses Allocator.tla) and checks ExactSelection / SameGrouping /
          NoEmptyParallel / Runnable on the transcription's result; the pre-fix variant (DropEmptyParallel = FALSE) must
          violate the property in the model (self-test).
Leg S2C : every TLC input state becomes a real track.Track with real Task / Parallel / Operation objects and is run through
          the real TaskFilterTrackProcessor (configured through config.Config like rally.py does, filters parsed by the real
          _filters_from_filtered_tasks); the filtered schedule objects go to the real Allocator and the real
          Driver.update_progress_message walks every step.
Leg C2S : every recorded (schedule, filters, mode, filtered schedule, allocation) — also seeded random larger ones — is
          validated by TLC against TraceTaskFilter.tla: L1 = the C11 clauses (Runnable = the C02 clauses on the recorded
          allocation of the filtered schedule), L2 = equality with the transcription.
Leg R   : "the driver can execute and report every remaining step" as complete RACES: for every schedule g of a seeded generated
          family a LARGER track is built (extra leaf tasks inside g's elements, whole extra elements, extra parallels that the
          filter empties; by name, `type:` or `tag:`, include or exclude), the REAL TaskFilterTrackProcessor filters it, and the
          result is what the real BenchmarkActor / DriverActor / Workers run under SimActorSystem along TLC-simulated behaviours
          of RaceDriver.tla for g. Each recorded race is validated by TLC against TraceRaceDriver.tla with g as the scenario:
          the L1 clauses of the race (barrier, every cell exactly once, completion, no spurious failure, no stall) are C11's
          "runnable" here. A filtered schedule that is not g is an ExactSelection violation and is not raced.
"""
import copy
import zlib

import json
import logging
import os
import random

from .. import rallysched as rs
from .. import tlc, tracecheck
from ..core import Violation


def run_case(tid, case):
    """case = {s, F, mode, xseed, two}: builds the real track (one or two challenges), filters it, allocates the result.
    L1 is decided per challenge: every challenge is one trace item with its own written schedule.
    Returns the list of trace items (one per challenge)."""
    xr = random.Random(case["xseed"])
    pre_objs = [rs.build_schedule(case["s"], xr)]
    written = [case["s"]]
    if case.get("two"):
        # a second challenge assembled from the same snippets in another order: same-named, equally configured tasks, about half
        # of them tagged differently / of another operation type (task equality ignores tags, params and the operation's type:
        # a decision taken for a task must not leak to its namesake in another challenge)
        w2, o2 = rs.variant_schedule(list(reversed(case["s"])), list(reversed(pre_objs[0])), xr)
        written.append(w2)
        pre_objs.append(o2)
    # the recorded input is the WRITTEN schedule (expected results are never computed from attributes of the real objects);
    # only the fingerprint of the further properties is taken from the objects, before the filter runs
    pre = [rs.with_fingerprints(w, o) for w, o in zip(written, pre_objs)]
    # do the freshly built real objects say what was written? (a difference on a kept task shows up in L1 ExactSelection)
    differs = [rs.project_schedule(o) != [_nofp(el) for el in w] for w, o in zip(written, pre_objs)]
    items = []
    try:
        post_objs = rs.run_filter(pre_objs, case["F"], case["mode"])
    except tlc.MachineryError:
        raise
    except Exception as ex:  # pylint: disable=broad-except
        return [{"id": tid, "case": case, "s": pre[0], "F": case["F"], "mode": case["mode"], "crash": "filter %s: %s" % (type(ex).__name__, ex)}]
    if len(post_objs) != len(pre_objs):
        return [{"id": tid, "case": case, "s": pre[0], "F": case["F"], "mode": case["mode"], "crash": "filter returned %d challenges for %d" % (len(post_objs), len(pre_objs))}]
    for ci, objs in enumerate(post_objs):
        it = {"id": "%s.%d" % (tid, ci), "case": case, "s": pre[ci], "F": case["F"], "mode": case["mode"], "l2": True, "out": rs.project_schedule(objs, with_fp=True), "built_differs": differs[ci]}
        try:
            obs = rs.observe_allocator(objs)
            it.update({"m": obs["m"], "jps": obs["jps"], "tpj": obs["tpj"], "progress": obs["progress"]})
            it["walk"] = "ok" if obs["progress"] == "ok" else "na" if obs["progress"].startswith("n/a") else "fail"
        except tlc.MachineryError:
            raise
        except Exception as ex:  # pylint: disable=broad-except
            # the allocator cannot even allocate the filtered schedule: not runnable
            it.update({"m": [], "jps": [], "tpj": [], "walk": "fail", "progress": str(ex) if isinstance(ex, rs.ObservedCrash) else "allocator %s: %s" % (type(ex).__name__, ex)})
        items.append(it)
    return items


def _nofp(el):
    if el["k"] == "par":
        return {"k": "par", "cap": el["cap"], "tasks": [_nofp(t) for t in el["tasks"]]}
    return {k: v for k, v in el.items() if k != "fp"}


def random_cases(seed, n):
    rnd = random.Random(seed)
    cases = []
    for i in range(n):
        big = i % 5 == 0
        s = rs.random_schedule(rnd, max_elements=6, max_clients=64 if big else 8, max_par=4)
        lv = rs.leaves(s)
        filters = []
        r = rnd.random()
        pars = [el for el in s if el["k"] == "par"]
        if r < 0.3 and pars:
            # every task of one parallel element, by name
            filters = [{"k": "name", "v": t["name"]} for t in rnd.choice(pars)["tasks"]]
        for _ in range(rnd.randint(0 if filters else 1, 3)):
            k = rnd.random()
            if k < 0.4:
                filters.append({"k": "name", "v": rnd.choice([t["name"] for t in lv] + ["nothing", "op-bulk", "x"]) if lv else "nothing"})
            elif k < 0.7:
                filters.append({"k": "type", "v": rnd.choice(rs.TYPES + ["bulk_with_retry", "my_custom_op", "no-such-type", "t1"])})
            else:
                filters.append({"k": "tag", "v": rnd.choice(["index", "index", "search"] + rs.TAGS + ["no-such-tag", "bulk", "Index"])})
        uniq = []
        for f in filters:
            if f not in uniq:
                uniq.append(f)
        rnd.shuffle(uniq)
        cases.append({"s": s, "F": uniq, "mode": rnd.choice(["include", "exclude"]), "xseed": rnd.randint(0, 10**6), "two": i % 3 == 0})
    return cases


def _sig(it, clauses):
    return {
        "clauses": sorted(clauses),
        "mode": it["mode"],
        # the filtered schedule still contains a parallel element all of whose tasks were removed
        "emptied_parallel": bool("out" in it and rs.has_empty_parallel(it["out"])),
    }


def validate(items, out, name="c11trace"):
    """C2S. Returns [(item, clauses, subclauses)] of L1 failures."""
    bad = [(it, ["NoResult"], []) for it in items if "crash" in it]
    ok = [it for it in items if "crash" not in it]
    index = {it["id"]: it for it in ok}
    if ok:
        payload = [{k: v for k, v in it.items() if k not in ("case", "progress", "built_differs")} for it in ok]
        if any(len(it["id"]) > 12 for it in payload):
            raise tlc.MachineryError("trace ids must stay short (TLC wraps long verdict lines)")
        verdicts = tracecheck.validate(["Allocator", "TaskFilter"], "TraceTaskFilter", "TraceTaskFilter.cfg", payload + [CANARY], name=name, chunk=None, timeout=1500)
        got = sorted({c for _, cs in verdicts.l1.pop("canary", []) for c in cs})
        if got != ["NoEmptyParallel", "Runnable", "Runnable:DriverWalksEveryStep", "Runnable:OneEntryPerStep"] or "canary" in verdicts.l2:
            raise tlc.MachineryError("trace validation lost verdicts: the known-bad canary item was reported as %s" % got)
        if out is not None:
            out.traces_validated += verdicts.accepted(len(ok))
            for tid in verdicts.l2:
                it = index[tid]
                out.drift.append("case %s: filtered schedule differs from the transcription in TaskFilter.tla (%s %s on %s -> %s)" % (tid, it["mode"], rs.filter_strings(it["F"]), _short(it["s"]), _short(it["out"])))
            for it in ok:
                if it["built_differs"] and it["id"] not in verdicts.l1 and sum(1 for d in out.drift if d.startswith("real objects")) < 5:
                    out.drift.append("real objects built from a written schedule do not say what was written (case %s: %s)" % (it["id"], _short(it["s"])))
        for tid, fails in verdicts.l1.items():
            cl = sorted({c for _, cs in fails for c in cs})
            bad.append((index[tid], [c for c in cl if ":" not in c], [c for c in cl if ":" in c]))
    return bad


# known-bad item appended to every validation run: guards against verdict lines getting lost
CANARY = {
    "id": "canary",
    "s": [{"k": "par", "cap": 0, "tasks": [{"k": "task", "name": "a", "type": "x", "tags": [], "clients": 1, "cp": False, "acp": False}]}],
    "F": [{"k": "name", "v": "a"}],
    "mode": "exclude",
    "l2": True,
    "out": [{"k": "par", "cap": 0, "tasks": []}],
    "m": [[{"k": "jp", "id": 0, "cby": [], "any": []}, {"k": "jp", "id": 1, "cby": [], "any": []}]],
    "jps": [{"k": "jp", "id": 0, "cby": [], "any": []}, {"k": "jp", "id": 1, "cby": [], "any": []}],
    "tpj": [],
    "walk": "fail",
}


def _short(s):
    res = []
    for el in s:
        if el["k"] == "par":
            res.append("par(%s)[%s]" % (el["cap"] or "", ",".join("%s:%s:%s" % (t["name"], t["type"], "+".join(t["tags"])) for t in el["tasks"])))
        else:
            res.append("%s:%s:%s" % (el["name"], el["type"], "+".join(el["tags"])))
    return "[" + "; ".join(res) + "]"


def run(ctx, out):
    out.rule = (
        "case = (schedule of one challenge: leaf tasks / parallel elements with names, operation types, tags, clients, cap, completed-by; "
        "filter list; include or exclude); distinct by hash; non-trivial = at least one filter and at least one task. "
        "Sources: every input state of TaskFilter.tla (S2C, exhaustive within the bounds; filter order shuffled by seed; every 4th track has a "
        "second challenge with same-named, equally configured tasks that are tagged / typed differently), seeded random larger schedules with up to 4 filters."
    )
    out.assumptions = [
        "task names are unique within a challenge (the loader rejects duplicates); filter values contain no ':'; only one of --include-tasks / --exclude-tasks is given; an empty list means the option is absent",
        "'all their properties unchanged' is observed on name, operation type, tags, clients, completed-by flags and a fingerprint of iterations / time periods / params / meta data / operation",
        "'tasks remain' includes that tasks of one parallel element stay together and tasks of different elements stay apart (SameGrouping)",
        "'the driver can execute and report every remaining step' is observed on the real Allocator results for the filtered schedule objects (clauses of C02) and the real "
        "Driver.update_progress_message called for every step; no complete race is run",
    ]
    cfg = "TaskFilter.quick.cfg" if ctx.quick else "TaskFilter.thorough.cfg"
    wd = tlc.prepare_workdir(["Allocator", "TaskFilter"], "c11mc")
    dump = os.path.join(wd, "states.dump")
    res = tlc.run_tlc(wd, "MC_TaskFilter", cfg, timeout=1200, dump=dump, allow_violation=True)
    out.add_tlc(res)
    if not res.ok:
        raise tlc.MachineryError("model violates %s (%s)" % (res.invariant_violated, res.out[-1500:]))
    out.note("leg M %s: %d distinct states in %.1fs" % (cfg, res.distinct, res.wall_s))
    wd2 = tlc.prepare_workdir(["Allocator", "TaskFilter"], "c11pinned")
    res2 = tlc.run_tlc(wd2, "MC_TaskFilter", "TaskFilter.pinned.cfg", timeout=600, allow_violation=True)
    if res2.invariant_violated != "PropertyHolds":
        raise tlc.MachineryError("self-test failed: the pre-fix variant of the model (DropEmptyParallel = FALSE) does not violate the property")
    out.extra["model_selftest"] = "pre-fix variant (DropEmptyParallel = FALSE: emptied parallel stays in the schedule) violates PropertyHolds in the model, as expected"

    rnd = random.Random(ctx.seed + 11)
    inputs = rs.sorted_inputs(dump + ".dump" if os.path.exists(dump + ".dump") else dump)
    if 2 * len(inputs) != res.distinct:
        raise tlc.MachineryError("dump has %d input states, TLC reported %d states" % (len(inputs), res.distinct))
    n_items = n_empty = 0
    batch = 30000
    for b0 in range(0, len(inputs), batch):
        items = []
        for n in range(b0, min(b0 + batch, len(inputs))):
            inp = json.loads(inputs[n])
            F = inp["F"]
            rnd.shuffle(F)
            case = {"s": inp["s"], "F": F, "mode": inp["mode"], "xseed": rnd.randint(0, 10**6), "two": n % 4 == ctx.seed % 4}
            items.extend(run_case("s%d" % n, case))
            out.add_case((inp["s"], sorted(rs.filter_strings(F)), inp["mode"]), nontrivial=bool(F) and bool(inp["s"]))
        n_items += len(items)
        n_empty += sum(1 for it in items if "out" in it and rs.has_empty_parallel(it["out"]))
        _report(validate(items, out), out)
    out.exhaustive = True
    out.note("leg S2C: %d TLC input states run on TaskFilterTrackProcessor + Allocator (%d challenges)" % (len(inputs), n_items))
    rcases = random_cases(ctx.seed + 1100, 400 if ctx.quick else 6000)
    items = []
    for n, case in enumerate(rcases):
        items.extend(run_case("r%d" % n, case))
        out.add_case((case["s"], sorted(rs.filter_strings(case["F"])), case["mode"]))
    ex = [it for it in items if "crash" not in it and it["out"] != it["s"] and it["out"]][:2]
    for it in ex:
        out.sample({"schedule": _short(it["s"]), "mode": it["mode"], "filters": rs.filter_strings(it["F"]), "filtered": _short(it["out"]), "progress_entries": it["tpj"]})
    n_empty += sum(1 for it in items if "out" in it and rs.has_empty_parallel(it["out"]))
    out.extra["filtered_schedules_with_empty_parallel"] = n_empty
    _report(validate(items, out), out)
    race_leg(ctx, out)


# ---------------------------------------------------------------------------------------------------------------------
# Leg R: races on filtered tracks


def inflate(sched, seed):
    """g's schedule + tasks the filter must remove. Returns (larger schedule, filter strings, mode). Deterministic in (sched, seed)."""
    rnd = random.Random(zlib.crc32(repr((sched, seed)).encode()))
    how = rnd.choice(["name", "type", "tag"])
    mode = rnd.choice(["include", "exclude"])
    nxt = iter(range(50, 99))

    def extra():
        t = {"id": next(nxt), "clients": rnd.choice([1, 1, 2]), "reqs": 1, "cp": False, "acp": False, "extra": True}
        if how == "type" and mode == "exclude":
            t["optype"] = "sleep"
        if how == "tag" and mode == "exclude":
            t["tags"] = ["drop", "other"]
        return t

    big = []
    for e in copy.deepcopy(sched):
        for t in e["tasks"]:
            if mode == "include" and how == "tag":
                t["tags"] = ["other", "keep"]
            if mode == "include" and how == "type":
                t["optype"] = "raw-request"
        r = rnd.random()
        if r < 0.3:
            big.append({"tasks": [extra()], "cap": 0})  # a leaf task in front of the element
        elif r < 0.5:
            big.append({"tasks": [extra(), extra()], "cap": rnd.choice([0, 1])})  # a parallel the filter empties
        if rnd.random() < 0.6:
            k = rnd.choice([1, 1, 2])
            for _ in range(k):
                e["tasks"].insert(rnd.randrange(len(e["tasks"]) + 1), dict(extra(), acp=False))
            e["parallel"] = True
        big.append(e)
    if rnd.random() < 0.5:
        big.append({"tasks": [extra()], "cap": 0})
    if not any(t.get("extra") for e in big for t in e["tasks"]):
        big.insert(0, {"tasks": [extra()], "cap": 0})
    if mode == "include" and how == "type":
        for e in big:
            for t in e["tasks"]:
                if t.get("extra"):
                    t["optype"] = "sleep"
    keep = [t for e in big for t in e["tasks"] if not t.get("extra")]
    drop = [t for e in big for t in e["tasks"] if t.get("extra")]
    if how == "name":
        strs = ["t%d" % t["id"] for t in (keep if mode == "include" else drop)]
        rnd.shuffle(strs)
    elif how == "type":
        strs = ["type:raw-request"] if mode == "include" else ["type:sleep"]
    else:
        strs = ["tag:keep"] if mode == "include" else ["tag:drop"]
    return big, strs, mode


def filtered_track(scn, lenient=(), seed=0):
    """The real track of the larger schedule after the REAL task filter; tasks_by_id of the surviving real Task objects."""
    from esrally import config
    from esrally.track import loader

    from .. import racesim

    big, strs, mode = inflate(scn["sched"], seed)
    t, _ = racesim.build_track({"sched": big}, lenient)
    logging.getLogger("esrally.track.loader").setLevel(logging.WARNING)
    cfg = config.Config()
    cfg.add(config.Scope.application, "track", "include.tasks", strs if mode == "include" else None)
    cfg.add(config.Scope.application, "track", "exclude.tasks", strs if mode == "exclude" else None)
    res = loader.TaskFilterTrackProcessor(cfg).on_after_load_track(t)
    if res is None:
        res = t
    by_id = {}
    for el in res.challenges[0].schedule:
        for leaf in el:
            by_id[int(leaf.name[1:])] = leaf
    return res, by_id


def expected_shape(sched):
    return [(["t%d" % t["id"] for t in e["tasks"]], e["cap"]) for e in sched]


def race_leg(ctx, out):
    from .. import racesim
    from . import racecommon as rc

    n_scn, num = (16, 24) if ctx.quick else (150, 300)
    gbeh, ngen = rc.behaviours_gen(ctx, out, n_scn, num, 100, seed_off=1100)
    seed = ctx.seed
    jobs, seen, bad_scn = [], {}, 0
    for i, (scn, script) in enumerate(gbeh):
        key = repr(scn["sched"])
        if key not in seen:
            big, strs, mode = inflate(scn["sched"], seed)
            try:
                trk, _ = filtered_track(scn, (), seed)
                got = [(names, cap) for names, cap in _shape_of(trk)]
                ok = got == expected_shape(scn["sched"])
                detail = "%s %s on %s -> %s, expected %s" % (mode, strs, _big_short(big), got, expected_shape(scn["sched"]))
            except tlc.MachineryError:
                raise
            except Exception as ex:  # pylint: disable=broad-except
                ok, detail = False, "%s %s on %s: filter %s: %s" % (mode, strs, _big_short(big), type(ex).__name__, ex)
            seen[key] = ok
            if not ok:
                bad_scn += 1
                out.violations.append(Violation("ExactSelection", {"race_leg": True, "sched": scn["sched"], "seed": seed, "filter_only": True}, signature={"clauses": ["ExactSelection"], "leg": "race", "mode": mode, "filters": strs[0].split(":")[0] if ":" in strs[0] else "name"}, detail=detail))
            else:
                out.add_case(("race-leg", big, strs, mode))
        if seen[key]:
            jobs.append({"scn": scn, "script": script, "seed": ctx.seed + 11000 + i, "test_mode": i % 2 == 0, "qmax": 100})
    racesim.TRACK_HOOK = lambda scn, lenient: filtered_track(scn, lenient, seed)
    try:
        stats, index = rc.run_races(ctx, out, jobs, rc.C01_CLAUSES, "c11race")
    finally:
        racesim.TRACK_HOOK = None
    for v in out.violations:
        if isinstance(v.case, dict) and "decisions" in v.case and "race_leg" not in v.case:
            v.case["race_leg"] = True
            v.case["filter_seed"] = seed
    out.extra["race_leg"] = {"generated_schedules": ngen, "filtered_tracks_not_as_expected": bad_scn, "races": len(jobs), "races_hanging": stats["hangs"], "schedule_steps_followed": stats["followed"]}
    out.note("leg R: %d generated schedules, each the result of the real filter on a larger track; %d races on the real actors (%d hanging)" % (len(seen), len(jobs), stats["hangs"]))


def _shape_of(trk):
    res = []
    for el in trk.challenges[0].schedule:
        names = [x.name for x in el]
        if hasattr(el, "tasks"):
            # Parallel: `clients` is the explicit cap if one was given, else the sum over the sub-tasks
            cap = el.clients
            res.append((names, 0 if cap == sum(x.clients for x in el.tasks) and not _explicit_cap(el) else cap))
        else:
            res.append((names, 0))
    return res


def _explicit_cap(par):
    return getattr(par, "_clients", None) is not None


def _big_short(big):
    return [[("t%d%s" % (t["id"], "x" if t.get("extra") else "")) for t in e["tasks"]] for e in big]


def _report(bad, out):
    for it, clauses, sub in bad:
        if "crash" in it:
            detail = "crash=%s schedule=%s" % (it["crash"], _short(it["s"]))
        else:
            detail = "%s %s on %s -> %s" % (it["mode"], rs.filter_strings(it["F"]), _short(it["s"]), _short(it["out"]))
            if "Runnable" in clauses:
                detail += " | allocator: steps=%d progress_entries=%d driver_walk=%s %s" % (len(it["jps"]) - 1, len(it["tpj"]), it["progress"], ",".join(sub))
        out.violations.append(Violation(",".join(clauses), it["case"], signature=_sig(it, clauses), detail=detail))


def replay(ctx, case):
    if case.get("race_leg"):
        from .. import racesim
        from . import racecommon as rc

        if case.get("filter_only"):
            trk, _ = filtered_track({"sched": case["sched"]}, (), case["seed"])
            got = _shape_of(trk)
            print("filtered: %s expected: %s" % (got, expected_shape(case["sched"])))
            if got != expected_shape(case["sched"]):
                print("VIOLATION property=C11 clause=ExactSelection")
                return 1
            return 0
        fseed = case.get("filter_seed", 0)
        racesim.TRACK_HOOK = lambda scn, lenient: filtered_track(scn, lenient, fseed)
        try:
            return rc.replay_case(ctx, case, rc.C01_CLAUSES, "C11")
        finally:
            racesim.TRACK_HOOK = None
    items = run_case("replay", case)
    for it in items:
        if "crash" in it:
            print("crash: %s" % it["crash"])
        else:
            print("%s %s: %s -> %s ; steps=%d progress_entries=%s driver_walk=%s" % (it["mode"], rs.filter_strings(it["F"]), _short(it["s"]), _short(it["out"]), len(it["jps"]) - 1, it["tpj"], it["progress"]))
    bad = validate(items, None, name="c11replay")
    for it, clauses, sub in bad:
        print("VIOLATION property=C11 clause=%s %s" % (",".join(clauses), ",".join(sub)))
    return 1 if bad else 0
