"""C10 — a loaded track is exactly what the file says; invalid tracks are rejected.

Leg M   : TLC explores the builder state machine of TrackModel.tla (abstract track files: challenges, schedules, parallel
          elements, operations, corpora, indices | data streams, Jinja parameters, included parts, schema-level defects)
          exhaustively up to a bound on the number of things written, and checks on every reachable file that the
          transcription of the loader (Code) satisfies Fidelity / ValidLoads / Rejection w.r.t. the declarative rules and
          Expected; the variant that describes the loader as written before the repair (RejectAllMixing = FALSE) must
          violate the property in the model (self-test).
Leg S2C : every reachable file of the exhaustive run (TLC -dump) and the final files of TLC -simulate behaviours over
          wide alphabets are RENDERED into real track directories (track.json with {{ p | default(v) }} parameters,
          {{ rally.collect(parts=...) }} includes one and two levels deep (a part in a sub-directory that includes a further part
          relative to its own directory), operations inline or by name, shuffled keys ...) and loaded with the
          real TrackFileReader.read (a sample also through loader.load_track); the returned Track object is projected
          back to the record format of the model, an exception is recorded by class.
Leg C2S : every recorded load (those of S2C and seeded random files with much wider alphabets that are not derived from
          TLC) is validated by TLC against TraceTrackModel.tla: L1 = Fidelity / ValidLoads / Rejection / TargetAsWritten /
          IncludedTextVerbatim on the recorded outcome, L2 = equality with Code(f) (error class and further attributes included).
          The real operation-type registry is validated as a table (L2).
Timing  : a directed family writes every subset of the five timing attributes of a task (warmup-iterations, iterations,
          warmup-time-period, time-period, ramp-up-time-period below / equal to / above the warm-up) on a plain task, on a parallel
          element (inherited by its tasks) and split between the two; a failing Rejection for 'mixing' names every timing
          attribute the mixing task carries (the ramp-up included), so that an accepted combination that is not one of the
          recorded ones (known finding F13: exactly iterations + time-period, warmup-iterations + warmup-time-period) is a violation.
Text    : half of all generated cases and a directed family (every text of trackgen.TEXT_POOL x not included / included with
          blanks / without blanks / with single quotes x first- / second-level part) write operation parameters whose text is
          special to re replacement templates, Jinja or JSON (regexps, Windows paths, \\uXXXX, \\n, \\g<0>, \\1, $1, \\", }} ...);
          the case carries what was WRITTEN (the JSON literal decoded, as UTF-8 bytes), the projection what was LOADED, TLC
          compares them (clause IncludedTextVerbatim); a valid file that is rejected because of such a text fails ValidLoads.
"""
import concurrent.futures
import glob
import json
import os
import random
import time

from .. import tlc, tracecheck
from .. import trackgen as tg
from ..core import Violation


L1_RULES = [
    "dupTask", "dupChallenge", "dupCorpus", "dupOperation", "noDefault", "twoDefaults", "mixing", "rampUpWithoutWarmup",
    "rampUpGtWarmup", "unknownCompletedBy", "indicesAndDataStreams", "unusedParam", "reservedParam", "schemaType", "schemaMissing",
    "targetUndetermined",
]  # fmt: skip


# ---------------------------------------------------------------------------------------------------
def _style(rnd, F):
    return {
        "shuffle": rnd.random() < 0.5,
        "collect": "tight" if F["tight"] else "single" if F["squote"] else "spaced",
        "version": rnd.random() < 0.8,
        "tag_string": rnd.random() < 0.5,
        "descriptions": rnd.random() < 0.3,
        "split_ops": rnd.random() < 0.5,
        "seed": rnd.randrange(1 << 30),
    }


def _sel(rnd, F):
    if F["form"] == "challenges" and len(F["chals"]) > 1 and rnd.random() < 0.6:
        return rnd.choice([c["name"] for c in F["chals"]] + ["nonexistent"])
    return ""


NOTEXT = {"ops": [], "tasks": []}


def make_case(cid, src, F, rnd, label=""):
    return {"id": cid, "src": src, "f": F, "sel": _sel(rnd, F), "style": _style(rnd, F), "via": "load_track" if rnd.random() < 0.1 else "read", "label": label, "txt": NOTEXT}


def _inline_positions(F):
    return [(c + 1, e + 1, i + 1) for c, ch in enumerate(F["chals"]) for e, el in enumerate(ch["sched"]) for i, t in enumerate(el["tasks"]) if t["opk"] == "inl"]


def attach_texts(case, seed):
    """Half of the generated cases get operation parameters whose text is special to re replacement templates / Jinja / JSON
    (tg.TEXT_POOL): on entries of the operations section and on inline operations, i.e. inside or outside included parts
    depending on the file. The choice depends on the seed and the id of the case only (the stream of random numbers that
    shapes the cases themselves is left alone)."""
    rnd = random.Random("%d|txt|%s" % (seed, case["id"]))
    if rnd.random() < 0.5:
        return case
    F = case["f"]
    ops = [{"i": k + 1, "lit": rnd.choice(tg.TEXT_POOL)} for k in range(len(F["ops"])) if rnd.random() < 0.6]
    tasks = [{"c": c, "e": e, "i": i, "lit": rnd.choice(tg.TEXT_POOL)} for c, e, i in _inline_positions(F) if rnd.random() < 0.5]
    case["txt"] = {"ops": ops, "tasks": tasks}
    return case


def directed_text_cases():
    """Every text of tg.TEXT_POOL x how / how deep the operations that carry it are included: not at all (contrast), with
    blanks, without blanks, with single quotes (Jinja macro), first- and second-level parts. One small valid file: two entries
    of the operations section (with "opsN": the first stays in the first-level part, the second moves to operations/more/), one
    challenge (in a part; with "sched": its schedule in challenges/schedules/) whose tasks run both entries and an inline operation."""
    cases = []
    forms = [("none", [], "spaced"), ("spaced1", ["ops", "chals"], "spaced"), ("spaced2", ["ops", "opsN", "chals", "sched"], "spaced"),
             ("tight1", ["ops", "chals"], "tight"), ("tight2", ["ops", "opsN", "chals", "sched"], "tight"), ("single1", ["ops", "chals"], "single")]  # fmt: skip
    n = len(tg.TEXT_POOL)
    for k in range(n):
        for name, parts, collect in forms:
            F = _minimal()
            t1, t2, t3 = (json.loads(json.dumps(F["chals"][0]["sched"][0])) for _ in range(3))
            t1["tasks"][0]["op"], t2["tasks"][0]["op"] = "n1", "op2"
            t3["tasks"][0].update(opk="inl", type="search", op="inl1")
            F.update(form="challenges", chals=[{"name": "c1", "dflt": "abs", "sched": [t1, t2, t3]}], parts=list(parts), tight=collect == "tight", squote=collect == "single")
            F["ops"] = [{"name": "n1", "type": "search", "bulk": dict(tg.NOVAL), "xp": dict(tg.NOX)}, {"name": "op2", "type": "raw-request", "bulk": dict(tg.NOVAL), "xp": dict(tg.NOX)}]
            txt = {"ops": [{"i": 1, "lit": tg.TEXT_POOL[k]}, {"i": 2, "lit": tg.TEXT_POOL[(k + 5) % n]}], "tasks": [{"c": 1, "e": 3, "i": 1, "lit": tg.TEXT_POOL[(k + 11) % n]}]}
            style = dict(tg.DEFAULT_STYLE, collect=collect, shuffle=k % 2 == 1, split_ops=k % 3 == 0, seed=k)
            cases.append({"id": "d%d-%s" % (k, name), "src": "directed-text", "f": F, "sel": "", "style": style, "via": "load_track" if k % 7 == 3 else "read", "label": "", "txt": txt})
    return cases


TIMING_VALUES = {"wi": 5, "it": 7, "wtp": 20, "tp": 30}


def directed_timing_cases():
    """Every subset of the five timing attributes a task can carry (warmup-iterations, iterations, warmup-time-period, time-period,
    ramp-up-time-period; the ramp-up below / equal to / above the warm-up) x where they are written: on a plain task, on a
    parallel element whose two tasks inherit them, iterations on the task and the time periods on its parallel element. The
    generated sources reach a combination of three or more attributes only by accident (e.g. warmup-iterations + a sufficient
    warmup-time-period + ramp-up-time-period and nothing else: one of the instances of 'mixing iterations with time periods')."""
    cases = []
    keys = ["wi", "it", "wtp", "tp", "ru"]
    for mask in range(1, 1 << len(keys)):
        sub = [k for b, k in enumerate(keys) if mask >> b & 1]
        for ru in [10, 20, 40] if "ru" in sub and "wtp" in sub else [10]:
            vals = {k: (ru if k == "ru" else TIMING_VALUES[k]) for k in sub}
            for where in ("task", "par", "split"):
                on_el = {} if where == "task" else vals if where == "par" else {k: v for k, v in vals.items() if k in ("wtp", "tp", "ru")}
                on_task = {k: v for k, v in vals.items() if k not in on_el}
                if where == "split" and (not on_el or not on_task):
                    continue
                F = _minimal(**on_task)
                el = F["chals"][0]["sched"][0]
                if where != "task":
                    el["par"] = True
                    for k, v in on_el.items():
                        el[k] = {"v": v, "p": ""}
                    t2 = json.loads(json.dumps(el["tasks"][0]))
                    t2["name"] = {"v": "second", "p": ""}
                    el["tasks"].append(t2)
                cid = "dt-%s-%s%s" % (where, "+".join(sub), "-ru%d" % ru if "ru" in sub else "")
                cases.append({"id": cid, "src": "directed-timing", "f": F, "sel": "", "style": dict(tg.DEFAULT_STYLE, seed=mask), "via": "read", "label": "", "txt": NOTEXT})
    return cases


def execute(case, root):
    """Renders the case, runs the real loader, returns the trace item."""
    txt = case.get("txt") or NOTEXT
    tg.render(case["f"], root, case["style"], txt)
    o = tg.load(root, case["f"], case["sel"], case["via"])
    return {"id": case["id"], "kind": "load", "f": case["f"], "sel": case["sel"], "txt": tg.texts_for_trace(txt), "out": {k: o[k] for k in ("ok", "kind", "core", "extra", "txt")}}, o["err"]


def _text_profile(case):
    """where the texts of the case live and whether one of them contains a backslash in the file"""
    txt = case.get("txt") or NOTEXT
    parts = case["f"]["parts"]
    in_part = bool(txt["ops"] and "ops" in parts) or bool(txt["tasks"] and "chals" in parts)
    nested = bool(any(x["i"] > 1 or len(case["f"]["ops"]) == 1 for x in txt["ops"]) and "opsN" in parts) or bool(txt["tasks"] and "sched" in parts)
    return {
        "text_params": len(txt["ops"]) + len(txt["tasks"]),
        "text_in_included_part": in_part,
        "text_in_second_level_part": nested,
        "text_with_backslash": any("\\" in x["lit"] for x in txt["ops"] + txt["tasks"]),
    }


def _param_only_in_part(F):
    """a supplied parameter that is referenced only inside an included part"""
    sup = {s["p"] for s in F["supN"]} | {s["p"] for s in F["supS"]}
    inpart, outside = set(), set()
    outside.update((F["ibody"]["p"] if F["indices"] else "", F["tbody"]["p"] if F["tkind"] else ""))
    (inpart if "ops" in F["parts"] else outside).update(p for o in F["ops"] for p in (o["bulk"]["p"], o["xp"]["p"]))
    tgt = inpart if "corpora" in F["parts"] else outside
    for k in F["corpora"]:
        tgt.update(d["count"]["p"] for d in k["docs"])
    tgt = inpart if "chals" in F["parts"] else outside
    for ch in F["chals"]:
        for el in ch["sched"]:
            tgt.update(el[k]["p"] for k in tg.EL_NUM)
            for t in el["tasks"]:
                tgt.update(t[k]["p"] for k in tg.TASK_NUM)
                tgt.update((t["name"]["p"], t["xp"]["p"]))
    return bool((sup & inpart) - outside)


def _signature(case, clauses, out_kind):
    """Kind of failing input (scalars only, for known-findings matching):
    Rejection   -> which documented rules the accepted file breaks; for 'mixing' which timing attributes one task combines
    ValidLoads / Fidelity -> how includes are written, as what the valid file was rejected, whether a supplied parameter is
                   referenced only inside an included part, whether a part includes a second-level part"""
    names = sorted({c.split(":")[0] for c in clauses})
    sig = {"clause": ",".join(names)}
    rules = sorted({c.split(":")[1] for c in clauses if c.startswith("Rejection:")})
    if rules:
        sig["rules"] = "+".join(rules)
    mix = sorted({c.split(":")[2] for c in clauses if c.startswith("Rejection:mixing:")})
    if mix:
        sig["mixed"] = "+".join(mix)
    if "ValidLoads" in names or "Fidelity" in names or "IncludedTextVerbatim" in names:
        sig.update(_text_profile(case))
        sig["collect"] = case["style"]["collect"]
        sig["rejected_as"] = out_kind or "loaded"
        # valid apart from the pinned rule paramOnlyInUnscanned (known finding F14), as TLC classified the file
        sig["used_param_only_where_the_loader_does_not_scan"] = "ValidLoads:unscannedParam" in clauses
        sig["supplied_param_only_in_included_part"] = _param_only_in_part(case["f"])
        sig["nested_include"] = any(k in case["f"]["parts"] for k in ("opsN", "sched", "docs"))
        sig["param_in_index_body_or_template_file"] = bool((case["f"]["ibody"]["p"] and case["f"]["indices"]) or (case["f"]["tkind"] and case["f"]["tbody"]["p"]))
    return sig


# ---------------------------------------------------------------------------------------------------
def cases_from_dump(ctx, dump, rnd, quotas, default_quota):
    """Per verdict label (valid / the rule broken) about a quota of the states of the exhaustive run is replayed on the real
    loader; the selection depends only on the state and the seed, not on the order in which TLC found the states."""
    picked, counts, n = tg.sample_dump(dump, quotas, default_quota, ctx.seed, keep_special=("none",) if ctx.quick else ())
    cases = [make_case("s%d-%s" % (k, st["violated"]), "tlc-state", tg.from_state(st["f"]), rnd, st["violated"]) for k, st in enumerate(picked)]
    return cases, counts, n


def run_sim(ctx, cfg, num, depth, seed_off):
    wd = tlc.prepare_workdir("TrackModel", "c10sim")
    simdir = os.path.join(wd, "sim")
    os.makedirs(simdir)
    res = tlc.run_tlc(wd, "MC_TrackModel", cfg, workers=1, simulate={"num": num, "file": os.path.join(simdir, "b")}, depth=depth, seed=ctx.seed + seed_off, timeout=1500)
    return res, simdir


def cases_from_sim(res, simdir, out, rnd):
    if not res.ok:
        raise tlc.MachineryError("simulation reported a model violation: %s" % res.out[-2000:])
    out.add_tlc(res)
    cases = []
    for k, fn in enumerate(sorted(glob.glob(os.path.join(simdir, "b_*")))):
        st = tg.last_simulation_state(fn, crosscheck=k < 3)
        if st is not None:
            cases.append(make_case("b%d" % k, "tlc-simulate", tg.from_state(st["f"]), rnd, st["violated"]))
    return cases


def random_cases(seed, n):
    rnd = random.Random(seed)
    types = sorted(r["hyph"] for r in tg.optype_table()) + tg.CUSTOM_TYPES
    cases = []
    for k in range(n):
        F = tg.random_file(rnd, types)
        cases.append(make_case("r%d" % k, "random", F, rnd, ""))
    return cases


def _minimal(**task_fields):
    t = {"name": dict(tg.NOSTR), "opk": "str", "op": "bulk", "type": "", "unit": "", "tags": [], "xp": dict(tg.NOX)}
    for k in tg.TASK_NUM:
        t[k] = dict(tg.NOVAL)
    for k, v in task_fields.items():
        t[k] = {"v": v, "p": ""}
    el = {"par": False, "cb": "", "tasks": [t]}
    for k in tg.EL_NUM:
        el[k] = dict(tg.NOVAL)
    return {"form": "schedule", "chals": [{"name": "", "dflt": "abs", "sched": [el]}], "ops": [], "corpora": [], "indices": [], "streams": [], "supN": [], "supS": [], "parts": [], "refs": [], "tight": False, "squote": False, "mac": dict(tg.NOVAL), "defect": dict(tg.NODEFECT), "ibody": dict(tg.NOVAL), "tkind": "", "tbody": dict(tg.NOVAL)}


def probe_loader(root):
    """Which variant of the transcription (Code) describes the tree under test. Used for L2 (drift) only - L1 does not
    depend on the switches."""
    F1, F2 = _minimal(it=5, tp=10), _minimal(wi=5, wtp=10)
    F3 = _minimal()
    F3.update(ops=[{"name": "n1", "type": "bulk", "bulk": {"v": 50, "p": "p1"}, "xp": dict(tg.NOX)}], parts=["ops"], tight=True, supN=[{"p": "p1", "v": 7}])
    res = []
    for F in (F1, F2, F3):
        tg.render(F, root, {"collect": "tight" if F["tight"] else "spaced"})
        res.append(tg.load(root, F))
    return {"RejectAllMixing": (not res[0]["ok"]) and (not res[1]["ok"]), "MacroIncludesSeen": res[2]["ok"]}


def trace_cfg(switches):
    with open(os.path.join(tlc.SPECS, "TrackModel", "TraceTrackModel.cfg"), "r", encoding="utf-8") as fh:
        text = fh.read()
    for k, v in switches.items():
        a = "  %s = TRUE\n" % k
        if text.count(a) != 1:
            raise tlc.MachineryError("TraceTrackModel.cfg: expected exactly one line %r" % a)
        text = text.replace(a, "  %s = %s\n" % (k, "TRUE" if v else "FALSE"))
    return text


def validate(items, switches, name="c10trace"):
    verdicts = []
    cfg_text = trace_cfg(switches)
    for k in range(0, len(items), 4000):
        verdicts.append(tracecheck.validate("TrackModel", "TraceTrackModel", "TraceTrackModel.cfg", items[k : k + 4000], name=name, timeout=1200, cfg_text=cfg_text))
    l1, l2, acc = {}, {}, 0
    for v, k in zip(verdicts, range(0, len(items), 4000)):
        l1.update(v.l1)
        l2.update(v.l2)
        acc += v.accepted(len(items[k : k + 4000]))
    return l1, l2, acc


def run(ctx, out):
    out.rule = (
        "case = (abstract track file, supplied track parameters, selected challenge, rendering style); distinct by hash of the file and the "
        "supplied parameters; non-trivial = something is written beyond the minimal one-task file. Sources: every reachable state of the "
        "exhaustive TLC run of TrackModel.tla (bounded number of things written), final states of TLC -simulate behaviours over wide "
        "alphabets, seeded random files not derived from TLC (C2S only)."
    )
    out.assumptions = [
        "Jinja2, the json module and the jsonschema library are trusted (jsonschema's self-check of the constant track schema is run once per distinct schema, not per load)",
        "the track format is exercised through the constructs the harness renders: literal values, {{ p | default(v) }} parameters (numbers, task names, inside strings), "
        "includes written with single quotes (handled by the Jinja macro), a macro file pulled in with {% import %}, base-url on corpora / document sets, an index body file and a composable / component / legacy template file with parameters of their own, strings with & < > ' (names, tags, supplied string parameters), "
        "the helper macro rally.exists_set_param (with / without default_value, comma=True / False; user values absent, 0, false, '', truthy), "
        "rally.collect(parts=...) includes with and without blanks inside the braces, one and two levels deep (second-level pattern relative to the including part's directory), operations by name / by type / inline, single-string or list tags, shuffled keys, "
        "optional version / description; index / template bodies, custom parameter sources and track plugins are not exercised",
        "'track syntax or configuration error' = exceptions.InvalidSyntax (incl. loader.TrackSyntaxError), exceptions.TrackConfigError, exceptions.ConfigError; any other exception class "
        "or a returned track counts as not rejected",
        "'mixing iterations with time periods' is read as: a task whose applicable attributes (own or inherited from its parallel element) contain warmup-iterations or iterations "
        "together with warmup-time-period or time-period; rules the loader enforces but the statement does not name (ramp-up only on the parallel element, corpus target "
        "derivation for targets of the other kind / corpus-level targets without the corresponding section) are checked at L2 only",
        "the target of a document set is part of 'corpora exactly as written': its own target-index / target-data-stream, else the corpus-level one, else the name of the ONLY "
        "index / data stream (docs/track.rst), nothing with includes-action-and-meta-data; a file that determines no target must not load (rule targetUndetermined, clause TargetAsWritten)",
    ]
    rnd = random.Random(ctx.seed + 10)
    t0 = time.time()
    lap = lambda what: out.note("[%5.1fs] %s" % (time.time() - t0, what))  # noqa: E731  (progress only, never part of a verdict)
    # ---- Leg M (the four TLC runs are independent processes: started side by side, joined in a fixed order)
    cfg = "TrackModel.quick.cfg" if ctx.quick else "TrackModel.thorough.cfg"
    wd = tlc.prepare_workdir("TrackModel", "c10mc")
    dump = os.path.join(wd, "states")
    wd2 = tlc.prepare_workdir("TrackModel", "c10pinned")
    wd3 = tlc.prepare_workdir("TrackModel", "c10pinned2")
    with concurrent.futures.ThreadPoolExecutor(max_workers=4) as pool:
        f_mc = pool.submit(tlc.run_tlc, wd, "MC_TrackModel", cfg, timeout=2400, dump=dump, allow_violation=True, workers=4 if ctx.quick else 8)
        f_sim = pool.submit(run_sim, ctx, "TrackModel.sim.cfg", 100 if ctx.quick else 1500, 16, 1)
        f_p1 = pool.submit(tlc.run_tlc, wd2, "MC_TrackModel", "TrackModel.pinned.cfg", timeout=600, allow_violation=True, workers=2)
        f_p2 = pool.submit(tlc.run_tlc, wd3, "MC_TrackModel", "TrackModel.pinned2.cfg", timeout=600, allow_violation=True, workers=2)
        res, (res_sim, simdir), res2, res3 = f_mc.result(), f_sim.result(), f_p1.result(), f_p2.result()
    out.add_tlc(res)
    if not res.ok:
        raise tlc.MachineryError("model violates %s (%s)" % (res.invariant_violated, res.out[-2500:]))
    out.note("leg M %s: %d distinct states (abstract track files) in %.1fs" % (cfg, res.distinct, res.wall_s))
    if res2.invariant_violated != "PropertyHolds":
        raise tlc.MachineryError("self-test failed: the pre-repair variant of the model (RejectAllMixing = FALSE) does not violate PropertyHolds: %s" % res2.out[-1500:])
    if res3.invariant_violated != "PropertyHolds":
        raise tlc.MachineryError("self-test failed: the variant MacroIncludesSeen = FALSE does not violate PropertyHolds: %s" % res3.out[-1500:])
    out.extra["model_selftest"] = (
        "the variants of the model that describe the loader as written before a repair (RejectAllMixing=FALSE; MacroIncludesSeen=FALSE) "
        "violate PropertyHolds in the model, as expected"
    )
    lap("model checking and self-tests done")
    # ---- S2C: reachable files -> real track directories -> real loader
    dump_file = dump + ".dump" if os.path.exists(dump + ".dump") else dump
    cases, per_rule, nstates = cases_from_dump(ctx, dump_file, rnd, {"none": 1000} if ctx.quick else {"none": 25000}, 60 if ctx.quick else 2000)
    if nstates != res.distinct:
        raise tlc.MachineryError("dump has %d states, TLC reported %d" % (nstates, res.distinct))
    missing = [r for r in L1_RULES if per_rule.get(r, 0) == 0]
    if missing:
        out.vacuous.append("rules never violated in the explored state space: %s" % missing)
    out.extra["states_per_verdict"] = dict(sorted(per_rule.items()))
    out.note("leg S2C: %d of %d TLC states selected, files per broken rule: %s" % (len(cases), nstates, dict(sorted(per_rule.items()))))
    sims = cases_from_sim(res_sim, simdir, out, rnd)
    out.note("leg S2C: %d TLC -simulate behaviours (wide alphabets, valid for 5 builder steps, then up to 9 more; mean size of the final file %.1f)" % (len(sims), sum(tg.size(c["f"]) for c in sims) / max(1.0, float(len(sims)))))
    lap("simulation done")
    rnds = random_cases(ctx.seed + 1010, 300 if ctx.quick else 8000)
    directed = directed_text_cases()
    timing = directed_timing_cases()
    allcases = [attach_texts(c, ctx.seed) for c in cases + sims + rnds] + directed + timing

    root = os.path.join(tlc.scratch("c10tracks"), "t")
    switches = probe_loader(root)
    out.extra["loader_variant_for_L2"] = switches
    out.note("loader variant of the tree under test (selects the transcription used for L2 only): %s" % switches)
    items, errs, index, item_of = [], {}, {}, {}
    stats = {"loaded": 0, "syntax": 0, "config": 0, "other": 0}
    text_stats = {"cases_with_text": 0, "loaded_with_text": 0, "text_params": 0, "text_in_included_part": 0, "text_in_second_level_part": 0}
    for case in allcases:
        it, err = execute(case, root)
        items.append(it)
        item_of[case["id"]] = it
        errs[case["id"]] = err
        index[case["id"]] = case
        o = it["out"]
        stats["loaded" if o["ok"] else o["kind"] if o["kind"] in ("syntax", "config") else "other"] += 1
        key = {"f": case["f"], "sel": case["sel"]}
        if case["txt"]["ops"] or case["txt"]["tasks"]:
            key["txt"] = case["txt"]
            prof = _text_profile(case)
            for k in ("text_params", "text_in_included_part", "text_in_second_level_part"):
                text_stats[k] += int(prof[k])
            text_stats["cases_with_text"] += 1
            text_stats["loaded_with_text"] += int(o["ok"])
        out.add_case(key, nontrivial=tg.size(case["f"]) > 0)
    lap("%d tracks rendered and loaded" % len(items))
    out.extra["real_loader_outcomes"] = stats
    out.extra["text_parameters"] = dict(text_stats, pool=len(tg.TEXT_POOL), directed_cases=len(directed))
    if text_stats["cases_with_text"] == 0 or text_stats["text_in_second_level_part"] == 0:
        out.vacuous.append("no generated track carries a text parameter (in a second-level part): IncludedTextVerbatim is vacuous")
    out.extra["directed_timing_cases"] = {"cases": len(timing), "loaded": sum(1 for c in timing if item_of[c["id"]]["out"]["ok"])}
    out.extra["via_load_track"] = sum(1 for c in allcases if c["via"] == "load_track")
    for pick in (cases[len(cases) // 2], sims[len(sims) // 2] if sims else None, rnds[0] if rnds else None):
        if pick is not None:
            it = item_of[pick["id"]]
            out.sample({"source": pick["src"], "broken_rule": pick["label"], "file": pick["f"], "selected": pick["sel"], "style": pick["style"], "outcome": it["out"]["kind"] if not it["out"]["ok"] else it["out"]["core"]["chals"]}, limit=3)
    # operation-type registry as a table
    table = [dict(r, id="optype-%s" % r["member"], kind="optype") for r in tg.optype_table()]
    out.extra["operation_types_in_registry"] = len(table)

    # ---- C2S
    l1, l2, acc = validate(items + table, switches)
    out.traces_validated += acc
    for tid, fails in l1.items():
        case = index[tid]
        it = item_of[tid]
        clauses = sorted({c for _, cl in fails for c in cl})
        sig = _signature(case, clauses, it["out"]["kind"])
        detail = "%s source=%s outcome=%s %s" % (clauses, case["src"], "loaded" if it["out"]["ok"] else it["out"]["kind"], errs[tid][:160].replace("\n", " "))
        out.violations.append(Violation(sig["clause"], {k: case[k] for k in ("f", "sel", "style", "via", "txt")}, signature=sig, detail=detail))
    # self-test of the clause IncludedTextVerbatim: a recorded load that the clause accepts must fail it (and nothing else at L1)
    # once one byte of a loaded text differs / one text is lost / a task that has none carries one
    base = next((item_of[c["id"]] for c in directed if item_of[c["id"]]["out"]["ok"] and c["id"] not in l1), None)
    if base is None:
        out.note("self-test of IncludedTextVerbatim skipped: no directed case was loaded and accepted on this tree")
    else:
        def forged(tag, edit):
            it = json.loads(json.dumps(base))
            it["id"] = "selftest-" + tag
            edit(it["out"]["txt"])
            return it

        forged_items = [
            forged("byte", lambda t: t[0]["w"].__setitem__(0, t[0]["w"][0] ^ 1)),
            forged("lost", lambda t: t.pop()),
            forged("moved", lambda t: t[0].__setitem__("e", t[0]["e"] + 1 if t[0]["e"] == 1 else 1)),
            forged("same", lambda t: t.reverse()),
        ]
        sl1, _, _ = validate(forged_items, switches, name="c10selftest")
        got = {tid: sorted({c for _, cl in fails for c in cl}) for tid, fails in sl1.items()}
        want = {"selftest-byte": ["IncludedTextVerbatim"], "selftest-lost": ["IncludedTextVerbatim"], "selftest-moved": ["IncludedTextVerbatim"]}
        if got != want:
            raise tlc.MachineryError("self-test of the clause IncludedTextVerbatim failed: %s (expected %s)" % (got, want))
        out.extra["text_clause_selftest"] = "forged loads (one byte differs / one text lost / text on another task) fail IncludedTextVerbatim, the reordered original passes"
    for tid in l2:
        if tid in index:
            out.drift.append("case %s (%s): outcome of the real loader differs from the transcription (Code): %s %s" % (tid, index[tid]["src"], "loaded" if item_of[tid]["out"]["ok"] else item_of[tid]["out"]["kind"], errs[tid][:120].replace("\n", " ")))
        else:
            out.drift.append("operation-type registry row %s differs from the model's table" % tid)
    out.note("leg C2S: %d recorded loads + %d registry rows validated by TLC (%s)" % (len(items), len(table), stats))


def replay(ctx, case):
    root = os.path.join(tlc.scratch("c10tracks"), "t")
    c = dict(case, id="replay", src="replay", label="")
    it, err = execute(c, root)
    with open(os.path.join(root, "track.json"), "r", encoding="utf-8") as fh:
        print(fh.read())
    for rel in sorted(glob.glob(os.path.join(root, "*", "**", "*.json"), recursive=True)):
        with open(rel, "r", encoding="utf-8") as fh:
            print("---- %s\n%s" % (os.path.relpath(rel, root), fh.read()))
    print("supplied track parameters: %s" % tg.supplied_params(case["f"]))
    print("outcome of the real loader: %s %s" % ("loaded" if it["out"]["ok"] else it["out"]["kind"], err))
    l1, l2, _ = validate([it], probe_loader(root + "probe"), name="c10replay")
    for tid, fails in l1.items():
        print("VIOLATION property=C10 clause=%s" % sorted({c for _, cl in fails for c in cl}))
    if not l1 and it["out"]["ok"]:
        print(json.dumps(it["out"]["core"], indent=1)[:3000])
    return 1 if l1 else 0
