"""Shared by C01 / C07 (/ C09): model checking of RaceDriver.tla, replay of TLC behaviours into the real driver actors
under SimActorSystem, TLC validation of every recorded execution."""
import glob
import os
import sys
import random
import re

from .. import racetrace, tlc, tracecheck
from ..core import Violation
from ..tlaparse import parse_value, to_json

C01_CLAUSES = {"Barrier", "AtMostOnce", "ExactlyOnceAtEnd", "CompleteOnce", "CompletedByNamed", "CompletedByEnds", "CompletedByCuts", "NoSpuriousFailure", "NoCrossElementCut", "NoStall", "NoHang"}
C07_CLAUSES = {"SampleConservation", "AllSamplesAtRaceControl", "OnlyFullQueueDrops", "FinalRecords"}

_ACT = re.compile(r"^/\\ act = (\[.*?\])\s*$", re.M | re.S)


def trace_cfg(test_mode, qmax, pp_interval=2, skip_fix=True):
    return "\n".join(
        [
            "SPECIFICATION TSpec",
            "CONSTANTS",
            "  Scenarios = {}",
            "  Ticks = TRUE",
            "  SkipFix = %s" % ("TRUE" if skip_fix else "FALSE"),
            "  CctFix = TRUE",
            "  SelfFailFix = TRUE",
            "  StaleResetFix = TRUE",
            "  FlushFix = TRUE",
            "  QMax = %d" % qmax,
            "  PPInterval = %d" % pp_interval,
            "  TestMode = %s" % ("TRUE" if test_mode else "FALSE"),
            '  FaultKinds = {"none", "req", "param", "store", "rcstore", "die", "cancel"}',
            "  MaxTimed = 100",
            "  MaxEternal = 100000",
            "CHECK_DEADLOCK FALSE",
            "",
        ]
    )


def model_check(out, cfgs, timeout=1500, workers=None):
    for cfg in cfgs:
        wd = tlc.prepare_workdir("RaceDriver", "racemc")
        res = tlc.run_tlc(wd, "MC_RaceDriver", cfg, timeout=timeout, allow_violation=True, workers=workers)
        out.add_tlc(res)
        if not res.ok:
            raise tlc.MachineryError("model violates %s in %s:\n%s" % (res.invariant_violated or res.property_violated or "deadlock", cfg, res.out[-2500:]))
        out.note("leg M %s: %d distinct states, depth %d, %.1fs" % (cfg, res.distinct, res.depth, res.wall_s))


def model_selftest(out):
    wd = tlc.prepare_workdir("RaceDriver", "racepinned")
    res = tlc.run_tlc(wd, "MC_RaceDriver", "RaceDriver.pinned.cfg", timeout=600, allow_violation=True)
    if res.invariant_violated != "NoStall":
        raise tlc.MachineryError("self-test failed: pinned variant (SkipFix=FALSE) does not violate NoStall in the model")
    out.extra["model_selftest"] = "pinned variant (SkipFix=FALSE: Worker.drive stops after skipping) violates NoStall in the model, as expected"


def _split_states(text):
    parts = re.split(r"^STATE_\d+ ==\s*$", text, flags=re.M)
    return parts[1:]


def behaviours(ctx, out, num, depth, cfg="RaceDriver.sim.cfg", seed_off=0, with_fault=False):
    """TLC -simulate behaviours -> list of (scn_json, script) with script = [(action name, arg), ...]."""
    wd = tlc.prepare_workdir("RaceDriver", "racesim")
    simdir = os.path.join(wd, "sim")
    os.makedirs(simdir)
    res = tlc.run_tlc(wd, "MC_RaceDriver", cfg, workers=1, simulate={"num": num, "file": os.path.join(simdir, "b")}, depth=depth, seed=ctx.seed + 101 + seed_off, timeout=900)
    if not res.ok:
        raise tlc.MachineryError("simulation reported a model violation: %s" % res.out[-2000:])
    out.add_tlc(res)
    return _parse_behaviours(simdir, with_fault)


def _parse_behaviours(simdir, with_fault):
    result = []
    for fn in sorted(glob.glob(os.path.join(simdir, "b_*"))):
        with open(fn, "r", encoding="utf-8") as f:
            text = f.read()
        states = _split_states(text)
        if not states:
            continue
        m = re.search(r"^/\\ scn = (.*?)(?=^/\\ |\Z)", states[0], flags=re.M | re.S)
        scn = {k: v for k, v in to_json(parse_value(m.group(1))).items() if k in ("sched", "workerOf", "W")}
        mf = re.search(r"^/\\ flt = (.*?)(?=^/\\ |\Z)", states[0], flags=re.M | re.S)
        fault = str(parse_value(mf.group(1))["kind"]) if mf else "none"
        script = []
        for st in states[1:]:
            body = "\n".join(ln for ln in st.splitlines() if not ln.startswith("\\*") and not ln.startswith("===="))
            ma = re.search(r"^/\\ act = (.*?)(?=^/\\ |\Z)", body, flags=re.M | re.S)
            a = parse_value(ma.group(1))
            arg = a.get("w", a.get("c", a.get("i", 0)))
            script.append((str(a["name"]), arg))
        result.append((scn, script, fault) if with_fault else (scn, script))
    return result


# ---- generated scenario family: schedules drawn by the harness (seeded), given to TLC as the constant set `Scenarios`
ETERNAL, TIMED = -1, -2


def gen_scenarios(rnd, n):
    """n random VALID schedules: 1-2 elements; the first a task or a parallel of 2-3 tasks (plain / completed-by <task> /
    completed-by any; 1-2 clients per task; iteration-based, time-period based or eternal; optional clients cap =
    over-commitment), <= 3 clients, 1-3 cores. Valid = the race can end: the named task ends by itself, with `any` some task
    does, eternal tasks only next to a completing task and never in an over-committed element."""
    res, seen = [], set()
    while len(res) < n:
        k = rnd.choice([1, 2, 2, 2, 3])
        mode = rnd.choice(["plain", "cp", "cp", "acp"]) if k > 1 else "plain"
        named = rnd.randrange(k) if mode == "cp" else None
        cap = rnd.choice([0, 0, 0, 1, 2]) if k > 1 else 0
        tasks = []
        for i in range(k):
            clients = rnd.choice([1, 1, 2])
            if mode == "cp" and i == named:
                reqs = rnd.choice([1, 2, 2, TIMED])
            elif mode == "cp":
                reqs = rnd.choice([1, 2, ETERNAL, ETERNAL, TIMED])
            elif mode == "acp":
                reqs = rnd.choice([1, 2, 3, ETERNAL, TIMED])
            else:
                reqs = rnd.choice([1, 2, TIMED])
            tasks.append({"id": i + 1, "clients": clients, "reqs": reqs, "cp": mode == "cp" and i == named, "acp": mode == "acp"})
        total = sum(t["clients"] for t in tasks)
        over = cap and cap < total
        if over and any(t["reqs"] == ETERNAL for t in tasks):
            continue
        if mode == "acp" and all(t["reqs"] == ETERNAL for t in tasks):
            continue
        m1 = cap if cap else total
        sched = [{"tasks": tasks, "cap": cap}]
        r2 = rnd.random()
        if r2 < 0.2 and m1 <= 3:
            # a SECOND completed-by parallel element (named task + an eternal one)
            sched.append({"tasks": [{"id": k + 1, "clients": 1, "reqs": rnd.choice([1, 2]), "cp": True, "acp": False}, {"id": k + 2, "clients": 1, "reqs": ETERNAL, "cp": False, "acp": False}], "cap": 0})
        elif r2 < 0.8:
            sched.append({"tasks": [{"id": k + 1, "clients": rnd.choice([1, 2, 3]), "reqs": 1, "cp": False, "acp": False}], "cap": 0})
        if rnd.random() < 0.2:
            sched.reverse()  # the parallel element comes second
            ids = iter(range(1, 10))
            for e in sched:
                for t in e["tasks"]:
                    t["id"] = next(ids)
        m = max(max((e["cap"] if e["cap"] else sum(t["clients"] for t in e["tasks"])) for e in sched), 1)
        if m > 3 or m1 > 3:
            continue
        cores = rnd.choice([1, 2, 2, 3, 3])
        key = repr((sched, cores))
        if key in seen:
            continue
        seen.add(key)
        res.append({"sched": sched, "cores": cores})
    return res


def _tla_scenario(g):
    def num(r):
        return {ETERNAL: "Eternal", TIMED: "Timed"}.get(r, str(r))

    elems = []
    for e in g["sched"]:
        ts = ", ".join("%s(%d, %d, %s)" % ("CP" if t["cp"] else ("ACP" if t["acp"] else "T"), t["id"], t["clients"], num(t["reqs"])) for t in e["tasks"])
        elems.append("E(<<%s>>, %d)" % (ts, e["cap"]))
    return "S(<<%s>>, <<>>, %d)" % (", ".join(elems), g["cores"])


def behaviours_gen(ctx, out, n_scn, num, depth, seed_off=0, base_cfg="RaceDriver.sim.cfg", with_fault=False):
    """TLC -simulate behaviours over a GENERATED scenario family (model-side invariants are checked by TLC while simulating)."""
    rnd = random.Random(ctx.seed * 1009 + 77 + seed_off)
    gens = gen_scenarios(rnd, n_scn)
    wd = tlc.prepare_workdir("RaceDriver", "racegen")
    with open(os.path.join(wd, "MC_Gen.tla"), "w", encoding="utf-8") as f:
        f.write("---- MODULE MC_Gen ----\nEXTENDS MC_RaceDriver\nGenScenarios == {\n  %s\n}\n====\n" % ",\n  ".join(_tla_scenario(g) for g in gens))
    with open(os.path.join(wd, base_cfg), "r", encoding="utf-8") as f:
        cfg = re.sub(r"Scenarios <- \w+", "Scenarios <- GenScenarios", f.read(), count=1)
    if "GenScenarios" not in cfg:
        raise tlc.MachineryError("%s does not substitute Scenarios" % base_cfg)
    with open(os.path.join(wd, "RaceDriver.gen.cfg"), "w", encoding="utf-8") as f:
        f.write(cfg)
    simdir = os.path.join(wd, "sim")
    os.makedirs(simdir)
    res = tlc.run_tlc(wd, "MC_Gen", "RaceDriver.gen.cfg", workers=1, simulate={"num": num, "file": os.path.join(simdir, "b")}, depth=depth, seed=ctx.seed + 303 + seed_off, timeout=900)
    if not res.ok:
        raise tlc.MachineryError("simulation over generated scenarios reported a model violation: %s" % res.out[-2500:])
    out.add_tlc(res)
    return _parse_behaviours(simdir, with_fault), len(gens)


def scn_signature(scn):
    feats = []
    for e in scn["sched"]:
        total = sum(t["clients"] for t in e["tasks"])
        if e["cap"] and e["cap"] < total:
            feats.append("overcommitted")
        if any(t["cp"] for t in e["tasks"]):
            feats.append("completed-by-task")
        if any(t["acp"] for t in e["tasks"]):
            feats.append("completed-by-any")
        if any(t["reqs"] == -1 for t in e["tasks"]):
            feats.append("eternal")
    return sorted(set(feats))


def run_races(ctx, out, jobs, clauses, label):
    """jobs: list of dict(scn, script, seed, test_mode, qmax, offsets). Runs the real actors, validates with TLC.
    Only L1 failures whose clause is in `clauses` become violations of the calling property."""
    import time as _t

    t0 = _t.time()
    groups = {}
    index = {}
    stats = {"followed": 0, "skipped": 0, "hangs": 0, "incomplete": 0}
    for n, job in enumerate(jobs):
        tid = "%s-%d" % (label, n)
        tr = racetrace.TracedRace(
            job["scn"],
            seed=job["seed"],
            test_mode=job["test_mode"],
            queue_size=job["qmax"] if job["qmax"] < 100 else None,
            offsets=job.get("offsets"),
            fault=job.get("fault", "none"),
            req_variant=job.get("req_variant", "conn_error"),
            fault_delay=job.get("fault_delay", 0),
            lenient=job.get("lenient", ()),
        )
        if os.environ.get("VERIF_DEBUG_RACE") == tid:
            import logging

            logging.basicConfig(level=logging.DEBUG, stream=sys.stdout, force=True)
            logging.disable(logging.NOTSET)
            os.environ["VERIF_KEEP_LOGGING"] = "1"
        try:
            tr.start()
            f, s = tr.run(job["script"], random.Random(job["seed"] * 7919 + 13), max_events=job.get("max_events", 400))
            stats["followed"] += f
            stats["skipped"] += s
            if tr.hang:
                stats["hangs"] += 1
            if not tr.complete():
                stats["incomplete"] += 1
            if job.get("fault", "none") != "none":
                stats["faults_fired"] = stats.get("faults_fired", 0) + (1 if tr.w.fault_fired else 0)
            if tr.unprojectable:
                out.drift.append("%s: the implementation reached a state that cannot be projected onto RaceDriver.tla's variables after %d events (%s)" % (tid, len(tr.events), tr.unprojectable))
            if tr.w.sim.handler_errors and job.get("fault", "none") == "none":
                out.drift.append("%s: handler raised: %s" % (tid, tr.w.sim.handler_errors[0][2].strip().splitlines()[-1]))
            trace = tr.trace(tid)
        finally:
            tr.close()
        groups.setdefault((job["test_mode"], job["qmax"]), []).append(trace)
        index[tid] = (job, trace)
        out.add_case({"scn": job["scn"], "sched": [(e["ev"], e["arg"]) for e in trace["events"]]}, nontrivial=len(trace["events"]) > 10)
    t1 = _t.time()
    out.note("%d races executed on the real actors in %.1fs (%d events)" % (len(jobs), t1 - t0, sum(len(t["events"]) for ts in groups.values() for t in ts)))
    for (test_mode, qmax), traces in sorted(groups.items(), key=str):
        v = tracecheck.validate("RaceDriver", "TraceRaceDriver", "TraceRaceDriver.cfg", traces, name="racetrace", cfg_text=trace_cfg(test_mode, qmax), chunk=60, timeout=1200, skip_field="skipL2")
        out.states += v.n_events
        out.transitions += v.n_events
        bad = set()
        for tid, fails in v.l1.items():
            job, trace = index[tid]
            mine = sorted({c for _, cl in fails for c in cl if c in clauses})
            if not mine:
                continue
            bad.add(tid)
            first = min(ln for ln, cl in fails if set(cl) & clauses)
            case = {"scn": job["scn"], "seed": job["seed"], "test_mode": test_mode, "qmax": qmax, "offsets": job.get("offsets"), "fault": job.get("fault", "none"), "req_variant": job.get("req_variant", "conn_error"), "lenient": list(job.get("lenient", ())), "decisions": [(e["ev"], e["arg"]) for e in trace["events"] if e["ev"] != "Hang"]}
            out.violations.append(Violation(",".join(mine), case, signature={"clauses": mine, "scenario": scn_signature(job["scn"]), "fault": job.get("fault", "none")}, detail="trace %s first failing event %d (%s)" % (tid, first, trace["events"][first - 1]["ev"])))
        for tid, lines in v.l2.items():
            if tid in bad:
                continue
            job, trace = index[tid]
            ln = lines[0]
            ev = trace["events"][ln - 1]["ev"] if ln >= 1 else "Init"
            why = " (recorded state outside the model's domain: %s)" % v.eval_errors[tid][0][1] if tid in getattr(v, "eval_errors", {}) else ""
            out.drift.append("trace %s: event %d (%s) is not the %s step of RaceDriver.tla%s" % (tid, ln, ev, ev, why))
            if os.environ.get("VERIF_DEBUG_DRIFT"):
                import json

                prev = trace["init"] if ln <= 1 else trace["events"][ln - 2]["st"]
                cur = trace["events"][ln - 1]["st"] if ln >= 1 else trace["init"]
                if os.environ.get("VERIF_DEBUG_DRIFT", "").startswith("/"):
                    with open(os.path.join(os.environ["VERIF_DEBUG_DRIFT"], tid + ".json"), "w", encoding="utf-8") as f:
                        json.dump({"job": job, "trace": trace}, f)
                print("DRIFT", tid, ln, ev, trace["events"][ln - 1]["arg"] if ln >= 1 else "", "job", {k: v for k, v in job.items() if k not in ("script", "scn")})
                for k in cur:
                    if prev[k] != cur[k]:
                        print("   ", k, "\n      before:", json.dumps(prev[k])[:900], "\n      after: ", json.dumps(cur[k])[:900])
        out.traces_validated += len(traces) - len(bad | set(v.l2))
    out.note("trace validation by TLC took %.1fs" % (_t.time() - t1))
    return stats, index


def binding_selftest(out, index):
    """Demonstrates the binding: a recorded trace with ONE corrupted field, or with ONE event removed, must be rejected by TLC."""
    import copy

    tid = sorted(index)[0]
    job, trace = index[tid]
    if len(trace["events"]) < 12:
        return
    mutants = []
    t1 = copy.deepcopy(trace)
    t1["id"] = "bind-flip"
    k = next(i for i, e in enumerate(t1["events"]) if e["ev"] == "WRecvDrive")
    t1["events"][k]["st"]["wk"][t1["events"][k]["arg"] - 1]["sd"] = False  # the handler's effect is hidden
    mutants.append(t1)
    t2 = copy.deepcopy(trace)
    t2["id"] = "bind-drop"
    k2 = next(i for i, e in enumerate(t2["events"]) if e["ev"] == "DRecvJoinPointReached")
    del t2["events"][k2]  # one event is missing
    mutants.append(t2)
    t3 = copy.deepcopy(trace)
    t3["id"] = "bind-count"
    k3 = next(i for i, e in enumerate(t3["events"]) if e["ev"] == "DRecvJoinPointReached")
    t3["events"][k3]["st"]["drv"]["completed"] += 1  # a scalar is off by one
    mutants.append(t3)
    v = tracecheck.validate("RaceDriver", "TraceRaceDriver", "TraceRaceDriver.cfg", mutants, name="racebind", cfg_text=trace_cfg(job["test_mode"], job["qmax"]), skip_field="skipL2")
    missed = [m["id"] for m in mutants if m["id"] not in v.l2 and m["id"] not in v.l1]
    if missed:
        raise tlc.MachineryError("binding self-test failed: corrupted traces accepted: %s" % missed)
    out.extra["binding_selftest"] = "3 corrupted copies of a recorded trace (hidden handler effect, removed event, counter off by one) rejected by TLC"


def replay_case(ctx, case, clauses, pid):
    from ..core import Outcome

    out = Outcome(pid)
    job = {"scn": case["scn"], "script": [tuple(x) for x in case["decisions"]], "seed": case["seed"], "test_mode": case["test_mode"], "qmax": case["qmax"], "offsets": case.get("offsets"), "fault": case.get("fault", "none"), "req_variant": case.get("req_variant", "conn_error"), "lenient": case.get("lenient", ())}
    run_races(ctx, out, [job], clauses, "replay")
    for v in out.violations:
        print("VIOLATION property=%s clause=%s %s" % (pid, v.clause, v.detail))
    for d in out.drift:
        print("MODEL-DRIFT property=%s %s" % (pid, d))
    return 1 if out.violations else 0
