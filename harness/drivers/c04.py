"""C04 — latency, service time and processing time mean what the docs say.

One specification (specs/ClientLoop) of a single client's request loop serves C04 and C05; harness/clientloop.py holds the
shared machinery.  This check owns the clauses C04_* of ClientLoop.tla.

Leg M   : TLC on ClientLoop.c04.{quick,thorough}.cfg — every pacing / unit variant (unthrottled, deterministic, Poisson,
          docs/s target, ops/s target with a docs runner, aborting unit mismatch), service times up to 2*interval+1,
          one failing request, weights {1,2}, external completion; RequestProperties + EndProperties.
Leg S2C : TLC -simulate behaviours (wide alphabets, 1 tick = 1 s and 1/4 s) are executed by the REAL schedule_for +
          ScheduleHandle + loop control + schedulers + AsyncExecutor + execute_single + Sampler + RequestContextHolder on
          the virtual-time asyncio loop with a scripted fake client.
Leg C2S : every recorded run (S2C + seeded random dyadic + seeded random millisecond/non-dyadic runs) is validated by TLC
          against TraceClientLoop.tla (L1 = C04_* clauses on the record; L2 = the record is the specification's step).
          + edge runs: 1 tick = 1/1024 s or 1/2048 s, a deterministically throttled client that comes back within the last ticks
            (fractions of a millisecond) before / at / just after its next scheduled time (also in leg M and in the simulated
            behaviours through NearOffsets: service time = target interval - 0..3 ticks);
          + element runs: a `parallel` element (ramp-up over several sub-tasks, or over-committed: clients cap < sum of the
            sub-tasks' clients) is allocated by the REAL Allocator, cut into steps by the REAL ClientAllocations and executed
            by the REAL AsyncIoAdapter (all clients of a step concurrently on one virtual-time loop, shared Sampler); every
            (client, task allocation) gives one recorded run whose client index / total / sub-task clients are DERIVED in TLA+
            from the element's declaration (Placement) and whose client is the one whose ES client executed the requests.
"""
from .. import clientloop, tlc, wireleg

PID = "C04"
PREFIX = "C04_"


def run(ctx, out):
    out.rule = (
        "case = one client's run: task configuration (loop kind and bounds, scheduler, target throughput and unit, clients, client index, "
        "ramp-up, tick size) + start instant + per-request script (overhead before, service time, overhead after, outcome/weight, external "
        "completion) + Poisson increments; distinct by hash of that input; non-trivial = at least 2 requests executed. Sources: TLC -simulate "
        "behaviours of ClientLoop.tla (S2C), seeded random dyadic runs (L1+L2) and seeded random millisecond runs with non-dyadic parameters (L1 only)."
    )
    out.assumptions = [
        "the client is driven on a virtual clock (time.perf_counter/time.time patched, asyncio loop time = that clock): time passes only in asyncio.sleep and in the scripted request; computation takes no time",
        "tick-exact runs use dyadic parameters (throughputs 1/4..4 ops/s, clients and totals powers of two, 1 tick = 1 s or 1/4 s) so that the implementation's float arithmetic is exact and L1/L2 are equalities; "
        "millisecond runs with non-dyadic parameters are recorded rounded to 1 ms and checked with L1 only, tolerance 3 ms",
        "the first request of a throttled task (and every request before the first successful one) is scheduled at 0 by the code and then has latency = service time: named in the model (sched = 0), not flagged; L1 requires latency-from-schedule only for requests with a scheduled time > 0",
        "external completion (the worker-wide `complete` event, set by completed-by of another task) may arrive while a request is in flight or at an instant strictly inside the wait for the next scheduled time; "
        "the code as it is does not look at the event while it waits: the request is issued at its scheduled time, recorded with progress 100% and ends the loop (modelled so; L1 judges that request like any other)",
        "a task's runner reports one unit throughout a run; error outcomes are elasticsearch ApiError (400), plain TransportError and ConnectionTimeout with on-error=continue; fatal ConnectionError and on-error=abort are not covered",
        "every request performs exactly one wire request that sets request_start and request_end (nested / missing request contexts are C18)",
        "'its client' of a sample = the client whose Elasticsearch client object executed the request (the id AsyncIoAdapter passes to EsClientFactory.create_async); in an over-committed parallel element that is client idx % cap",
        "element runs: samples are attributed to the executor coroutine (asyncio task) that called Sampler.add; the clients of one step share the virtual clock, no external completion, no Poisson schedule, runner unit = target unit",
        "runner completion API (cfg.rc): completed becomes true at the k-th call, percent_completed stays None; loop controls with an unbounded iteration count, runner-provided progress values and cancellation are outside the model",
    ]
    cov = clientloop.run_property(
        ctx,
        out,
        PID,
        PREFIX,
        "ClientLoop.c04.quick.cfg" if ctx.quick else "ClientLoop.c04.thorough.cfg",
        (
            "ClientLoop.selftest.latency.cfg",
            "NoC04Violation",
            "variant LatencyEndsAtResponse=FALSE (latency ends at processing_end) violates C04_LatencyFromSchedule in the model, as expected",
        ),
        seed_off=401,
        n_sim=1500 if ctx.quick else 9000,
        n_rand=500 if ctx.quick else 5000,
        n_edge=150 if ctx.quick else 1500,
        n_elem=120 if ctx.quick else 1200,
    )
    for key in ("runs_completed_externally_during_a_throttle_wait", "requests_decided_within_1ms_before_schedule", "runs_of_wrapped_clients_on_overcommitted_element", "throttled_requests", "requests_behind_schedule", "requests_that_slept_until_schedule", "failed_requests", "weight_changes", "runs_aborted_by_unit_check", "runs_with_unit_conversion", "poisson_requests"):
        if not cov[key]:
            out.vacuous.append("no executed run exercised: " + key)
    # wire leg (harness/wireleg.py): "service time is the span between sending the request and receiving its response" on the REAL
    # EsClientFactory.create_async() client (aiohttp trace hooks) against a scripted loopback HTTP server, real time, judged by TLC
    wireleg.run_leg(ctx, out, PID)


def replay(ctx, case):
    if isinstance(case, dict) and case.get("kind") == "wire":
        return wireleg.replay(ctx, case, PID)
    return clientloop.replay(ctx, case, PID, PREFIX)
