"""C03 — bulk indexing ingests every corpus document exactly once across clients.

Leg M   : TLC on specs/BulkPartition: every file layout x client count x contiguous split into groups of co-located clients x
          bulk size x ingest percentage x tie-breaking of the offsets x EVERY order in which the co-located clients call
          params() (shared cursor), plus an id-conflict configuration (every fresh/conflicting id choice), plus the
          offset-table seek model; self-test: with wrap-around (non-contiguous) groups the model violates ExactCover.
Leg S2C : TLC -simulate behaviours (configuration + call order) are executed on the real code: REAL files are written
          (distinct JSON documents, multi-byte text, with / without action-and-meta-data lines), real offset tables are built
          by loader.DocumentSetPreparator.create_file_offset_table, a real Track / Task / BulkIndexParamSource per group is
          created through loader.operation_parameters, partition() is called per co-located client by the real
          driver.schedule_for (in a seeded registration order per group: as listed / reversed / rotated / shuffled; case field
          "reg") and params() through ScheduleHandle in the order of the TLC behaviour; every parameter dict is sent
          through the real runner.BulkIndex to a stand-in _bulk endpoint and the received bodies are lexed back into
          (file, document) ids.  Every state of the seek model becomes a real file + offset table for io.skip_lines.
          The groups of the "alloc" cases are what the REAL Allocator + calculate_worker_assignments put on one worker in
          one allocation column (over-committed parallel elements, several hosts).
          Tracks are LOADED by the real loader.TrackSpecificationReader from a track.json structure in which
          "includes-action-and-meta-data" is declared on document level, as corpus-level default, or on both (seeded per case);
          offset tables are prepared with the line count of the loaded document set. Every second big-file case starts from a
          HISTORY: tables built for an earlier revision of the files (same line count, other line lengths), files replaced by
          the current revision with a later mtime, then prepared again and read (ExactCover / SeekCorrect on the current files).
          Adapter cases: a parallel element with TWO bulk tasks (mostly referencing the SAME operation) is loaded by the real
          loader, allocated by the real Allocator / calculate_worker_assignments / ClientAllocations and every (worker, column)
          is run by the real AsyncIoAdapter.run -> schedule_for -> AsyncExecutor -> registered bulk runner (only the ES client
          factory is replaced); one trace per TASK (ExactCover per task). Every third case names its corpora in the operation's
          "corpora" parameter in another order than the track's and with one name twice.
Leg pct : function-like: for every group size of 1..200 (thorough 300) bulks x every ingest percentage 1..100 and ten dyadic
          fractional ones, a real parameter source shared by 1..3 co-located clients is drained and the number of bulks handed
          out is validated by TLC against ceil(b * p / 100) in integer arithmetic (clause PctStop).
Leg C2S : every recorded execution (also seeded random wider ones, files with > 50 000 lines so that
          prepare_file_offset_table / skip_lines / MmapSource take the table path, and bounds() on 10^9..10^12 documents)
          is validated by TLC against TraceBulkPartition.tla (L1 = clauses of the property on the recorded bulks,
          L2 = every params() call is the NextBulk step of the specification).
"""
import glob
import json
import os
import random
import re
import shutil
from fractions import Fraction

from .. import tlc, tracecheck
from ..core import Violation
from ..tlaparse import parse_dump, parse_simulation_file, to_json

MODULE = "BulkPartition"
TEXTS = ["", "é", "日本語", "𝄞 clef", "plain ascii", "ß→∑", "x"]
BIG_W = 64  # byte length pattern of big files: line i (1-based) has BIG_W + (i - 1) % 3 bytes
STRIDE = 50000  # literal in io.prepare_file_offset_table
_ID = re.compile(r"^\d{10}$")


def _quiet():
    import logging

    from esrally.utils import console

    console.QUIET = True
    logging.getLogger("esrally").setLevel(logging.ERROR)


# ---------------------------------------------------------------------------------------------------
# real files
# ---------------------------------------------------------------------------------------------------
class FileSet:
    """The document files of one configuration. files: [{corpus, docs, meta}] (f = 1-based position)."""

    def __init__(self, root, files, big=False, width=BIG_W, keep_tables=False):
        self.root = root
        self.files = files
        self.big = big
        self.width = width  # big files: line i (1-based) has width + (i - 1) % 3 bytes
        self.paths = []
        os.makedirs(root, exist_ok=True)
        for f, spec in enumerate(files, 1):
            p = os.path.join(root, "f%d.json" % f)
            self.paths.append(p)
            with open(p, "wb") as out:
                w = out.write
                lineno = 0
                for j in range(spec["docs"]):
                    if spec["meta"]:
                        lineno += 1
                        w(self._pad(self._meta(f, j), lineno))
                    lineno += 1
                    w(self._pad(self._doc(f, j), lineno))
            if os.path.exists(p + ".offset") and not keep_tables:
                os.remove(p + ".offset")

    @staticmethod
    def _doc(f, j):
        return ('{"f":%d,"d":%d,"t":"%s"}' % (f, j, TEXTS[(j + f) % len(TEXTS)])).encode("utf-8")

    @staticmethod
    def _meta(f, j):
        return ('{"index":{"_index":"idx%d","_id":"f%d-%d"}}' % (f, f, j)).encode("utf-8")

    def _pad(self, raw, lineno):
        if not self.big:
            return raw + b"\n"
        n = self.width + (lineno - 1) % 3 - 1 - len(raw)
        if n < 0:
            raise tlc.MachineryError("line too long for the big-file pattern")
        return raw + b" " * n + b"\n"

    def doc_bytes(self, f, j):
        spec = self.files[f - 1]
        lineno = 2 * j + 2 if spec["meta"] else j + 1
        return self._pad(self._doc(f, j), lineno)

    def meta_bytes(self, f, j):
        return self._pad(self._meta(f, j), 2 * j + 1)

    def lines(self, f):
        spec = self.files[f - 1]
        return spec["docs"] * (2 if spec["meta"] else 1)

    def pattern(self, f):
        """[pat, n] for seek items: byte length of line i is pat[(i - 1) % len(pat)]."""
        n = self.lines(f)
        if self.big:
            return [self.width, self.width + 1, self.width + 2], n
        with open(self.paths[f - 1], "rb") as fh:
            return [len(ln) for ln in fh], n


def lex_body(body, size, fs, conflict):
    """body bytes of one bulk -> {size, runs, unpaired, ids} (see BulkPartition.tla)."""
    unpaired = 0
    lines = body.split(b"\n")
    if lines and lines[-1] == b"":
        lines.pop()
    else:
        unpaired += 1  # last line not terminated
    toks = []
    for ln in lines:
        raw = ln + b"\n"
        try:
            o = json.loads(ln)
        except ValueError:
            toks.append(("J",))
            continue
        if not isinstance(o, dict):
            toks.append(("J",))
        elif len(o) == 1 and next(iter(o)) in ("index", "create", "update") and isinstance(next(iter(o.values())), dict):
            a = next(iter(o))
            toks.append(("A", a, o[a].get("_index"), o[a].get("_id"), raw))
        elif "f" in o and "d" in o:
            f, d = o["f"], o["d"]
            ok = isinstance(f, int) and isinstance(d, int) and 1 <= f <= len(fs.files) and 0 <= d < fs.files[f - 1]["docs"] and fs.doc_bytes(f, d).strip() == ln.strip()
            toks.append(("D", f, d) if ok else ("J",))
        elif list(o) == ["doc"] and isinstance(o["doc"], dict) and "f" in o["doc"] and "d" in o["doc"]:
            f, d = o["doc"]["f"], o["doc"]["d"]
            ok = isinstance(f, int) and isinstance(d, int) and 1 <= f <= len(fs.files) and 0 <= d < fs.files[f - 1]["docs"] and ln.strip() == b'{"doc":%s}' % fs.doc_bytes(f, d).strip()
            toks.append(("U", f, d) if ok else ("J",))
        else:
            toks.append(("J",))
    docs = []
    ids = []
    i = 0
    while i < len(toks):
        t = toks[i]
        if t[0] == "A" and i + 1 < len(toks) and toks[i + 1][0] in ("D", "U"):
            kind, f, d = toks[i + 1]
            _, action, index, did, raw = t
            if fs.files[f - 1]["meta"]:
                good = kind == "D" and raw.strip() == fs.meta_bytes(f, d).strip()
            elif conflict:
                good = index == "idx%d" % f and isinstance(did, str) and _ID.match(did) is not None and ((action == "index" and kind == "D") or (action == "update" and kind == "U"))
                if good:
                    ids.append({"id": int(did), "upd": action == "update"})
            else:
                good = index == "idx%d" % f and did is None and action == "index" and kind == "D"
            if not good:
                unpaired += 2
            docs.append((f, d))
            i += 2
        elif t[0] in ("D", "U"):
            unpaired += 1  # document without its action-and-meta-data line
            docs.append((t[1], t[2]))
            i += 1
        else:
            unpaired += 1  # action line without document, or junk
            i += 1
    runs = []
    for f, d in docs:
        if runs and runs[-1]["f"] == f and runs[-1]["hi"] + 1 == d:
            runs[-1]["hi"] = d
        else:
            runs.append({"f": f, "lo": d, "hi": d})
    if not isinstance(size, int) or isinstance(size, bool):
        size = -1
    return {"size": size, "runs": runs, "unpaired": unpaired, "ids": ids}


NO_BULK = {"size": 0, "runs": [], "unpaired": 0, "ids": []}


# ---------------------------------------------------------------------------------------------------
# real track objects and parameter sources
# ---------------------------------------------------------------------------------------------------
def _pct_value(num, den):
    p = Fraction(100 * num, den)
    if p.denominator == 1:
        return int(p)
    if p.denominator & (p.denominator - 1):
        raise tlc.MachineryError("ingest percentage %s is not exactly representable" % p)
    return float(p)


DECL_STYLES = ["doc", "corpus", "both"]


def track_spec(fs, cfg, pct_full=False, extra=None):
    """The track as a track.json structure. Where "includes-action-and-meta-data" is declared is varied per corpus
    (seeded by the case): on every document set ("doc"), as the corpus-level default with document-level entries only where a
    file deviates ("corpus"), or on both levels ("both"). All styles declare exactly what the files contain."""
    seed = (extra or {}).get("seed", 0)
    corpora = []
    for k in sorted({spec["corpus"] for spec in fs.files}):
        members = [(f, spec) for f, spec in enumerate(fs.files, 1) if spec["corpus"] == k]
        style = DECL_STYLES[(seed + k) % len(DECL_STYLES)]
        metas = [spec["meta"] for _f, spec in members]
        default = sum(metas) * 2 >= len(metas)  # corpus-level value: what most files of the corpus are
        c = {"name": "corpus%d" % k, "documents": []}
        if style != "doc" and (default or style == "both"):
            c["includes-action-and-meta-data"] = default
        effective_default = c.get("includes-action-and-meta-data", False)
        for f, spec in members:
            d = {"source-file": "f%d.json" % f, "document-count": spec["docs"]}
            if style == "both" or spec["meta"] != effective_default or (style == "doc" and spec["meta"]):
                d["includes-action-and-meta-data"] = spec["meta"]
            if not spec["meta"] or (seed + f) % 2 == 0:
                d["target-index"] = "idx%d" % f  # ignored by the loader for files that bring their own action lines
            c["documents"].append(d)
        corpora.append(c)
    p = {"operation-type": "bulk", "bulk-size": cfg["bulk"], "batch-size": cfg["bulk"] * cfg["mult"]}
    if not pct_full and cfg["num"] != cfg["den"]:
        p["ingest-percentage"] = _pct_value(cfg["num"], cfg["den"])
    if cfg["conflict"] != "none":
        p["conflicts"] = {"seq": "sequential", "rnd": "random"}[cfg["conflict"]]
        p["on-conflict"] = cfg["onc"]
        if extra and extra.get("prob") is not None:
            p["conflict-probability"] = extra["prob"]
        if extra and extra.get("recency"):
            p["recency"] = extra["recency"]
    names = [c["name"] for c in corpora]
    if seed % 3 == 1:
        # the operation names its corpora itself: in another order than the track's and with one name twice (legal; e.g. a list
        # assembled from track parameters) -- or, for a single corpus, as a plain string every other time
        p["corpora"] = names[0] if len(names) == 1 and seed % 2 == 0 else list(reversed(names)) + [names[(seed // 3) % len(names)]]
    return {
        "description": "c03",
        "indices": [{"name": "idx%d" % f, "auto-managed": False} for f in range(1, len(fs.files) + 1)],
        "corpora": corpora,
        "schedule": [{"name": "bulk-task", "operation": p, "clients": cfg["N"]}],
    }


def build_track(fs, cfg, pct_full=False, extra=None):
    """The track is LOADED by the real loader (TrackSpecificationReader) from the track.json structure; as
    loader.set_absolute_data_path does on the load generator, the document files then get their absolute paths."""
    from esrally.track import loader

    trk = loader.TrackSpecificationReader()("c03", track_spec(fs, cfg, pct_full, extra), fs.root)
    f = 0
    for corpus in trk.corpora:
        for d in corpus.documents:
            f += 1
            d.document_file = os.path.join(fs.root, d.document_file)
            if d.document_file != fs.paths[f - 1]:
                raise tlc.MachineryError("loaded corpora are not in declaration order")
    task = trk.challenges[0].schedule[0]
    return trk, task


_RUNNERS = [False]


def make_handles(trk, task, groups, allocations=None, reg=None):
    """One parameter source per group (what AsyncIoAdapter.run does per worker and task), partition() per co-located client
    through the real schedule_for, in the registration order reg[g] (a permutation of the group; default: as listed).
    Returns {client: ScheduleHandle}."""
    from esrally.driver import driver, runner
    from esrally.track import loader

    if not _RUNNERS[0]:
        runner.register_default_runners()
        _RUNNERS[0] = True
    handles = {}
    for gi, g in enumerate(groups):
        ps = loader.operation_parameters(trk, task)
        order = reg[gi] if reg else g
        if sorted(order) != sorted(g):
            raise tlc.MachineryError("registration order %r is not a permutation of the group %r" % (order, g))
        for c in order:
            ta = allocations[c] if allocations else driver.TaskAllocation(task, c, c, task.clients)
            handles[c] = driver.schedule_for(ta, ps)
    return handles


def real_offsets(fs, n):
    from esrally.track import params

    off = []
    for spec in fs.files:
        lpd = 2 if spec["meta"] else 1
        row = []
        for i in range(n):
            o, _d, _l = params.bounds(spec["docs"], i, i, n, spec["meta"])
            row.append(o // lpd)
        o, _d, ln = params.bounds(spec["docs"], n - 1, n - 1, n, spec["meta"])
        row.append((o + ln) // lpd)
        off.append(row)
    return off


class _BulkEndpoint:
    """Stands in for the Elasticsearch client of the real `bulk` runner: keeps the body that reaches the _bulk endpoint."""

    def __init__(self):
        self.body = None

    def return_raw_response(self):
        pass

    async def bulk(self, **kw):
        import io as pyio

        self.body = kw.get("body", kw.get("operations"))
        return pyio.BytesIO(b'{"took":1,"errors":false}')


_LOOP = [None]


def _call(handle):
    """One params() call the way AsyncExecutor does it, and the parameters sent through the real BulkIndex runner.
    Returns ('bulk', body received by the endpoint, weight reported by the runner) | ('stop', ..) | ('crash', text, None)."""
    import asyncio

    from esrally.driver import runner

    try:
        p = handle.params_with_operation_type()
    except StopIteration:
        return "stop", None, None
    except Exception as ex:  # pylint: disable=broad-except
        return "crash", "%s: %s" % (type(ex).__name__, ex), None
    if _LOOP[0] is None:
        _LOOP[0] = asyncio.new_event_loop()
    es = _BulkEndpoint()
    try:
        meta = _LOOP[0].run_until_complete(runner.BulkIndex()(es, p))
    except Exception as ex:  # pylint: disable=broad-except
        return "crash", "bulk runner: %s: %s" % (type(ex).__name__, ex), None
    if not isinstance(es.body, (bytes, bytearray)):
        raise tlc.MachineryError("the bulk runner did not hand a bytes body to es.bulk(): %r" % type(es.body))
    return "bulk", bytes(es.body), meta.get("weight")


def execute(case, root):
    """Runs one case on the real code and returns the trace item (kind "run")."""
    from esrally.track import loader

    _quiet()
    cfg = case["cfg"]
    groups = [list(g) for g in cfg["groups"]]
    prep = loader.DocumentSetPreparator("c03", None, None)
    if case.get("stale"):
        # history: offset tables were built for an EARLIER revision of the files (same line count, other line lengths);
        # the files are then replaced by the current revision with a later modification time
        old = FileSet(root, case["files"], big=True, width=BIG_W - 6)
        for f in range(1, len(old.files) + 1):
            prep.create_file_offset_table(old.paths[f - 1], old.lines(f))
        fs = FileSet(root, case["files"], big=True, keep_tables=True)
        now = int(os.path.getmtime(fs.paths[0]))
        for path in fs.paths:
            os.utime(path + ".offset", (now - 1000, now - 1000))
            os.utime(path, (now - 500, now - 500))
    else:
        fs = FileSet(root, case["files"], big=case.get("big", False))
    conflict = cfg["conflict"] != "none"
    item = {"id": case["id"], "kind": "run", "files": case["files"], "cfg": cfg, "off": real_offsets(fs, cfg["N"]), "crash": None}
    # preparation as the loader does it: the offset table is (re)built unless a valid one exists; the expected number of
    # lines is what the LOADED document set declares
    try:
        trk, _task = build_track(fs, cfg, pct_full=True, extra=case)
    except tlc.MachineryError:
        raise
    except Exception as ex:  # pylint: disable=broad-except
        item["crash"] = "loading the track: %s: %s" % (type(ex).__name__, ex)
        item["full"] = [[] for _ in groups]
        item["events"] = []
        item["fs"] = fs
        return item
    loaded = [d for c in trk.corpora for d in c.documents]
    for f in range(1, len(fs.files) + 1):
        try:
            prep.create_file_offset_table(fs.paths[f - 1], loaded[f - 1].number_of_lines)
        except Exception as ex:  # pylint: disable=broad-except
            # e.g. DataError "Expected [N] lines but got [2N]" for a correctly declared file; the run goes on without a table
            item["crash"] = "preparing %s: %s: %s" % (os.path.basename(fs.paths[f - 1]), type(ex).__name__, ex)
    allocs = case.get("_allocations")
    # reference run with ingest percentage 100: the bulks of every group
    random.seed(case["seed"])
    trk, task = build_track(fs, cfg, pct_full=True, extra=case)
    reg = case.get("reg")
    handles = make_handles(trk, task, groups, allocs(task) if allocs else None, reg)
    full = []
    cap = sum(s["docs"] for s in fs.files) + cfg["N"] + 8
    for g in groups:
        seq = []
        while len(seq) <= cap:
            kind, body, weight = _call(handles[g[0]])
            if kind != "bulk":
                if kind == "crash":
                    item["crash"] = body
                break
            seq.append(lex_body(body, weight, fs, conflict)["runs"])
        full.append(seq)
    item["full"] = full
    # the run itself
    random.seed(case["seed"] + 1)
    trk, task = build_track(fs, cfg, extra=case)
    handles = make_handles(trk, task, groups, allocs(task) if allocs else None, reg)
    gidx = {c: gi + 1 for gi, g in enumerate(groups) for c in g}
    stopped = set()
    events = []
    order = [tuple(x) for x in case["order"]]
    cap = sum(len(s) for s in full) + cfg["N"] + 8

    def call(c):
        kind, body, weight = _call(handles[c])
        if kind == "bulk":
            events.append({"g": gidx[c], "c": c, "stop": False, "b": lex_body(body, weight, fs, conflict)})
        elif kind == "stop":
            stopped.add(c)
            events.append({"g": gidx[c], "c": c, "stop": True, "b": NO_BULK})
        else:
            item["crash"] = body
            stopped.update(handles)

    for _g, c in order:
        if c in handles and c not in stopped and len(events) < cap:
            call(c)
    clients = sorted(handles)
    while len(stopped) < len(clients) and len(events) < cap:
        for c in clients:
            if c not in stopped and len(events) < cap:
                call(c)
    item["events"] = events
    item["fs"] = fs
    return item


# ---------------------------------------------------------------------------------------------------
# the parameter-source set-up of the real AsyncIoAdapter.run: a parallel element with TWO bulk tasks, loaded by the real loader,
# allocated by the real Allocator / calculate_worker_assignments / ClientAllocations and run by the real AsyncIoAdapter.run ->
# schedule_for -> AsyncExecutor -> registered bulk runner; only the ES client factory is replaced. One trace item per TASK.
# ---------------------------------------------------------------------------------------------------
class _ParamsSpy:
    """Stands between ScheduleHandle and the partitioned parameter source: records StopIteration and the reported bulk-size."""

    def __init__(self, inner, log, client_id):
        self._inner, self._log, self._client_id = inner, log, client_id
        self.last_size = None

    def params(self):
        try:
            p = self._inner.params()
        except StopIteration:
            self._log.append(("stop", self._client_id, None, None))
            raise
        self.last_size = p.get("bulk-size")
        return p

    def __getattr__(self, name):
        return getattr(self._inner, name)


def execute_adapter(case, root):
    """case: {files, tasks: [n1, n2], same_op, cap, hosts, bulk, seed}. Returns one "run" item per bulk task."""
    import asyncio
    import io as pyio
    import threading

    from esrally import client as es_client_mod
    from esrally.driver import driver, runner
    from esrally.track import loader

    from .. import clientloop

    _quiet()
    clientloop.ensure_rally_home()
    if not _RUNNERS[0]:
        runner.register_default_runners()
        _RUNNERS[0] = True
    fs = FileSet(root, case["files"])
    base_cfg = {"N": 1, "groups": [[0]], "bulk": case["bulk"], "mult": 1, "num": 1, "den": 1, "conflict": "none", "onc": "index"}
    spec = track_spec(fs, base_cfg, extra=case)
    op = spec["schedule"][0]["operation"]
    ops = [dict(op, name="bulk-op")] + ([] if case["same_op"] else [dict(op, name="bulk-op-2")])
    spec["operations"] = ops
    par = {"tasks": [{"name": "index-%d" % (j + 1), "operation": ops[0 if case["same_op"] else j]["name"], "clients": n} for j, n in enumerate(case["tasks"])]}
    if case["cap"]:
        par["clients"] = case["cap"]
    spec["schedule"] = [{"parallel": par}]
    items = [{"id": "%s-t%d" % (case["id"], j + 1), "kind": "run", "files": case["files"], "cfg": dict(base_cfg, N=n, groups=[]), "off": real_offsets(fs, n), "crash": None, "events": [], "full": []} for j, n in enumerate(case["tasks"])]
    try:
        trk = loader.TrackSpecificationReader()("c03", spec, fs.root)
        f = 0
        prep = loader.DocumentSetPreparator("c03", None, None)
        for corpus in trk.corpora:
            for d in corpus.documents:
                f += 1
                d.document_file = os.path.join(fs.root, d.document_file)
                prep.create_file_offset_table(d.document_file, d.number_of_lines)
        element = trk.challenges[0].schedule[0]
        tasks = list(element.tasks)
        allocator = driver.Allocator([element])
        matrix = allocator.allocations
        assignments = driver.calculate_worker_assignments(case["hosts"], allocator.clients)
    except tlc.MachineryError:
        raise
    except Exception as ex:  # pylint: disable=broad-except
        for it in items:
            it["crash"] = "loading / allocating: %s: %s" % (type(ex).__name__, ex)
        return items, fs
    log = []

    class _Ctx:
        request_start = 0.0
        request_end = 0.0

        def __enter__(self):
            return self

        def __exit__(self, *a):
            return False

    class _Es:
        def __init__(self, client_id):
            self.client_id = client_id

        def new_request_context(self):
            return _Ctx()

        def return_raw_response(self):
            pass

        async def bulk(self, **kw):
            spy = spies.get(self.client_id)
            log.append(("bulk", self.client_id, kw.get("body", kw.get("operations")), spy.last_size if spy else None))
            await asyncio.sleep(0)  # let the other clients of this worker run, as a real request would
            return pyio.BytesIO(b'{"took":1,"errors":false}')

        async def close(self):
            pass

    class _Factory:
        def __init__(self, *a, **k):
            pass

        def create_async(self, api_key=None, client_id=None):
            return _Es(client_id)

    spies = {}
    real_schedule_for = driver.schedule_for
    real_factory = es_client_mod.EsClientFactory
    where = {}  # client id -> (task index j, group number g, client index in task) during one run()
    es_client_mod.EsClientFactory = _Factory
    try:
        for h in assignments:
            for worker_clients in h["workers"]:
                if not worker_clients:
                    continue
                ca = driver.ClientAllocations()
                for cid in worker_clients:
                    ca.add(cid, matrix[cid])
                for col in range(len(matrix[0])):
                    if ca.is_joinpoint(col):
                        continue
                    tas = ca.tasks(col)
                    if not tas:
                        continue
                    where.clear()
                    spies.clear()
                    by_ta = {}
                    for a in tas:
                        j = [id(t) for t in tasks].index(id(a.task.task))
                        by_ta[id(a.task)] = a.client_id
                        where[a.client_id] = (j, a.task.client_index_in_task)
                    gno = {}
                    for j in sorted({jc[0] for jc in where.values()}):
                        items[j]["cfg"]["groups"].append([where[a.client_id][1] for a in tas if where[a.client_id][0] == j])
                        gno[j] = len(items[j]["cfg"]["groups"])
                        items[j]["full"].append([])

                    def spying_schedule_for(task_allocation, parameter_source, _by=by_ta):
                        handle = real_schedule_for(task_allocation, parameter_source)
                        cid = _by[id(task_allocation)]
                        spies[cid] = handle.params = _ParamsSpy(handle.params, log, cid)
                        return handle

                    del log[:]
                    driver.schedule_for = spying_schedule_for
                    ctxs = {a.client_id: driver.ClientContext(client_id=a.client_id, parent_worker_id=0) for a in tas}
                    adapter = driver.AsyncIoAdapter(clientloop._adapter_config(), trk, tas, driver.Sampler(start_timestamp=0), threading.Event(), threading.Event(), "abort", ctxs, 0)  # pylint: disable=protected-access
                    loop = asyncio.new_event_loop()
                    try:
                        loop.run_until_complete(adapter.run())
                    except Exception as ex:  # pylint: disable=broad-except
                        for j in gno:
                            items[j]["crash"] = "AsyncIoAdapter.run: %s: %s" % (type(ex).__name__, ex)
                    finally:
                        loop.close()
                        driver.schedule_for = real_schedule_for
                    for kind, cid, body, size in log:
                        j, c = where[cid]
                        if kind == "stop":
                            items[j]["events"].append({"g": gno[j], "c": c, "stop": True, "b": NO_BULK})
                        else:
                            if not isinstance(body, (bytes, bytearray)):
                                raise tlc.MachineryError("the bulk runner did not hand a bytes body to es.bulk()")
                            b = lex_body(bytes(body), size, fs, False)
                            items[j]["events"].append({"g": gno[j], "c": c, "stop": False, "b": b})
                            items[j]["full"][gno[j] - 1].append(b["runs"])
    finally:
        es_client_mod.EsClientFactory = real_factory
        driver.schedule_for = real_schedule_for
    return items, fs


def adapter_cases(seed, n):
    rnd = random.Random(seed)
    cases = []
    for k in range(n):
        n1, n2 = rnd.choice([(2, 2), (1, 1), (2, 2), (3, 3), (1, 2), (2, 3), (3, 1)])
        same = k % 4 != 3  # mostly: both tasks reference the SAME operation (as index-1 / index-2 in real tracks)
        files = [{"corpus": 1, "docs": rnd.choice([5, 8, 11, 17]), "meta": rnd.random() < 0.3}]
        if rnd.random() < 0.5:
            files.append({"corpus": rnd.choice([1, 2]), "docs": rnd.choice([3, 6, 9]), "meta": rnd.random() < 0.3})
        cases.append(
            {
                "src": "real-adapter",
                "files": files,
                "tasks": [n1, n2],
                "same_op": same,
                "cap": rnd.choice([0, 0, 0, max(n1, n2)]),
                "hosts": [{"host": "h%d" % i, "cores": rnd.choice([1, 1, 2])} for i in range(rnd.choice([1, 1, 2]))],
                "bulk": rnd.randint(1, 3),
                "seed": seed * 1000 + k,
            }
        )
    return cases


def run_adapter_cases(cases, out, label, root, pending):
    n_items = 0
    for ci, case in enumerate(cases):
        case = dict(case, id="%s-%d" % (label, ci), kind="adapter")
        items, _fs = execute_adapter(case, os.path.join(root, "case"))
        for it in items:
            if it["crash"]:
                out.violations.append(Violation("ExactCover", _public(case), signature=dict(_signature("adapter", ["ExactCover"], case), crash=True), detail="task %s: the real code raised %s" % (it["id"], it["crash"])))
            if not it["cfg"]["groups"] or it["crash"] and not it["events"]:
                continue  # nothing ran: the crash above is the verdict (an empty split is not a trace)
            pending[0].append(it)
            pending[1][it["id"]] = case
            n_items += 1
        out.add_case(_public(case), nontrivial=True)
    shutil.rmtree(os.path.join(root, "case"), ignore_errors=True)
    return n_items


# ---------------------------------------------------------------------------------------------------
# seek and bounds observations
# ---------------------------------------------------------------------------------------------------
def _position_after_skip(path, n):
    from esrally.utils import io

    size = os.path.getsize(path)
    src = io.MmapSource(path, "rt").open()
    try:
        io.skip_lines(path, src, n)
        return size - len(src.read())
    except ValueError:
        return -1  # the real code raised (seek out of range): no position at all
    finally:
        src.close()


def read_table(path):
    t = []
    if os.path.exists(path + ".offset"):
        with open(path + ".offset", "rt", encoding="utf-8") as f:
            for ln in f:
                a, b = ln.strip().split(";")
                t.append({"line": int(a), "off": int(b)})
    return t


def seek_items(path, pat, n, K, targets, prefix):
    """fast = with the offset table that is on disk, slow = without any table (skipping lines one by one)."""
    table = read_table(path)
    fast = {l: _position_after_skip(path, l) for l in targets}
    os.rename(path + ".offset", path + ".offset.away")
    try:
        slow = {l: _position_after_skip(path, l) for l in targets}
    finally:
        os.rename(path + ".offset.away", path + ".offset")
    return [{"id": "%s-%d" % (prefix, l), "kind": "seek", "pat": pat, "n": n, "K": K, "l": l, "table": table, "fast": fast[l], "slow": slow[l]} for l in targets]


_SEEK_LINES = {1: "a\n", 2: "é\n", 3: "日\n", 4: "𝄞\n"}  # unit -> a line of unit + 1 bytes


def seek_small_items(root, states):
    """Every state of the seek model: a real file whose lines have the model's lengths, the model's table on disk."""
    os.makedirs(root, exist_ok=True)
    by_file = {}
    for s in states:
        if s["n"] >= 1:
            by_file.setdefault((tuple(s["pat"]), s["n"]), {}).setdefault(s["K"], []).append(s["l"])
    items = []
    for fi, ((pat, n), ks) in enumerate(sorted(by_file.items())):
        path = os.path.join(root, "s%d.txt" % fi)
        lens = []
        with open(path, "wb") as f:
            for i in range(n):
                b = _SEEK_LINES[pat[i % len(pat)]].encode("utf-8")
                lens.append(len(b))
                f.write(b)
        bpat = [len(_SEEK_LINES[u].encode("utf-8")) for u in pat]
        for K, targets in sorted(ks.items()):
            with open(path + ".offset", "wt", encoding="utf-8") as f:
                for j in range(1, n // K + 1):
                    f.write("%d;%d\n" % (K * j, sum(lens[: K * j])))
            items += seek_items(path, bpat, n, K, sorted(set(targets)), "seekm-%d-%d" % (fi, K))
        os.remove(path + ".offset")
        os.remove(path)
    return items


BASE = 10**6


def _limbs(x):
    if x < 0:
        return {"h": -1, "l": 0}
    return {"h": x // BASE, "l": x % BASE}


def bounds_item(tid, total, n, meta, ranges):
    from esrally.track import params

    per = []
    for i in range(n):
        o, d, ln = params.bounds(total, i, i, n, meta)
        per.append({"s": _limbs(o), "n": _limbs(d), "ln": _limbs(ln)})
    grp = []
    for a, b in ranges:
        o, d, ln = params.bounds(total, a, b, n, meta)
        grp.append({"a": a, "b": b, "s": _limbs(o), "n": _limbs(d), "ln": _limbs(ln)})
    return {"id": tid, "kind": "bnd", "N": n, "lpd": 2 if meta else 1, "total": _limbs(total), "per": per, "grp": grp, "small": 2 * total < BASE and total * n * 4 < 2**31, "case": {"total": str(total), "N": n, "meta": meta, "ranges": ranges}}


def bounds_items(seed, count, prefix):
    rnd = random.Random(seed)
    items = []
    fixed = [(10**12, 7), (10**12, 64), (10**9, 3), (999999999999, 13), (10**12 - 1, 2), (123456789012, 48), (2**31, 5), (7, 4), (1, 4), (5, 2)]
    for k in range(count):
        if k < len(fixed):
            total, n = fixed[k]
        else:
            r = rnd.random()
            total = rnd.randint(10**9, 10**12) if r < 0.6 else rnd.randint(0, 3000) if r < 0.8 else rnd.randint(10**5, 10**9)
            n = rnd.choice([1, 2, 3, 4, 5, 6, 7, 8, 12, 14, 16, 24, 31, 32, 48, 64])
        meta = rnd.random() < 0.4
        ranges = []
        for _ in range(3):
            a = rnd.randrange(n)
            ranges.append([a, rnd.randrange(a, n)])
        items.append(bounds_item("%s-%d" % (prefix, k), total, n, meta, ranges))
    return items


# ---------------------------------------------------------------------------------------------------
# function-like leg: (number of bulks of a group) x (ingest percentage) -> bulks handed out before StopIteration
# ---------------------------------------------------------------------------------------------------
# percentages as exact rationals num / den per cent: every integer 1..100 and dyadic fractions (exactly representable floats,
# so that "ceil(p %)" of the statement is unambiguous)
PCT_SWEEP = [(p, 1) for p in range(1, 101)] + [(1, 2), (5, 2), (25, 4), (25, 2), (75, 2), (125, 2), (175, 2), (199, 2), (1, 4), (399, 4)]


def _drain_count(trk, task, n, cap):
    """A fresh real parameter source shared by the n co-located clients, which pull bulks in turn until every one of them
    got StopIteration. Returns the number of bulks handed out (cap + 1 = did not stop)."""
    handles = make_handles(trk, task, [list(range(n))])
    live = list(range(n))
    got = 0
    while live and got <= cap:
        for c in list(live):
            try:
                handles[c].params_with_operation_type()
                got += 1
            except StopIteration:
                live.remove(c)
    return got


def pct_item(root, b, pcts=None):
    """A group of 1 + b % 3 co-located clients (all clients of the task) over a real file of b documents, bulk size 1:
    b bulks at 100 %. One row per ingest percentage."""
    from esrally.track import track

    _quiet()
    os.makedirs(root, exist_ok=True)
    path = os.path.join(root, "p%d.json" % b)
    if not os.path.exists(path):
        with open(path, "wb") as f:
            for j in range(b):
                f.write(b'{"f":1,"d":%d}\n' % j)
    n = 1 + b % 3
    docs = track.Documents(source_format=track.Documents.SOURCE_FORMAT_BULK, document_file=path, number_of_documents=b, target_index="idx1")
    corpora = [track.DocumentCorpus("corpus1", [docs])]

    def count(pct):
        prm = {"bulk-size": 1}
        if pct is not None:
            prm["ingest-percentage"] = pct
        task = track.Task("bulk-task", track.Operation("bulk-op", track.OperationType.Bulk.to_hyphenated_string(), params=prm), clients=n)
        trk = track.Track(name="c03", corpora=corpora, challenges=[track.Challenge("c", default=True, schedule=[task])])
        return _drain_count(trk, task, n, b + 2)

    rows = []
    for num, den in pcts or PCT_SWEEP:
        fr = Fraction(num, den)
        val = int(fr) if fr.denominator == 1 else float(fr)
        if Fraction(val) != fr:
            raise tlc.MachineryError("percentage %s is not exactly representable" % fr)
        rows.append({"num": num, "den": den, "got": count(val)})
    return {"id": "pct-%d" % b, "kind": "pct", "b": count(None), "rows": rows, "case": {"kind": "pct", "src": "pct-sweep", "docs": b, "clients": n, "pcts": [[r["num"], r["den"]] for r in rows]}}


def _pct_detail(it):
    """Human-readable first mismatch (the verdict itself is TLC's)."""
    for r in it["rows"]:
        exact = -((-it["b"] * r["num"]) // (100 * r["den"]))
        if r["got"] != exact:
            return "group with %d bulks, ingest-percentage %s: %d bulks handed out, ceil = %d" % (it["b"], Fraction(r["num"], r["den"]), r["got"], exact)
    return ""


# ---------------------------------------------------------------------------------------------------
# case sources
# ---------------------------------------------------------------------------------------------------
def _cfg_from_state(st):
    c = st["cfg"]
    return {
        "N": c["N"],
        "groups": [sorted(g) for g in c["groups"]],
        "bulk": c["bulk"],
        "mult": c["mult"],
        "num": c["num"],
        "den": c["den"],
        "conflict": str(c["conflict"]),
        "onc": str(c["onc"]),
    }


def behaviours_from_tlc(ctx, out, num):
    wd = tlc.prepare_workdir(MODULE, "c03sim")
    simdir = os.path.join(wd, "sim")
    os.makedirs(simdir)
    res = tlc.run_tlc(wd, "MC_BulkPartition", "BulkPartition.sim.cfg", workers=1, simulate={"num": num, "file": os.path.join(simdir, "b")}, depth=90, seed=ctx.seed + 3, timeout=900)
    if not res.ok:
        raise tlc.MachineryError("simulation reported a model violation: %s" % res.out[-2000:])
    out.add_tlc(res)
    rnd = random.Random(ctx.seed + 31)
    cases = []
    seen_actions = set()
    for fn in sorted(glob.glob(os.path.join(simdir, "b_*"))):
        states = parse_simulation_file(fn)
        conf = None
        order = []
        for st in states:
            name = st["act"]["name"]
            seen_actions.add(str(name))
            if name == "Configure":
                conf = st
            elif name in ("Bulk", "Stop"):
                order.append([st["act"]["g"], st["act"]["c"]])
        if conf is None:
            continue
        cfg = _cfg_from_state(conf)
        case = {
            "src": "tlc-simulate",
            "files": [{"corpus": f["corpus"], "docs": f["docs"], "meta": bool(f["meta"])} for f in conf["files"]],
            "cfg": cfg,
            "order": order,
            "seed": ctx.seed + len(cases),
        }
        if cfg["conflict"] != "none":
            case["prob"] = rnd.choice([None, 50, 100, 10, 75])
            case["recency"] = rnd.choice([0, 0, 0.5])
        cases.append(case)
    missing = {"AddFile", "Configure", "Bulk", "Stop"} - seen_actions
    if missing:
        out.vacuous.extend(sorted(missing))
    return cases


def _contiguous_split(rnd, n, max_groups):
    k = rnd.randint(1, min(max_groups, n))
    cuts = sorted(rnd.sample(range(1, n), k - 1))
    b = [0] + cuts + [n]
    return [list(range(b[i], b[i + 1])) for i in range(k)]


PCTS = [(1, 1), (1, 1), (1, 1), (1, 2), (1, 4), (1, 8), (3, 4), (1, 5), (1, 100), (99, 100), (1, 16), (37, 100)]


def random_cases(seed, n):
    rnd = random.Random(seed)
    cases = []
    for k in range(n):
        nf = rnd.randint(1, 4)
        files = []
        corpus = 1
        conflict = rnd.choice(["none", "none", "none", "seq", "rnd"])
        for i in range(nf):
            if i and rnd.random() < 0.5:
                corpus += 1
            files.append({"corpus": corpus, "docs": rnd.choice([1, 2, 3, 5, 8, 13, 21, 29, 34, 50, 60]), "meta": conflict == "none" and rnd.random() < 0.4})
        N = rnd.choice([1, 2, 3, 4, 5, 6, 7, 8, 10, 12, 14, 16])
        total = sum(f["docs"] for f in files)
        bulk = rnd.randint(max(1, total // 40), max(2, total // 6))
        num, den = rnd.choice(PCTS) if rnd.random() < 0.6 else (rnd.randint(1, 99), 100)
        groups = _contiguous_split(rnd, N, 5)
        cfg = {"N": N, "groups": groups, "bulk": bulk, "mult": rnd.choice([1, 1, 2, 3, 5]), "num": num, "den": den, "conflict": conflict, "onc": rnd.choice(["index", "update"]) if conflict != "none" else "index"}
        order = []
        for _ in range(rnd.randint(0, 120)):
            g = rnd.randrange(len(groups))
            order.append([g + 1, rnd.choice(groups[g])])
        case = {"src": "random", "files": files, "cfg": cfg, "order": order, "seed": seed * 1000 + k}
        if conflict != "none":
            case["prob"] = rnd.choice([None, 50, 100, 10, 0, 75])
            case["recency"] = rnd.choice([0, 0, 0.3, 0.9])
        cases.append(case)
    return cases


def alloc_cases(seed, n):
    """Schedules with the bulk task inside (over-committed) parallel elements; the groups are what the REAL Allocator and
    calculate_worker_assignments put on one worker in one allocation column."""
    rnd = random.Random(seed)
    cases = []
    for k in range(n):
        N = rnd.randint(1, 8)
        pre = rnd.choice([0, 0, 1, 2, 3, 6])
        post = rnd.choice([0, 0, 1, 4])
        total = pre + N + post
        cap = rnd.choice([0, 0, rnd.randint(1, max(1, total)), rnd.randint(1, max(1, N))])
        lead = rnd.choice([0, 0, 3, 9])  # an earlier element that widens the matrix
        hosts = [{"host": "h%d" % i, "cores": rnd.randint(1, 4)} for i in range(rnd.randint(1, 3))]
        files = [{"corpus": 1, "docs": rnd.choice([3, 7, 8, 11, 16]), "meta": rnd.random() < 0.3}]
        if rnd.random() < 0.5:
            files.append({"corpus": rnd.choice([1, 2]), "docs": rnd.choice([1, 5, 9]), "meta": rnd.random() < 0.3})
        num, den = rnd.choice([(1, 1), (1, 1), (1, 2), (1, 4)])
        cases.append(
            {
                "src": "real-allocator",
                "files": files,
                "sched": {"pre": pre, "N": N, "post": post, "cap": cap, "lead": lead, "hosts": hosts},
                "cfg": {"N": N, "groups": None, "bulk": rnd.randint(1, 4), "mult": rnd.choice([1, 2]), "num": num, "den": den, "conflict": "none", "onc": "index"},
                "order": [],
                "shuffle": rnd.randrange(10**6),
                "seed": seed * 1000 + k,
            }
        )
    return cases


def alloc_enumeration(quick):
    """Every schedule shape within the bounds through the real Allocator + calculate_worker_assignments: the distinct splits
    of the bulk task's clients into (worker, column) groups, each with one schedule that produces it."""
    splits = {}
    n = 0
    maxn = 6 if quick else 8
    host_sets = [[{"host": "h", "cores": k}] for k in (1, 2, 3)] + [[{"host": "a", "cores": 2}, {"host": "b", "cores": 2}]]
    if not quick:
        host_sets += [[{"host": "h", "cores": 5}], [{"host": "a", "cores": 1}, {"host": "b", "cores": 3}, {"host": "c", "cores": 2}]]
    for N in range(1, maxn + 1):
        for pre in (0, 1, 2, 3, 5) if quick else (0, 1, 2, 3, 5, 6, 8):
            for post in (0, 1, 3):
                total = pre + N + post
                for cap in range(0, total + 1):
                    for lead in (0, 4):
                        for hosts in host_sets:
                            case = {"sched": {"pre": pre, "N": N, "post": post, "cap": cap, "lead": lead, "hosts": hosts}, "cfg": {"N": N}, "shuffle": n}
                            resolve_alloc_case(case)
                            n += 1
                            splits.setdefault((N, tuple(tuple(g) for g in case["cfg"]["groups"])), case["sched"])
    return n, splits


def enumerated_alloc_cases(splits, seed):
    rnd = random.Random(seed)
    cases = []
    for k, ((N, _groups), sched) in enumerate(sorted(splits.items(), key=lambda kv: repr(kv[0]))):
        files = [{"corpus": 1, "docs": rnd.choice([5, 7, 9, 12]), "meta": rnd.random() < 0.3}, {"corpus": rnd.choice([1, 2]), "docs": rnd.choice([1, 3, 6]), "meta": rnd.random() < 0.3}]
        cases.append(
            {
                "src": "real-allocator",
                "files": files,
                "sched": sched,
                "cfg": {"N": N, "groups": None, "bulk": rnd.randint(1, 3), "mult": rnd.choice([1, 2]), "num": 1, "den": rnd.choice([1, 1, 1, 2]), "conflict": "none", "onc": "index"},
                "order": [],
                "shuffle": rnd.randrange(10**6),
                "seed": seed * 1000 + k,
            }
        )
    return cases


def resolve_alloc_case(case):
    """Fills cfg.groups / order from the real Allocator and calculate_worker_assignments; installs a factory for the real
    TaskAllocation objects (rebuilt per task object because Allocator needs the very task)."""
    from esrally.driver import driver
    from esrally.track import track

    s = case["sched"]

    def matrix(task):
        def other(name, clients):
            return track.Task(name, track.Operation("op-" + name, "sleep", params={"duration": 0}), clients=clients)

        leaves = ([other("pre", s["pre"])] if s["pre"] else []) + [task] + ([other("post", s["post"])] if s["post"] else [])
        sched = ([other("lead", s["lead"])] if s["lead"] else []) + [track.Parallel(leaves, clients=s["cap"] or None)]
        alloc = driver.Allocator(sched)
        return alloc.allocations, driver.calculate_worker_assignments(s["hosts"], alloc.clients)

    def cells(task):
        m, assignments = matrix(task)
        out = []  # [(worker clients, column, [TaskAllocation of the bulk task])]
        for h in assignments:
            for w in h["workers"]:
                for col in range(len(m[0])):
                    tas = [m[c][col] for c in w if isinstance(m[c][col], driver.TaskAllocation) and m[c][col].task is task]
                    if tas:
                        out.append(tas)
        return out

    probe = track.Task("bulk-task", track.Operation("bulk-op", "bulk", params={}), clients=s["N"])
    groups = [[ta.client_index_in_task for ta in tas] for tas in cells(probe)]
    case["cfg"]["groups"] = groups
    rnd = random.Random(case["shuffle"])
    order = [[gi + 1, c] for gi, g in enumerate(groups) for c in g for _ in range(rnd.randint(0, 6))]
    rnd.shuffle(order)
    case["order"] = order
    case["_allocations"] = lambda task: {ta.client_index_in_task: ta for tas in cells(task) for ta in tas}
    return case


BIG_CASES = [
    # offsets of 3 clients fall exactly on the table entries (lines 50000, 100000), of 4 clients between them
    {"files": [{"corpus": 1, "docs": 150000, "meta": False}, {"corpus": 1, "docs": 75000, "meta": True}], "N": 3, "groups": [[0], [1], [2]], "bulk": 10000, "num": 1, "den": 1},
    {"files": [{"corpus": 1, "docs": 150000, "meta": False}, {"corpus": 1, "docs": 75000, "meta": True}], "N": 4, "groups": [[0, 1], [2], [3]], "bulk": 9000, "num": 1, "den": 2},
]
BIG_CASES_THOROUGH = [
    {"files": [{"corpus": 1, "docs": 250001, "meta": False}, {"corpus": 2, "docs": 60007, "meta": True}], "N": 7, "groups": [[0, 1, 2], [3], [4, 5, 6]], "bulk": 5000, "num": 1, "den": 1},
    {"files": [{"corpus": 1, "docs": 50000, "meta": False}, {"corpus": 1, "docs": 50001, "meta": False}, {"corpus": 2, "docs": 49999, "meta": False}], "N": 2, "groups": [[0], [1]], "bulk": 7777, "num": 1, "den": 1},
    {"files": [{"corpus": 1, "docs": 100000, "meta": True}], "N": 5, "groups": [[0, 1], [2, 3, 4]], "bulk": 10000, "num": 3, "den": 4},
    {"files": [{"corpus": 1, "docs": 200000, "meta": False}], "N": 16, "groups": [[0, 1, 2, 3], [4, 5, 6, 7, 8, 9], [10], [11, 12, 13, 14, 15]], "bulk": 4000, "num": 1, "den": 1},
]


def big_case(spec, k, seed):
    rnd = random.Random(seed + k)
    order = [[gi + 1, rnd.choice(g)] for gi, g in enumerate(spec["groups"]) for _ in range(12)]
    rnd.shuffle(order)
    return {
        "src": "big-files",
        "big": True,
        "stale": k % 2 == 1,
        "files": spec["files"],
        "cfg": {"N": spec["N"], "groups": spec["groups"], "bulk": spec["bulk"], "mult": 1 + k % 2, "num": spec["num"], "den": spec["den"], "conflict": "none", "onc": "index"},
        "order": order,
        "seed": seed + k,
    }


# ---------------------------------------------------------------------------------------------------
# running and judging
# ---------------------------------------------------------------------------------------------------
def _noncontiguous(groups):
    return any(sorted(g) != list(range(min(g), min(g) + len(g))) for g in groups if g)


def registration_order(groups, seed):
    """The order in which the co-located clients of every group register with the shared parameter source (partition()):
    as listed, reversed, rotated or shuffled (seeded per case). Which client of a worker is set up first is not part of the
    configuration the property quantifies over, so every order is a legal execution of the same split."""
    rnd = random.Random(seed * 7 + 3)
    reg = []
    for g in groups:
        g = list(g)
        mode = rnd.randrange(4)
        if mode == 1:
            g.reverse()
        elif mode == 2:
            k = rnd.randrange(len(g))
            g = g[k:] + g[:k]
        elif mode == 3:
            rnd.shuffle(g)
        reg.append(g)
    return reg


def _public(case):
    return {k: v for k, v in case.items() if not k.startswith("_") and k != "id"}


def _signature(kind, clauses, case):
    sig = {"kind": kind, "clauses": sorted(clauses), "src": case.get("src", "")}
    if kind == "run":
        sig["noncontiguous_group"] = _noncontiguous(case["cfg"]["groups"])
    return sig


def judge(items, index, out, name, chunk=400):
    """TLC validates the items; L1 -> violations, L2 -> drift."""
    strip = [{k: v for k, v in it.items() if k not in ("fs", "crash", "case")} for it in items]
    verdicts = tracecheck.validate(MODULE, "TraceBulkPartition", "TraceBulkPartition.cfg", strip, name=name, chunk=chunk, timeout=1200)
    out.states += verdicts.n_events
    out.transitions += verdicts.n_events
    out.traces_validated += verdicts.accepted(len(items))
    for tid, fails in verdicts.l1.items():
        case = index[tid]
        clauses = sorted({c for _, cl in fails for c in cl})
        kind = case.get("_sigkind", case.get("kind", "run"))
        out.violations.append(Violation(",".join(clauses), _public(case), signature=_signature(kind, clauses, case), detail="item %s first failing step %d" % (tid, fails[0][0])))
    for tid, lines in verdicts.l2.items():
        if tid not in verdicts.l1:
            out.drift.append("item %s: step %d is not the step of BulkPartition.tla" % (tid, lines[0]))
    return verdicts


def run_cases(cases, out, label, root, pending=None):
    items = []
    index = {}
    for ci, case in enumerate(cases):
        case = dict(case)
        case["id"] = "%s-%d" % (label, ci)
        case["kind"] = "run"
        if case.get("src") == "real-allocator" and "_allocations" not in case:
            resolve_alloc_case(case)
        if "reg" not in case:
            # real-allocator cases too: the real TaskAllocation objects are registered in another order than the worker's
            case["reg"] = registration_order(case["cfg"]["groups"], case["seed"])
        it = execute(case, os.path.join(root, "case"))
        index[case["id"]] = case
        fs = it.pop("fs")
        if it["crash"]:
            out.violations.append(Violation("ExactCover", _public(case), signature=dict(_signature("run", ["ExactCover"], case), crash=True), detail="the real code raised %s" % it["crash"]))
        items.append(it)
        if case.get("big") and all(os.path.exists(pth + ".offset") for pth in fs.paths):
            # the same real files / real offset tables: seek with and without the table
            for f in range(1, len(fs.files) + 1):
                pat, n = fs.pattern(f)
                targets = sorted({t for t in (0, 1, 2, STRIDE - 1, STRIDE, STRIDE + 1, 2 * STRIDE - 1, 2 * STRIDE, 2 * STRIDE + 1, n - 1, n, n // 2) + tuple(o * (2 if fs.files[f - 1]["meta"] else 1) for o in it["off"][f - 1]) if 0 <= t <= n})
                for s in seek_items(fs.paths[f - 1], pat, n, STRIDE, targets, "%s-f%d" % (case["id"], f)):
                    index[s["id"]] = dict(case, _sigkind="seek")  # replayed through the run case that owns the files
                    items.append(s)
        nb = sum(1 for e in it["events"] if not e["stop"])
        out.add_case({k: v for k, v in _public(case).items() if k not in ("seed", "shuffle")}, nontrivial=nb >= 2)
    shutil.rmtree(os.path.join(root, "case"), ignore_errors=True)
    if pending is None:
        judge(items, index, out, "c03" + label)
    else:  # judged together with the other legs (one TLC start instead of four)
        pending[0].extend(items)
        pending[1].update(index)
    return items


def run(ctx, out):
    out.rule = (
        "case = (document files [corpus, docs, with/without action-and-meta-data lines], client count, split of the clients into groups that "
        "share one parameter source, bulk size, batch multiplier, ingest percentage, conflict mode, order in which the co-located clients register (partition()), order of params() calls); distinct by "
        "hash; non-trivial = at least 2 bulks handed out. Sources: TLC -simulate behaviours (S2C), splits computed by the real Allocator + "
        "calculate_worker_assignments, files with > 50 000 lines, seeded random wider cases (C2S only); plus one seek case per state of "
        "the seek model, bounds() chains on up to 10^12 documents, and one case per group size (1..200/300 bulks) with a row per ingest percentage."
    )
    out.assumptions = [
        "a group = the in-task client ids of ONE task that one worker holds in ONE allocation column (they share a parameter source); the real "
        "Allocator and calculate_worker_assignments only produce contiguous ranges (re-derived from the real code in every run), for which the "
        "min..max span of _init_internal_params is exact; a non-contiguous set would duplicate documents (model self-test BulkPartition.wrap.cfg)",
        "ingest percentages are integers or dyadic fractions so that ceil(all_bulks * p / 100) is exact in floating point",
        "offsets at exact .5 ties may be either neighbour (the model does not reproduce float rounding); L2 uses the offsets returned by the real bounds()",
        "10^9..10^12-document totals are checked at bounds() level only (chain property on [h, l] limbs, TLC integers are 32 bit)",
        "the batch size has no observable effect on the sequence of bulks (the model ignores it, the real code is run with multipliers 1..5)",
        "lexing of bulk bodies (JSON lines -> action / document tokens, byte-exact comparison with the written file) is trusted harness code",
    ]
    quick = ctx.quick
    # ---- Leg M
    legs = [("BulkPartition.quick.cfg" if quick else "BulkPartition.thorough.cfg", 1500), ("BulkPartition.conflict.cfg", 600), ("BulkPartition.seek.cfg", 300)]
    if not quick:
        legs.insert(1, ("BulkPartition.thorough3.cfg", 1500))
    seek_dump = None
    for cfg, to in legs:
        wd = tlc.prepare_workdir(MODULE, "c03mc")
        dump = os.path.join(wd, "states") if cfg.endswith("seek.cfg") else None
        res = tlc.run_tlc(wd, "MC_BulkPartition", cfg, timeout=to, allow_violation=True, dump=dump)
        out.add_tlc(res)
        if not res.ok:
            raise tlc.MachineryError("model violates %s in %s (model and code are supposed to agree on the unchanged tree): %s" % (res.invariant_violated or res.property_violated, cfg, res.out[-1500:]))
        out.note("leg M %s: %d distinct states, depth %d, %.1fs" % (cfg, res.distinct, res.depth, res.wall_s))
        if dump:
            seek_dump = dump + ".dump" if os.path.exists(dump + ".dump") else dump
    wd = tlc.prepare_workdir(MODULE, "c03wrap")
    res = tlc.run_tlc(wd, "MC_BulkPartition", "BulkPartition.wrap.cfg", timeout=300, allow_violation=True)
    if res.invariant_violated != "ExactCover":
        raise tlc.MachineryError("self-test failed: the model with wrap-around groups does not violate ExactCover")
    out.extra["model_selftest"] = "with non-contiguous (wrap-around) groups the min..max span of the model violates ExactCover, as expected; such groups do not occur (see assumptions)"
    root = tlc.scratch("c03files")
    # ---- Leg S2C: seek model states on real files
    states = [to_json(st["sk"]) for st in parse_dump(seek_dump)]
    sitems = seek_small_items(os.path.join(root, "seek"), states)
    sindex = {s["id"]: {"kind": "seek", "src": "tlc-seek-model", "pat": s["pat"], "n": s["n"], "K": s["K"], "l": s["l"]} for s in sitems}
    for s in sitems:
        out.add_case(("seek", s["pat"], s["n"], s["K"], s["l"]), nontrivial=bool(s["table"]) and s["l"] > 0)
    bitems = bounds_items(ctx.seed, 60 if quick else 600, "bnd")
    bindex = {b["id"]: dict(b["case"], kind="bnd", src="bounds") for b in bitems}
    for b in bitems:
        out.add_case(("bnd", b["case"]), nontrivial=b["N"] > 1)
    out.note("leg S2C/C2S: %d seek cases from the seek model, %d bounds() chains validated" % (len(sitems), len(bitems)))
    out.sample({"source": "bounds", "case": bitems[0]["case"], "per_client": bitems[0]["per"][:3]})
    # ---- function-like leg: every (bulks of a group 1..200/300) x (ingest percentage) pair on real parameter sources
    pitems = [pct_item(os.path.join(root, "pct"), b) for b in range(1, (200 if quick else 300) + 1)]
    pindex = {it["id"]: it["case"] for it in pitems}
    for it in pitems:
        out.add_case(("pct", it["case"]["docs"], it["case"]["clients"]), nontrivial=it["b"] > 1)
    n_before = len(out.violations)
    judge(sitems + bitems + pitems, dict(sindex, **bindex, **pindex), out, "c03func", chunk=6000)
    byid = {it["id"]: it for it in pitems}
    for v in out.violations[n_before:]:
        if v.case.get("kind") == "pct":
            v.detail += "; " + _pct_detail(byid["pct-%d" % v.case["docs"]])
    out.extra["pct_sweep"] = {"groups": len(pitems), "percentages": len(PCT_SWEEP), "pairs": len(pitems) * len(PCT_SWEEP)}
    out.note("leg pct: %d (bulks, ingest-percentage) pairs drained from real parameter sources and validated against the exact ceil" % (len(pitems) * len(PCT_SWEEP)))
    out.sample({"source": "pct-sweep", "bulks": pitems[99]["b"], "clients": pitems[99]["case"]["clients"], "rows": pitems[99]["rows"][5:8]})
    shutil.rmtree(os.path.join(root, "pct"), ignore_errors=True)
    # ---- Leg S2C + C2S: behaviours
    sim = behaviours_from_tlc(ctx, out, 250 if quick else 3000)
    out.note("leg S2C: %d TLC behaviours" % len(sim))
    pending = ([], {})
    items = run_cases(sim, out, "sim", root, pending)
    ex = next((it for it in items if it["kind"] == "run" and len(it["events"]) > 3), items[0])
    out.sample({"source": "tlc-simulate", "files": ex["files"], "cfg": ex["cfg"], "offsets": ex["off"], "events": ex["events"][:4]})
    n_sched, splits = alloc_enumeration(quick)
    al = enumerated_alloc_cases(splits, ctx.seed + 4) + alloc_cases(ctx.seed + 5, 30 if quick else 600)
    items = run_cases(al, out, "alloc", root, pending)
    out.extra["real_allocator_groups"] = {
        "schedules_enumerated": n_sched,
        "distinct_splits": len(splits),
        "noncontiguous_splits_enumerated": sum(1 for k in splits if _noncontiguous(k[1])),
        "cases_executed": len(items),
        "executed_with_noncontiguous_group": sum(1 for it in items if _noncontiguous(it["cfg"]["groups"])),
    }
    out.note("real Allocator + calculate_worker_assignments: %d schedules, %d distinct splits of the bulk task's clients, %d non-contiguous" % (n_sched, len(splits), out.extra["real_allocator_groups"]["noncontiguous_splits_enumerated"]))
    out.sample({"source": "real-allocator", "sched": al[0]["sched"], "groups": items[0]["cfg"]["groups"]})
    ad = adapter_cases(ctx.seed + 6, 14 if quick else 150)
    n_ad = run_adapter_cases(ad, out, "adapter", root, pending)
    out.note("leg adapter: %d parallel elements with two bulk tasks run by the real AsyncIoAdapter.run: %d per-task traces" % (len(ad), n_ad))
    big = [big_case(s, k, ctx.seed) for k, s in enumerate(BIG_CASES + ([] if quick else BIG_CASES_THOROUGH))]
    items = run_cases(big, out, "big", root, pending)
    out.sample({"source": "big-files", "files": big[0]["files"], "offsets": items[0]["off"], "table": [s for s in items if s["kind"] == "seek"][0]["table"]})
    rnd = random_cases(ctx.seed + 9, 150 if quick else 2500)
    run_cases(rnd, out, "rnd", root, pending)
    judge(pending[0], pending[1], out, "c03runs", chunk=700)
    out.note("leg C2S: %d items validated by TLC" % out.traces_validated)
    out.exhaustive = False


def replay(ctx, case):
    from ..core import Outcome

    out = Outcome(ctx.pid)
    kind = case.get("kind", "run")
    root = tlc.scratch("c03replay")
    if kind == "run":
        run_cases([case], out, "replay", root)
    elif kind == "adapter":
        pending = ([], {})
        run_adapter_cases([case], out, "replay", root, pending)
        if pending[0]:
            judge(pending[0], pending[1], out, "c03replay")
    elif kind == "pct":
        it = pct_item(os.path.join(root, "pct"), case["docs"], [tuple(x) for x in case["pcts"]])
        judge([it], {it["id"]: dict(case)}, out, "c03replay")
        for v in out.violations:
            v.detail += "; " + _pct_detail(it)
    elif kind == "bnd":
        it = bounds_item("replay", int(case["total"]), case["N"], case["meta"], case["ranges"])
        judge([it], {"replay": dict(case)}, out, "c03replay")
    else:
        it = seek_small_items(os.path.join(root, "seek"), [{"pat": [p - 1 for p in case["pat"]], "n": case["n"], "K": case["K"], "l": case["l"]}])
        judge(it, {i["id"]: dict(case) for i in it}, out, "c03replay")
    for v in out.violations:
        print("VIOLATION property=C03 clause=%s %s" % (v.clause, v.detail))
    for d in out.drift:
        print("MODEL-DRIFT property=C03 %s" % d)
    return 1 if out.violations else 0
