"""C20 — race comparison reports signed differences with the right direction.

Leg M   : TLC enumerates pairs of race-result structures (Compare.tla: every value pair x structure variant, all ~120 row
          kinds of the reporter) and checks the property clauses on the transcription of ComparisonReporter; the pinned
          variant (the reporter's current relative-difference definition) must violate them in the model (self-test).
Leg S2C : every TLC state becomes two real Race / GlobalStats objects, stored with the real FileRaceStore, read back and
          compared by the real ComparisonReporter (_metrics_table plain / rich, swapped, self, report() to markdown + csv).
Leg C2S : the projected rows / console / file contents of those runs and of seeded random pairs (independent values per
          metric, wider numbers) are validated by TLC against TraceCompare.tla: L1 = clauses of the statement, L2 = transcription.
"""
import os
import random
import re
import shutil
import time

from .. import compare_impl as ci
from .. import comparechild
from .. import tlc, tracecheck
from ..core import Violation
from ..tlaparse import parse_dump, parse_value, to_json

NA = ci.NA
TABLES = {1: "compare(baseline, contender)", 2: "compare(contender, baseline)", 3: "compare(baseline, baseline)",
          4: "compare(contender, contender)", 5: "plain table", 6: "markdown report", 7: "csv report"}


def printed_by_tlc(res, tag):
    """A constant of Compare.tla printed by MC_Compare (ASSUME PrintT(<<tag, value>>)), possibly pretty-printed over many lines."""
    out = res.out
    m = re.search(r'<<\s*"%s"' % tag, out)
    if not m:
        raise tlc.MachineryError("%s table not printed by TLC" % tag)
    at = m.start()
    depth = 0
    i = at
    while i < len(out):
        if out.startswith("<<", i):
            depth += 1
            i += 2
            continue
        if out.startswith(">>", i):
            depth -= 1
            i += 2
            if depth == 0:
                break
            continue
        i += 1
    return parse_value(out[at:i])[1]


def slots_from_tlc(res):
    """The slot table is defined in Compare.tla and printed by MC_Compare (ASSUME PrintT(<<"SLOTS", SlotSeq>>))."""
    slots = [to_json(s) for s in printed_by_tlc(res, "SLOTS")]
    for s in slots:
        ci.label(s)
    return slots


def naming_from_tlc(res):
    """The naming modes of the op_metrics records (NamingSeq of Compare.tla); index = mode."""
    return [to_json(r) for r in printed_by_tlc(res, "NAMING")]


def probe_switches(runner):
    """Which relative-difference variant does the implementation exhibit? Only selects the L2 transcription variant."""
    rep = runner.reporter.ComparisonReporter(runner.cfg(False))
    rep.plain = True
    zero = ci.strip_ansi(str(rep._diff(0, 1, False, as_percentage=True)))  # pylint: disable=protected-access
    neg = ci.strip_ansi(str(rep._diff(-2, 1, False, as_percentage=True)))  # pylint: disable=protected-access
    return {"AbsBaseline": neg.startswith("+"), "ZeroBaselineSigned": "inf" in zero, "probe": {"_diff(0,1,%)": zero, "_diff(-2,1,%)": neg}}


def trace_cfg(D, sw):
    return (
        "SPECIFICATION TSpec\nCONSTANTS\n  Values = {}\n  D = %d\n  Variants = {}\n  AbsBaseline = %s\n  ZeroBaselineSigned = %s\nCHECK_DEADLOCK FALSE\n"
        % (D, "TRUE" if sw["AbsBaseline"] else "FALSE", "TRUE" if sw["ZeroBaselineSigned"] else "FALSE")
    )


# ---------------------------------------------------------------------------------------------------
def random_struct_pair(rnd, slots, D, modes=1):
    """Independent values per metric; D = 10^6: fine-grained small numbers, D = 1000: wide numbers."""
    n = len(slots)

    def value(slot):
        r = rnd.random()
        if r < 0.12:
            return NA
        if r < 0.22:
            return 0
        if D >= 100000:
            kind = rnd.random()
            if kind < 0.2:
                return rnd.randint(1, 40)  # below / around the printing resolution
            if kind < 0.3:
                return -rnd.randint(1, 3 * D)
            return rnd.choice([rnd.randint(1, 9 * D), rnd.randint(1, 9) * D, rnd.randint(1, 90) * (D // 10), rnd.randint(1, 900) * (D // 1000)])
        lim = 999 * D if slot["g"] == "disk" else 10**7  # per-field disk usage stays below 1 kB so that the unit is bytes
        kind = rnd.random()
        if kind < 0.1:
            return -rnd.randint(1, lim // 10)
        return rnd.choice([rnd.randint(1, lim), rnd.randint(1, lim // D) * D, rnd.randint(1, 50 * D)])

    def near(v, slot):
        """a contender value close to (or equal to) the baseline's: zero, sub-resolution and edge differences"""
        if v == NA:
            return value(slot)
        r = rnd.random()
        if r < 0.35:
            return v
        step = rnd.choice([1, 1, 2, 4, 5, 7, 10, 70, 100, 1000]) * rnd.choice([1, -1])
        w = v + step
        lim = 999 * D if slot["g"] == "disk" else 10**7
        return w if abs(w) <= lim else v

    mode = rnd.random()
    bv = [value(s) for s in slots]
    if mode < 0.15:
        cv = list(bv)
    elif mode < 0.5:
        cv = [near(bv[i], slots[i]) for i in range(n)]
    else:
        cv = [value(s) for s in slots]
    ents = [[1, 2], [1, 2], [1, 2], [1], [2], []]
    eb = rnd.choice(ents)
    ec = eb if mode < 0.15 else rnd.choice(ents)
    # naming of the task records: half of the races plain, the others with colliding task / operation names (Compare.tla, NamingSeq)
    nb = rnd.randrange(modes) if rnd.random() < 0.5 else 0
    nc = nb if rnd.random() < 0.5 else (rnd.randrange(modes) if rnd.random() < 0.5 else 0)
    return {"E": list(eb), "nm": nb, "v": bv}, {"E": list(ec), "nm": nc, "v": cv}


def dec(v, D):
    """integer over D -> decimal string"""
    sign = "-" if v < 0 else ""
    digits = len(str(D)) - 1
    return "%s%d.%0*d" % (sign, abs(v) // D, digits, abs(v) % D)


def cause_of(clause, line, item):
    """Normalised description of the kind of failing input (known-finding matching): which baseline made the cell wrong."""
    s, tbl = divmod(line, 10)
    if s == 0 or tbl not in (1, 2):
        return "other", None
    b, c = item["B"]["v"][s - 1], item["C"]["v"][s - 1]
    if tbl == 2:
        b, c = c, b
    b = 0 if b == NA else b
    c = 0 if c == NA else c
    if clause == "SwapFlips:pct":
        if (b == 0) != (c == 0):
            return "zero-baseline", (b, c)
        if b < 0 or c < 0:
            return "negative-baseline", (b, c)
    if clause in ("MarkMatchesDirection:pct",) and b < 0:
        return "negative-baseline", (b, c)
    return "other", (b, c)


class Check:
    def __init__(self, ctx, out, runner, slots, sw):
        self.ctx, self.out, self.runner, self.slots, self.sw = ctx, out, runner, slots, sw
        self.seen = {}
        self.counts = {}

    def crashed(self, B, C, proc, D, exc_type, text, env=None):
        """the comparison of two well-formed stored results did not produce a table at all"""
        sig = {"clause": "ComparisonCompletes", "cause": exc_type}
        if env:
            sig["env"] = env["env"]
        key = tuple(sorted(sig.items()))
        self.counts[key] = self.counts.get(key, 0) + 1
        if key not in self.seen:
            case = dict({"B": B, "C": C, "proc": bool(proc), "D": D, "line": 0, "clause": "ComparisonCompletes"}, **(env or {}))
            self.seen[key] = ((False, 0, 0), Violation("ComparisonCompletes", case, signature=sig, detail="comparing two stored races raised %s" % text))

    def make_item(self, iid, B, C, proc, D, runner=None, env=None):
        it = dict({"id": iid, "proc": bool(proc), "B": B, "C": C}, **(env or {}))
        try:
            it.update((runner or self.runner).run(B, C, proc, D))
        except tlc.MachineryError:
            raise
        except Exception as ex:  # pylint: disable=broad-except
            self.crashed(B, C, proc, D, type(ex).__name__, "%s: %s" % (type(ex).__name__, ex), env)
            return None
        return it

    def validate(self, items, D, name):
        if not items:
            return
        t0 = time.time()
        v = tracecheck.validate("Compare", "TraceCompare", "TraceCompare.cfg", items, name=name, chunk=150, cfg_text=trace_cfg(D, self.sw), timeout=1200)
        self.out.note("C2S %s: %d items validated by TLC in %.1fs" % (name, len(items), time.time() - t0))
        self.out.traces_validated += v.accepted(len(items))
        index = {it["id"]: it for it in items}
        for tid, fails in v.l1.items():
            it = index[tid]
            for line, clauses in fails:
                for cl in clauses:
                    cause, bc = cause_of(cl, line, it)
                    s = line // 10
                    group = self.slots[s - 1]["g"] if s else "table"
                    sig = {"clause": cl, "cause": cause}
                    if cause == "other":
                        sig["group"] = group
                    if it.get("env", "inproc") != "inproc":
                        sig["env"] = it["env"]
                    if cl == "Pairing":
                        raise tlc.MachineryError("harness pairing of swapped rows rejected by TLC for %s" % tid)
                    key = tuple(sorted(sig.items()))
                    self.counts[key] = self.counts.get(key, 0) + 1
                    # one witness per signature; prefer ordinary metrics and plainly non-zero values over exotic ones
                    score = (group == "disk", -min(abs(bc[0]), abs(bc[1]), 3 * D) if bc else 0, -min(abs(bc[0]) + abs(bc[1]), 3 * D) if bc else 0)
                    if key in self.seen and self.seen[key][0] <= score:
                        continue
                    metric = ci.label(self.slots[s - 1]) if s else ("(table)", "")
                    row = next((r for r in it["fwd" if line % 10 == 1 else "swp"] if r["s"] == s), None) if s and line % 10 in (1, 2) else None
                    detail = "%s, metric %r: baseline=%s contender=%s [display units]%s" % (
                        TABLES.get(line % 10, "?"), metric, dec(bc[0], D) if bc else "-", dec(bc[1], D) if bc else "-",
                        " printed diff=%s%d.%0*d [%s] diff%%=%s%d.%0*d%% [%s]" % (
                            row["d"]["sg"], row["d"]["ip"], max(1, row["d"]["nd"]), row["d"]["fp"], row["dc"],
                            row["p"]["sg"], row["p"]["ip"], max(1, row["p"]["nd"]), row["p"]["fp"], row["pc"]) if row else "",
                    )
                    case = {"B": it["B"], "C": it["C"], "proc": it["proc"], "D": D, "line": line, "clause": cl}
                    if "env" in it:
                        case.update({"env": it["env"], "names": it["names"]})
                    if line % 10 in (6, 7) and it["md" if line % 10 == 6 else "csv"].get("exc"):
                        f = it["md" if line % 10 == 6 else "csv"]
                        detail += " [%s names, %s] writing the report raised %s; console table %d rows, file %d rows" % (
                            it.get("names", "ascii"), it.get("env", "inproc"), f["exc"], len(f["crows"]), len(f["frows"]))
                    self.seen[key] = (score, Violation(cl, case, signature=sig, detail=detail))
        for tid, lines in v.l2.items():
            what = sorted({"%s%s" % (TABLES.get(ln % 10, "?"), " row %r" % (ci.label(self.slots[ln // 10 - 1]),) if ln >= 10 else "") for ln in lines})
            self.out.drift.append("case %s: %s differ(s) from the transcription of ComparisonReporter" % (tid, "; ".join(what[:3])))


def run(ctx, out):
    out.rule = (
        "case = (baseline result structure, contender result structure, show-processing-time option); distinct by hash; non-trivial = at "
        "least one metric present in both. Sources: every state of the TLC state space of Compare.tla (S2C: each value pair on every row "
        "kind, both orientations, 6 / 32 structure variants) and seeded random pairs with independent values per metric (C2S only)."
    )
    out.assumptions = [
        "race results have the layout GlobalStats.as_dict() writes (lists for ML / transform / disk usage, {} for absent per-shard and latency stats)",
        "green = improvement, red = regression, default colour (39) = neutral; Baseline / Contender cells are compared up to float noise (1e-9 relative)",
        "values are rationals with |value * D| <= 10^7 (D = 10^6 or 10^3); exact rounding ties and values exactly on the colouring threshold are accepted either way",
        "per-field disk usage: 'not recorded = 0 bytes, rows with 0 on both sides omitted' is accepted (rows required only when both sides recorded, non-zero and totals present)",
        "processing time rows are required only with the show-processing-time option; markdown cell rendering (tabulate reformats numeric strings) is trusted, file == console is checked on the raw text",
    ]
    cfgname = "Compare.quick.cfg" if ctx.quick else "Compare.thorough.cfg"
    wd = tlc.prepare_workdir("Compare", "c20mc")
    dump = os.path.join(wd, "states.dump")
    res = tlc.run_tlc(wd, "MC_Compare", cfgname, timeout=900, dump=dump, allow_violation=True)
    out.add_tlc(res)
    if not res.ok:
        raise tlc.MachineryError("model violates %s (%s)" % (res.invariant_violated, res.out[-1500:]))
    out.note("leg M %s: %d distinct states in %.1fs" % (cfgname, res.distinct, res.wall_s))
    slots = slots_from_tlc(res)
    wd2 = tlc.prepare_workdir("Compare", "c20pinned")
    res2 = tlc.run_tlc(wd2, "MC_Compare", "Compare.pinned.cfg", timeout=600, allow_violation=True)
    if res2.invariant_violated != "PropertyHolds":
        raise tlc.MachineryError("self-test failed: the pinned variant (current relative-difference definition) does not violate the property in the model")
    out.extra["model_selftest"] = "pinned variant (AbsBaseline=FALSE, ZeroBaselineSigned=FALSE) violates PropertyHolds in the model, as expected"

    root = os.path.join(tlc.scratch("c20races"), "root")
    os.makedirs(root, exist_ok=True)
    naming = naming_from_tlc(res)
    runner = ci.Runner(slots, root, naming)
    sw = probe_switches(runner)
    out.extra["implementation_variant"] = sw
    out.note("implementation variant (selects the L2 transcription only): %s" % sw)
    chk = Check(ctx, out, runner, slots, sw)

    # ---- S2C: every evaluated TLC state is one real comparison
    D = 1000000
    items = []
    marks = {"improve": 0, "regress": 0, "neutral": 0, "rows": 0}
    states = [st for st in parse_dump(dump + ".dump" if os.path.exists(dump + ".dump") else dump) if st["done"]]
    # the dump order depends on TLC's worker scheduling: fix it
    states.sort(key=lambda st: (sorted(st["variant"]["eb"]), sorted(st["variant"]["ec"]), st["variant"]["nb"], st["variant"]["nc"], st["variant"]["shift"], st["variant"]["proc"], tuple(st["pair"])))
    for st in states:
        for k in marks:
            marks[k] += st["out"][k]
        B = {"E": sorted(st["B"]["E"]), "nm": st["B"]["nm"], "v": list(st["B"]["v"])}
        C = {"E": sorted(st["C"]["E"]), "nm": st["C"]["nm"], "v": list(st["C"]["v"])}
        proc = bool(st["variant"]["proc"])
        it = chk.make_item("s%d" % len(items), B, C, proc, D)
        out.add_case((B, C, proc), nontrivial=bool(it and it["fwd"]))
        if it is None:
            continue
        items.append(it)
    out.vacuous = [k for k, n in marks.items() if n == 0]
    out.exhaustive = True
    out.note("leg S2C: %d TLC states run through FileRaceStore + ComparisonReporter (%d rows, marks %s)" % (len(items), sum(len(i["fwd"]) for i in items), marks))
    if not items:
        out.violations.extend(v for _, v in chk.seen.values())
        return
    mid = items[len(items) // 3]
    out.sample({"baseline_entities": mid["B"]["E"], "contender_entities": mid["C"]["E"], "rows": len(mid["fwd"]),
                "first_rows": [[r["m"], r["t"], r["dt"], r["dc"], r["pt"], r["pc"]] for r in mid["fwd"][:4]]})
    chk.validate(items, D, "c20trace")

    # ---- names outside ASCII, in-process (UTF-8) and in a child interpreter with a non-UTF-8 locale (file encoding under test)
    locale_cases = []
    wanted = [({1, 2}, {1, 2}), ({1, 2}, {1, 2}), ({1, 2}, {2}), ({1}, {1, 2})]
    for k, (eb, ec) in enumerate(wanted):
        cand = [st for st in states if st["variant"]["eb"] == eb and st["variant"]["ec"] == ec and NA not in st["pair"] and st["pair"][0] != st["pair"][1]]
        st = cand[(ctx.seed * 5 + 3 * k + 1) % len(cand)]
        locale_cases.append({"B": {"E": sorted(st["B"]["E"]), "nm": st["B"]["nm"], "v": list(st["B"]["v"])},
                             "C": {"E": sorted(st["C"]["E"]), "nm": st["C"]["nm"], "v": list(st["C"]["v"])},
                             "proc": bool(st["variant"]["proc"]), "D": D})
    rndl = random.Random(ctx.seed * 7919 + 11)
    for _ in range(2):
        Bl, Cl = random_struct_pair(rndl, slots, D, len(naming))
        locale_cases.append({"B": Bl, "C": Cl, "proc": rndl.random() < 0.5, "D": D})
    uroot = os.path.join(tlc.scratch("c20races"), "unicode")
    os.makedirs(uroot, exist_ok=True)
    urunner = ci.Runner(slots, uroot, naming, "unicode")
    litems = []
    for k, c in enumerate(locale_cases):
        it = chk.make_item("u%d" % k, c["B"], c["C"], c["proc"], D, runner=urunner, env={"names": "unicode", "env": "inproc"})
        out.add_case((c["B"], c["C"], c["proc"], "unicode", "inproc"), nontrivial=bool(it and it["fwd"]))
        if it is not None:
            litems.append(it)
    enc, outs = comparechild.run_cases(slots, naming, "unicode", locale_cases, os.path.join(tlc.scratch("c20races"), "child"))
    for k, (c, o) in enumerate(zip(locale_cases, outs)):
        env = {"names": "unicode", "env": "non-utf8-locale"}
        out.add_case((c["B"], c["C"], c["proc"], "unicode", "child"), nontrivial="crash" not in o and bool(o.get("fwd")))
        if "crash" in o:
            chk.crashed(c["B"], c["C"], c["proc"], D, o["crash_type"], o["crash"], env)
            continue
        litems.append(dict({"id": "c%d" % k, "proc": bool(c["proc"]), "B": c["B"], "C": c["C"]}, **env, **o))
    chk.validate(litems, D, "c20locale")
    out.extra["locale_leg"] = {"child_encoding": enc, "cases": len(locale_cases), "environment": comparechild.ENV}
    out.note("locale leg: %d comparisons with non-ASCII task / job / transform / index / field names, in-process and in a child interpreter (%s)" % (len(locale_cases), enc))

    # ---- seeded random pairs (C2S only)
    for gi, (Dr, n) in enumerate(((1000000, 90 if ctx.quick else 800), (1000, 90 if ctx.quick else 800))):
        rnd = random.Random(ctx.seed * 7919 + 20 + gi)
        ritems = []
        for k in range(n):
            B, C = random_struct_pair(rnd, slots, Dr, len(naming))
            proc = rnd.random() < 0.5
            it = chk.make_item("r%d-%d" % (gi, k), B, C, proc, Dr)
            out.add_case((B, C, proc, Dr), nontrivial=bool(it and it["fwd"]))
            if it is not None:
                ritems.append(it)
        chk.validate(ritems, Dr, "c20rnd%d" % gi)
        out.note("random pairs over D=%d: %d (%d rows)" % (Dr, n, sum(len(i["fwd"]) for i in ritems)))
    out.violations.extend(v for _, v in chk.seen.values())
    out.extra["l1_failures_by_signature"] = {", ".join("%s=%s" % kv for kv in k): n for k, n in sorted(chk.counts.items())}
    shutil.rmtree(root, ignore_errors=True)


def replay(ctx, case):
    res, naming = _slots_only()
    root = os.path.join(tlc.scratch("c20races"), "root")
    os.makedirs(root, exist_ok=True)
    runner = ci.Runner(res, root, naming, case.get("names", "ascii"))
    case["B"].setdefault("nm", 0)
    case["C"].setdefault("nm", 0)
    sw = probe_switches(runner)
    it = {"id": "replay", "proc": bool(case["proc"]), "B": case["B"], "C": case["C"]}
    try:
        if case.get("env", "inproc") == "inproc":
            it.update(runner.run(case["B"], case["C"], case["proc"], case["D"]))
        else:
            _, outs = comparechild.run_cases(res, naming, case.get("names", "ascii"), [{k: case[k] for k in ("B", "C", "proc", "D")}], os.path.join(tlc.scratch("c20races"), "child"))
            if "crash" in outs[0]:
                print("VIOLATION property=C20 clause=ComparisonCompletes comparing the two stored races raised %s" % outs[0]["crash"])
                return 1
            it.update(outs[0])
    except tlc.MachineryError:
        raise
    except Exception as ex:  # pylint: disable=broad-except
        print("VIOLATION property=C20 clause=ComparisonCompletes comparing the two stored races raised %s: %s" % (type(ex).__name__, ex))
        return 1
    if case.get("clause") == "ComparisonCompletes":
        return 0
    v = tracecheck.validate("Compare", "TraceCompare", "TraceCompare.cfg", [it], name="c20replay", cfg_text=trace_cfg(case["D"], sw))
    hit = False
    for _, fails in v.l1.items():
        for line, clauses in fails:
            for cl in clauses:
                s = line // 10
                same = cl == case.get("clause") and line == case.get("line")
                hit = hit or same or "clause" not in case
                if same or "clause" not in case:
                    rows = it["fwd" if line % 10 == 1 else "swp"] if line % 10 in (1, 2) else []
                    row = next((r for r in rows if r["s"] == s), None)
                    print("VIOLATION property=C20 clause=%s %s metric=%r row=%s" % (cl, TABLES.get(line % 10), ci.label(res[s - 1]) if s else "(table)", row))
    return 1 if hit else 0


def _slots_only():
    wd = tlc.prepare_workdir("Compare", "c20slots")
    with open(os.path.join(wd, "Slots.cfg"), "w", encoding="utf-8") as f:
        f.write("SPECIFICATION Spec\nCONSTANTS\n  Values = {}\n  D = 1000000\n  Variants = {}\n  AbsBaseline = TRUE\n  ZeroBaselineSigned = TRUE\nCHECK_DEADLOCK FALSE\n")
    res = tlc.run_tlc(wd, "MC_Compare", "Slots.cfg", timeout=120, workers=1)
    return slots_from_tlc(res), naming_from_tlc(res)
