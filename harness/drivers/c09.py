"""C09 — any failure or cancellation ends the race as failed, never as success.

Same specification and harness as C01/C07 (RaceDriver.tla incl. race control = BenchmarkActor/BenchmarkCoordinator and the
failure-propagation handlers; racesim/racetrace in full mode with the REAL BenchmarkActor, a scratch FileRaceStore and a
recorded summary), plus one fault per behaviour: a request fails fatally (on-error=abort / fatal connection error / the runner
raises), the parameter source raises, the coordinator's metrics store fails while samples are stored (periodic or at a join
point), race control's metrics store fails (bulk_add), a worker process dies, the user cancels.
Clauses: FaultNeverSuccess (the first answer to whoever started the race is never Success), NoResultsOnFailure (race.json gets no
results, no summary is printed), CancelNoResults, FaultReported (the failure reaches race control).
"""
import re

from .. import tlc
from ..tlaparse import parse_value, to_json
from .. import prepleg
from . import racecommon as rc

CLAUSES = {"FaultNeverSuccess", "NoResultsOnFailure", "CancelNoResults", "FaultReported"}
KINDS = ["req", "param", "store", "rcstore", "die", "cancel"]


def _trap(cfg, expect):
    wd = tlc.prepare_workdir("RaceDriver", "racetrap")
    res = tlc.run_tlc(wd, "MC_RaceDriver", cfg, timeout=900, allow_violation=True, workers=8)
    if res.ok or res.invariant_violated != expect:
        raise tlc.MachineryError("self-test failed: %s should violate %s in the model (got %s)" % (cfg, expect, res.invariant_violated))
    scn, fault, script = None, "none", []
    for _label, text in res.counterexample:
        m = re.search(r"^/\\ scn = (.*?)(?=^/\\ |\Z)", text, flags=re.M | re.S)
        if m and scn is None:
            scn = {k: v for k, v in to_json(parse_value(m.group(1))).items() if k in ("sched", "workerOf", "W")}
            fault = str(parse_value(re.search(r"^/\\ flt = (.*?)(?=^/\\ |\Z)", text, flags=re.M | re.S).group(1))["kind"])
        ma = re.search(r"^/\\ act = (.*?)(?=^/\\ |\Z)", text, flags=re.M | re.S)
        if ma:
            a = parse_value(ma.group(1))
            if str(a["name"]) != "Init":
                script.append((str(a["name"]), a.get("w", a.get("c", a.get("i", 0)))))
    if scn is None or not script:
        raise tlc.MachineryError("could not extract a counterexample from %s" % cfg)
    return scn, script, fault


def run(ctx, out):
    out.rule = (
        "case = (scenario, fault kind, sequence of scheduling decisions incl. the point at which the fault is injected) executed on the real actors incl. the real "
        "BenchmarkActor; distinct by hash; non-trivial = the fault actually fired. Sources: TLC -simulate behaviours of RaceDriver.tla with FaultKinds = all, "
        "TLC counterexamples of the pinned/known-deviation model variants (trap schedules), seeded random schedules with random fault placement."
    )
    out.assumptions = [
        "Thespian semantics as reproduced by harness/simactor.py; the mechanic is a stub actor answering EngineStarted/EngineStopped; in the race legs the track preparation phase is a stub (its failure path is the subject of the prep leg)",
        "at most one fault per race; a worker death counts as 'during the race' while that worker has not yet reported the last join point",
        "'in bounded time' is decided as: under fair scheduling the failure reaches race control (liveness in the model; on the real code: reported before the recorded race can make no further progress). Each hop costs at most one wake-up interval (0.5-5 s).",
        "results stored = race.json of the scratch FileRaceStore contains 'results' or reporter.summarize was called",
    ]
    rc.model_check(out, ["RaceDriver.c09.quick.cfg", "RaceDriver.c09.live.cfg"] if ctx.quick else ["RaceDriver.c09.thorough.cfg", "RaceDriver.c09.live.thorough.cfg"], timeout=3000)
    traps = [_trap("RaceDriver.c09.pinned.cfg", "NoResultsOnFailure"), _trap("RaceDriver.c09.rcstore.cfg", "NoResultsOnFailure")]
    out.extra["model_selftest"] = (
        "pinned variant (SelfFailFix=FALSE) violates NoResultsOnFailure for a periodic store failure; the rcstore fault (race control's bulk_add fails for TaskFinished) "
        "violates NoResultsOnFailure in the model as it does in the code (known finding)"
    )
    jobs = []
    for scn, script, fault in traps:
        jobs.append({"scn": scn, "script": script, "seed": ctx.seed, "test_mode": True, "qmax": 100, "fault": fault})
    beh = rc.behaviours(ctx, out, 100 if ctx.quick else 1000, 110, cfg="RaceDriver.c09.sim.cfg", seed_off=9, with_fault=True)
    for i, (scn, script, fault) in enumerate(beh):
        jobs.append({"scn": scn, "script": script, "seed": ctx.seed + i, "test_mode": True, "qmax": 100, "fault": fault, "req_variant": ["conn_error", "api_error", "runner", "unsuccessful", "conn_error_retried"][i % 5]})
    # generated scenario family (racecommon.gen_scenarios) with one fault per behaviour
    gbeh, ngen = rc.behaviours_gen(ctx, out, 30 if ctx.quick else 400, 30 if ctx.quick else 400, 110, seed_off=19, base_cfg="RaceDriver.c09.sim.cfg", with_fault=True)
    for i, (scn, script, fault) in enumerate(gbeh):
        jobs.append({"scn": scn, "script": script, "seed": ctx.seed + 8000 + i, "test_mode": True, "qmax": 100, "fault": fault, "req_variant": ["conn_error", "api_error", "runner", "unsuccessful", "conn_error_retried"][i % 5]})
    out.extra["generated_scenarios"] = ngen
    scns = []
    seen = set()
    for scn, _s, _f in beh:
        if repr(scn) not in seen:
            seen.add(repr(scn))
            scns.append(scn)
    import random

    rnd = random.Random(ctx.seed + 909)
    reps = 2 if ctx.quick else 10
    for i, scn in enumerate(scns):
        for kind in KINDS:
            for k in range(reps):
                jobs.append({"scn": scn, "script": [], "seed": ctx.seed + 3000 + 97 * i + 7 * k + KINDS.index(kind), "test_mode": True, "qmax": 100, "fault": kind, "req_variant": ["conn_error", "api_error", "runner", "unsuccessful", "conn_error_retried"][(i + k) % 5], "fault_delay": rnd.randint(4, 70)})
    # directed: a lenient and a strict task in ONE executor (same worker, same parallel element); the strict task's request fails
    def _t(i, clients, reqs, cp=False):
        return {"id": i, "clients": clients, "reqs": reqs, "cp": cp, "acp": False}

    shared = [
        {"sched": [{"tasks": [_t(1, 1, 2, True), _t(2, 1, -1)], "cap": 0}, {"tasks": [_t(3, 2, 1)], "cap": 0}], "workerOf": [1, 1], "W": 1},
        {"sched": [{"tasks": [_t(1, 1, 3), _t(2, 1, 3)], "cap": 0}], "workerOf": [1, 1], "W": 1},
        {"sched": [{"tasks": [_t(1, 1, 2), _t(2, 2, 2)], "cap": 0}, {"tasks": [_t(3, 1, 1)], "cap": 0}], "workerOf": [1, 1, 2], "W": 2},
        # a finite task next to an eternal one WITHOUT completed-by: this race only ever ends through the injected failure
        {"sched": [{"tasks": [_t(1, 1, 5), _t(2, 1, -1)], "cap": 0}], "workerOf": [1, 1], "W": 1},
    ]
    for i, scn in enumerate(shared):
        for k, variant in enumerate(["api_error", "unsuccessful", "api_error", "unsuccessful"]):
            jobs.append({"scn": scn, "script": [], "seed": ctx.seed + 9100 + 10 * i + k, "test_mode": True, "qmax": 100, "fault": "req", "req_variant": variant, "fault_delay": 8 + 5 * k, "lenient": [1]})
    # directed: a client fails fatally while another client of the SAME executor goes on (eternal / longer task): the failure must
    # still be reported within a wake-up interval, not when the siblings are done
    for i, scn in enumerate(shared):
        for k in range(4):
            jobs.append({"scn": scn, "script": [], "seed": ctx.seed + 9300 + 10 * i + k, "test_mode": True, "qmax": 100, "fault": "req", "req_variant": ["conn_error", "runner", "conn_error_retried", "conn_error"][k % 4], "fault_delay": 6 + 4 * k})
    # tasks that declare ignore-response-error-level: non-fatal next to strict ones: in every parallel element with >= 2 tasks the
    # FIRST task is lenient in half of the races (a non-fatal request error is then injected only into the strict tasks, where
    # on-error=abort must still fail the race)
    for n, job in enumerate(jobs):
        if n % 2 == 0 and job.get("fault") == "req" and "lenient" not in job:
            job["lenient"] = [e["tasks"][0]["id"] for e in job["scn"]["sched"] if len(e["tasks"]) >= 2]
    stats, index = rc.run_races(ctx, out, jobs, CLAUSES, "c09")
    out.extra["races_run"] = len(jobs)
    out.extra["faults_fired"] = stats.get("faults_fired", 0)
    out.extra["schedule_steps_followed"] = stats["followed"]
    if stats.get("faults_fired", 0) < len(jobs) // 3:
        out.vacuous.append("faults fired in only %d of %d races" % (stats.get("faults_fired", 0), len(jobs)))
    some = index[sorted(index)[1]]
    out.sample({"scenario": some[0]["scn"], "fault": some[0].get("fault"), "decisions": [(e["ev"], e["arg"]) for e in some[1]["events"]][:50], "replies": some[1]["events"][-1]["st"]["rcst"]["replies"]})
    out.note("leg C2S: %d races (%d with the fault fired), %d traces accepted by TLC" % (len(jobs), stats.get("faults_fired", 0), out.traces_validated))
    # ---- prep leg: a track preparation task fails (specs/TrackPrep)
    prepleg.run_prep_leg(ctx, out)


def replay(ctx, case):
    if case.get("leg") == "prep":
        return prepleg.replay_case(ctx, case)
    return rc.replay_case(ctx, case, CLAUSES, "C09")
