"""C19 — fast-path response parsing agrees with full JSON parsing (esrally/driver/runner.py).

Leg M   : TLC model-checks specs/FastParse (MC_FastParse: generic trees with the requested paths, their prefixes and
          look-alikes; bulk responses; search responses with sort / _source.sort; composite after_key; page sequences)
          against PropertyHolds with the repair switches TRUE; each switch FALSE (= the code as it is) must violate the
          property in the model (self-test).
Leg S2C : the input universe of that model (= its initial states; written by TLC itself as ndjson through the Json module
          in the same run - a -dump of these nested records is 7 KB of pretty-printed text per state) is turned into JSON
          BYTES by harness/jsonlex.py in seeded lexical variants (key order, compact / spaced / pretty / odd whitespace,
          adversarial strings, escapes, raw UTF-8, big / float numbers, a 40 KB filler crossing ijson's read buffer) and
          given to the real runner.parse, BulkIndex.__call__ (fast path with the raw BytesIO and detailed path),
          SearchAfterExtractor, CompositeAggExtractor and the Query runner (search / scroll-search / paginated-search
          against a fake async client that serves io.BytesIO like esrally.client.factory.LazyJSONSerializer).
Leg C2S : every execution (also seeded random Elasticsearch-shaped responses not derived from TLC) is recorded as
          (projection of json.loads of the same bytes, what the code returned, ijson's event stream) and validated by TLC
          against TraceFastParse.tla: L1 = property formulas, L2 = transcription of the code and Events(tree) = ijson.
          L2 is judged against the repaired transcription (TraceFastParse.cfg) and, where that differs, against the
          transcription of the code as it is (TraceFastParse.pinned.cfg); only a result that is neither is drift. The
          same second pass tells, for an L1 violation, whether the result is exactly the known behaviour (`as_pinned`).

Violation signature: {part, cause (lexical / structural feature of the INPUT, "none" if it has none of the known ones),
clause (violated clause names), as_pinned}.
"""
import asyncio
import glob
import io
import json
import os
import random
import re

from .. import jsonlex as jl
from .. import tlc, tracecheck
from ..core import Violation

ABSENT = jl.ABSENT
NULLV = jl.SC_NULL

FREE_KEYS = {"x", "a", "b", "f"}


class Exhausted(Exception):
    """The fake Elasticsearch has no further response: the runner asked for more pages than were served."""


# ---------------------------------------------------------------------------------------------------
# the code under test
# ---------------------------------------------------------------------------------------------------
_RUNNER = {}


def _runner():
    if not _RUNNER:
        import ijson

        from esrally import exceptions
        from esrally.driver import runner

        counter = [0]
        real_parse = ijson.parse

        class _Ijson:
            """what runner.parse sees as `ijson`: the real module, events pulled by the code are counted"""

            IncompleteJSONError = ijson.IncompleteJSONError

            def __getattr__(self, name):
                return getattr(ijson, name)

            @staticmethod
            def parse(f, *a, **k):
                for ev in real_parse(f, *a, **k):
                    counter[0] += 1
                    yield ev

        if getattr(runner, "ijson", None) is ijson:
            runner.ijson = _Ijson()
        import logging

        logging.getLogger("esrally").setLevel(logging.CRITICAL + 1)
        logging.getLogger("esrally.driver.runner").disabled = True
        _RUNNER.update(runner=runner, exceptions=exceptions, counter=counter, ijson_parse=real_parse, loop=asyncio.new_event_loop())
    return _RUNNER


def _await(coro):
    return _runner()["loop"].run_until_complete(coro)


class FakeEs:
    """Stands for the async client: serves the given byte strings in order, as io.BytesIO when the runner asked for raw
    responses (what esrally.client.factory.LazyJSONSerializer does), parsed otherwise."""

    def __init__(self, responses):
        self.responses = list(responses)
        self.i = 0
        self.raw = False
        self.sent = []  # search_after values of the requests received
        self.cleared = False

    def options(self, **_kw):
        return self

    def return_raw_response(self):
        self.raw = True

    def _next(self):
        if self.i >= len(self.responses):
            raise Exhausted()
        r = self.responses[self.i]
        self.i += 1
        return io.BytesIO(r) if self.raw else json.loads(r)

    async def perform_request(self, *, method, path, params=None, body=None, headers=None):  # pylint: disable=unused-argument
        if isinstance(body, dict) and "search_after" in body:
            self.sent.append(body["search_after"])
        return self._next()

    async def bulk(self, **_kw):
        return self._next()

    async def clear_scroll(self, **_kw):
        self.cleared = True


# ---------------------------------------------------------------------------------------------------
# abstract input -> bytes -> observation
# ---------------------------------------------------------------------------------------------------
class Rendered:
    def __init__(self, data, table, tree, events, spc, brackets):
        self.data = data
        self.table = table
        self.tree = tree
        self.events = events
        self.spc = spc
        self.brackets = brackets


def render(trees, rnd, style, permute, adversarial=True, pad=False, string_mode=None, requested=()):
    """abstract trees (pages of ONE case) -> [bytes], one token table, projections of json.loads of those bytes, ijson
    streams and the lexical facts the regex of SearchAfterExtractor is sensitive to."""
    r = _runner()
    conc = jl.Concretiser(rnd, free_keys=FREE_KEYS, adversarial=adversarial, permute=permute, string_mode=string_mode, requested=requested)
    datas = []
    for t in trees:
        node = conc.node(t)
        if pad and node[0] == "o":
            # a 40 KB non-ASCII filler in front: pushes everything behind ijson's 16 K read buffer
            node = ("o", [('"pad"', ("s", jl.render_string("é日\U0001f600]" * 4000, 0)))] + node[1])
        datas.append(jl.serialise(node, style, rnd).encode("utf-8"))
    table = jl.Table()
    loaded = [jl.loads_ordered(d) for d in datas]
    for v in loaded:
        table.collect_keys(v)
    projected = [table.project(v) for v in loaded]
    events = []
    for d in datas:
        evs = []
        for p, e, v in r["ijson_parse"](io.BytesIO(d)):
            tok = "z" if e in ("start_map", "end_map", "start_array", "end_array") else table.scalar(v)["v"]
            evs.append([table.path(p), e, tok])
        events.append(evs)
    brackets = set()
    for c in conc.bracket_values:
        if c in table.keys:
            brackets.add(table.keys[c])
        brackets.add(table.scalar(c)["v"])
    if pad:
        brackets.add(table.scalar("é日\U0001f600]" * 4000)["v"])
    return Rendered(datas, table, projected, events, jl.SPACE_BEFORE_COLON[style], sorted(brackets))


def _paths(qs):
    return [q["p"] for q in qs]


def _lookup(tree, ps):
    for k in ps:
        if tree.get("t") != "o":
            return ABSENT
        nxt = [e["v"] for e in tree["kv"] if e["k"] == k]
        if not nxt:
            return ABSENT
        tree = nxt[-1]
    return tree


def _ht(inp):
    return None if inp["ht"].get("t") == "absent" else inp["ht"]["n"]


def _nores(exc):
    return {"exc": exc, "took": ABSENT, "timed_out": ABSENT, "pit_id": ABSENT, "total": ABSENT, "rel": ABSENT, "cursor": ABSENT, "after": ABSENT}


def _std(table, parsed):
    g = _nores("none")
    for f, k in (("took", "took"), ("timed_out", "timed_out"), ("pit_id", "pit_id"), ("total", "hits.total.value"), ("rel", "hits.total.relation")):
        if k in parsed:
            g[f] = table.value(parsed[k])
    return g


def _classify_exc(ex):
    r = _runner()
    if isinstance(ex, Exhausted):
        return "exhausted"
    if isinstance(ex, r["exceptions"].RallyAssertionError):
        return "pit"
    if isinstance(ex, ValueError):  # json.JSONDecodeError
        return "cursor"
    if isinstance(ex, TypeError):
        return "type"
    return "other:" + type(ex).__name__


_NODESC = {"ents": [], "trunc": False, "summary": []}
_DESC_ENTRY = re.compile(r"HTTP status: (\d+)(, message: )?")


def _description(text):
    """'HTTP status: 404 | HTTP status: 404, message: x | TRUNCATED 2x404, 1x429' -> what does not depend on the reasons' text.
    (no generated reason contains ' | ')"""
    if not text:
        return dict(_NODESC)
    parts = text.split(" | ")
    summary = []
    trunc = parts[-1].startswith("TRUNCATED ")
    if trunc:
        for x in parts.pop()[len("TRUNCATED ") :].split(", "):
            n, st = x.split("x")
            summary.append({"n": int(n), "st": int(st)})
    ents = []
    for e in parts:
        m = _DESC_ENTRY.match(e)
        if not m:
            raise tlc.MachineryError("cannot read the error description %r" % text[:200])
        ents.append({"st": int(m.group(1)), "msg": bool(m.group(2))})
    return {"ents": ents, "trunc": trunc, "summary": summary}


def _stats(meta, details):
    sc = meta.get("success-count")
    return {
        "success": bool(meta.get("success")),
        "sc": -1 if sc is None else int(sc),
        "ec": int(meta.get("error-count", -2)),
        "took": meta["_took"],
        "details": details,
        "desc": _description(meta.get("error-description")),
    }


def _bulk_call(data, table, size, unit, detailed):
    r = _runner()
    b = r["runner"].BulkIndex()
    captured = []
    orig = b.error_description

    def spy(error_details):
        captured.append(set(error_details))
        return orig(error_details)

    b.error_description = spy
    params = {
        "body": '{"index":{}}\n{"f":1}\n',
        "bulk-size": size,
        "unit": unit,
        "action-metadata-present": True,
        "index": "idx",
        "detailed-results": detailed,
    }
    try:
        meta = _await(b(FakeEs([data]), params))
    except Exception as ex:  # pylint: disable=broad-except
        return {"success": False, "sc": -2, "ec": -2, "took": {"t": "error"}, "details": [], "desc": dict(_NODESC), "exc": type(ex).__name__}
    meta = dict(meta)
    meta["_took"] = table.value(meta.get("took"))
    det = []
    if captured:
        for st, reason in sorted(captured[-1], key=repr):
            det.append({"st": int(st), "r": table.value(reason)})
    return _stats(meta, det)


def execute(inp, rnd, style=None, permute=None, adversarial=True, pad=False):
    """Runs ONE abstract input on the real code. Returns the trace item (without id) and the bytes used."""
    r = _runner()
    kind = inp["kind"]
    if kind in ("sa", "paged"):
        # the model input fixes whether there is whitespace between a key and its colon
        spc = inp["lex"]["spc"]
        style = rnd.choice(["pretty", "odd"] if spc else ["compact", "compact", "spaced"])
    elif style is None:
        style = rnd.choice(["compact", "compact", "spaced", "pretty", "odd"])
    if permute is None:
        permute = rnd.random() < 0.35
    trees = inp["pages"] if kind in ("scroll", "paged") else [inp["tree"]]
    requested = []
    if kind == "tree":
        requested = _paths(inp["req"]["props"]) + _paths(inp["req"]["lists"]) + _paths(inp["req"]["objs"])
    elif kind == "ca":
        requested = ["aggregations." + ".".join(inp["path"]) + ".after_key"]
    ren = render(trees, rnd, style, permute and kind not in ("sa", "paged"), adversarial, pad, requested=requested)
    table = ren.table
    item = {"kind": kind, "events": ren.events}
    lex = {"brackets": ren.brackets, "spc": ren.spc}
    if kind == "tree":
        req = inp["req"]
        props, lists, objs = _paths(req["props"]), _paths(req["lists"]), _paths(req["objs"])
        rnd.shuffle(props)
        r["counter"][0] = 0
        res = r["runner"].parse(io.BytesIO(ren.data[0]), props, lists or (None if rnd.random() < 0.7 else []), objs or None)
        n = r["counter"][0]
        got = {"props": [], "lists": [], "objs": [], "n": n}
        for k, v in res.items():
            k = "" if k is None else k  # parsed_objects[None]: an end_map of a requested object while no object is open
            if k in objs and isinstance(v, dict):
                got["objs"].append({"p": k, "v": [{"p": table.path(rk), "v": table.value(rv)} for rk, rv in v.items()]})
            elif k in lists and isinstance(v, bool) and k not in props:
                got["lists"].append({"p": k, "v": v})
            else:
                got["props"].append({"p": k, "v": table.value(v)})
        item.update(tree=ren.tree[0], req=req, got=got)
    elif kind == "bulk":
        size, unit = inp["size"], inp["unit"]
        if unit == "docs":
            items = _lookup(ren.tree[0], ["items"])
            size = len(items["el"]) if items.get("t") == "a" else size
        fast = _bulk_call(ren.data[0], table, size, unit, False)
        det = _bulk_call(ren.data[0], table, size, unit, True)
        item.update(tree=ren.tree[0], unit=unit, size=size, got={"fast": {k: v for k, v in fast.items() if k != "exc"}, "det": {k: v for k, v in det.items() if k != "exc"}})
    elif kind == "sa":
        ex = r["runner"].SearchAfterExtractor()
        try:
            parsed, last = ex(io.BytesIO(ren.data[0]), inp["pit"], _ht(inp))
            got = _std(table, parsed)
            got["cursor"] = table.value(last)
        except Exception as e:  # pylint: disable=broad-except
            got = _nores(_classify_exc(e))
        item.update(tree=ren.tree[0], lex=lex, pit=inp["pit"], ht=inp["ht"], got=got)
    elif kind == "ca":
        ex = r["runner"].CompositeAggExtractor()
        try:
            parsed = ex(io.BytesIO(ren.data[0]), inp["pit"], list(inp["path"]), _ht(inp))
            got = _std(table, parsed)
            ak = parsed.get("after_key")
            got["after"] = NULLV if ak is None else {"t": "flat", "kv": [{"p": table.path(k), "v": table.value(v)} for k, v in ak.items()]}
        except Exception as e:  # pylint: disable=broad-except
            got = _nores(_classify_exc(e))
        item.update(tree=ren.tree[0], pit=inp["pit"], ht=inp["ht"], path=list(inp["path"]), got=got)
    elif kind == "body":
        q = r["runner"].Query()
        res = _await(q(FakeEs(ren.data), {"operation-type": "search", "index": "idx", "body": {"query": {"match_all": {}}}, "detailed-results": True}))
        sh = res["shards"]
        got = {
            "hits": table.value(res["hits"]),
            "rel": table.value(res["hits_relation"]),
            "timed_out": table.value(res["timed_out"]),
            "took": table.value(res["took"]),
            "shards": [table.value(sh["total"]), table.value(sh["successful"]), table.value(sh["skipped"]), table.value(sh["failed"])],
        }
        item.update(tree=ren.tree[0], got=got)
    elif kind == "scroll":
        q = r["runner"].Query()
        es = FakeEs(ren.data)
        params = {
            "operation-type": "scroll-search",
            "index": "idx",
            "body": {"query": {"match_all": {}}},
            "pages": inp["maxp"] or "all",
            "results-per-page": inp["size"],
        }
        try:
            res = _await(q(es, params))
            took = res["took"]
            got = {
                "exc": "none",
                "pages": int(res["pages"]),
                "hits": table.value(res["hits"]),
                "rel": table.value(res["hits_relation"]),
                "timed_out": bool(res["timed_out"]),
                "took": took if isinstance(took, int) and not isinstance(took, bool) else -1,
                "clear": es.cleared,
                "served": es.i,
            }
            if res.get("weight") != res["pages"] or res.get("unit") != "pages":
                got["pages"] = -1
        except Exception as e:  # pylint: disable=broad-except
            got = {"exc": _classify_exc(e), "pages": 0, "hits": jl.sc_num(0), "rel": jl.sc_known("eq"), "timed_out": False, "took": 0, "clear": es.cleared, "served": es.i}
        item.update(pages=ren.tree, size=inp["size"], maxp=inp["maxp"], got=got)
    elif kind == "paged":
        q = r["runner"].Query()
        es = FakeEs(ren.data)
        params = {
            "operation-type": "paginated-search",
            "index": "idx",
            "body": {"query": {"match_all": {}}, "sort": [{"f": "asc"}]},
            "pages": inp["maxp"] or "all",
            "results-per-page": inp["size"],
        }
        try:
            res = _await(q(es, params))
            took = res["took"]
            got = {
                "exc": "none",
                "pages": int(res["pages"]),
                "hits": table.value(res["hits"]),
                "rel": table.value(res["hits_relation"]),
                "took": took if isinstance(took, int) and not isinstance(took, bool) else -1,
                "timed_out": bool(res["timed_out"]),
                "sent": [table.value(s) for s in es.sent],
                "served": es.i,
            }
            if res.get("weight") != res["pages"] or res.get("unit") != "pages":
                got["pages"] = -1
        except Exception as e:  # pylint: disable=broad-except
            got = {"exc": _classify_exc(e), "pages": 0, "hits": NULLV, "rel": NULLV, "took": 0, "timed_out": False, "sent": [table.value(s) for s in es.sent], "served": es.i}
        item.update(pages=ren.tree, lex=lex, size=inp["size"], maxp=inp["maxp"], got=got)
    else:
        raise tlc.MachineryError("unknown input kind %r" % kind)
    return item, ren


# ---------------------------------------------------------------------------------------------------
# what kind of input is it (signature of a violation; used for known-findings matching)
# ---------------------------------------------------------------------------------------------------
def _sort_occurrences(tree, acc):
    """in serialisation order: ("key", value-tree) for every key `sort`, ("val", None) for every string that is exactly `sort`"""
    t = tree["t"]
    if t == "s":
        if tree["ty"] == "string" and tree["v"] == "k:sort":
            acc.append(("val", None))
    elif t == "o":
        for e in tree["kv"]:
            if e["k"] == "sort":
                acc.append(("key", e["v"]))
            _sort_occurrences(e["v"], acc)
    else:
        for x in tree["el"]:
            _sort_occurrences(x, acc)
    return acc


def _cursor_causes(tree, lex):
    causes = set()
    hits = _lookup(tree, ["hits", "hits"])
    els = hits["el"] if hits.get("t") == "a" else []
    last = _lookup(els[-1], ["sort"]) if els else ABSENT
    if last.get("t") == "a":
        if lex["spc"]:
            causes.add("whitespace_before_colon")
        if any(x["t"] == "s" and x["v"] in lex["brackets"] for x in last["el"]):
            causes.add("bracket_in_sort_value")
    occ = _sort_occurrences(tree, [])
    if occ and not (occ[-1][0] == "key" and occ[-1][1] is last):
        causes.add("sort_text_after_last_hit_sort")
    return causes


def _has_null_member(f):
    return f.get("t") == "o" and all(e["v"]["t"] == "s" for e in f["kv"]) and any(e["v"]["ty"] == "null" for e in f["kv"])


def signature(item, clauses):
    kind = item["kind"]
    causes = set()
    if kind == "bulk":
        part = "bulk"
        tree = item["tree"]
        errors = _lookup(tree, ["errors"])
        items = _lookup(tree, ["items"])
        shard_failure = status_only = False
        reasons = {}  # status -> kinds of reason ("none" / "text") among the items failed by the predicate of both paths
        for it in items["el"] if items.get("t") == "a" else []:
            if it["t"] == "o" and it["kv"]:
                d = it["kv"][0]["v"]
                f = _lookup(d, ["_shards", "failed"])
                st = _lookup(d, ["status"])
                err = _lookup(d, ["error"])
                sf = f.get("t") == "s" and f["n"] > 0
                bad_status = st.get("t") == "s" and st["n"] > 299
                if sf:
                    shard_failure = True
                if bad_status and err.get("t") == "absent" and not sf:
                    status_only = True
                if sf or bad_status:
                    reason = _lookup(err, ["reason"]) if err.get("t") == "o" else err
                    text = reason.get("t") == "s" and reason["ty"] != "null"
                    reasons.setdefault(st.get("n"), set()).add("text" if text else "none")
        if errors.get("v") == "b:0":
            if shard_failure:
                causes.add("shard_failure_without_errors_flag")
            if status_only:
                causes.add("error_status_without_errors_flag")
        if any(len(v) == 2 for v in reasons.values()):
            causes.add("status_with_and_without_reason")
    elif kind in ("sa", "paged"):
        part = "cursor"
        for t in [item["tree"]] if kind == "sa" else item["pages"]:
            causes |= _cursor_causes(t, item["lex"])
    elif kind == "ca":
        part = "after_key"
        if _has_null_member(_lookup(item["tree"], ["aggregations"] + list(item["path"]) + ["after_key"])):
            causes.add("null_member_in_flat_object")
    elif kind == "tree":
        part = "parse"
        for q in item["req"]["objs"]:
            if _has_null_member(_lookup(item["tree"], q["ps"])):
                causes.add("null_member_in_flat_object")
    else:
        part = kind
    return {"part": part, "cause": "+".join(sorted(causes)) or "none", "clause": ",".join(sorted(clauses))}


# ---------------------------------------------------------------------------------------------------
# case sources
# ---------------------------------------------------------------------------------------------------
def model_check_and_generate(cfg, out, timeout, workers):
    """Leg M and the cases of leg S2C in ONE TLC run: Gen_FastParse extends MC_FastParse, writes the input universe (= the
    initial states) as ndjson while its ASSUMEs are evaluated, then TLC model-checks Spec / PropertyHolds under cfg."""
    wd = tlc.prepare_workdir("FastParse", "c19mc")
    outdir = os.path.join(wd, "gen")
    os.makedirs(outdir)
    res = tlc.run_tlc(wd, "Gen_FastParse", cfg, timeout=timeout, allow_violation=True, workers=workers, env={"VERIF_OUT": outdir})
    out.add_tlc(res)
    if not res.ok:
        raise tlc.MachineryError("model violates %s in %s: %s" % (res.invariant_violated, cfg, res.out[-1500:]))
    files = sorted(glob.glob(os.path.join(outdir, "in*.ndjson")), key=lambda p: int(os.path.basename(p)[2:-7]))
    universe = []  # (file, kind, number of inputs): every file holds one input set of one kind
    for fn in files:
        n = 0
        kind = None
        with open(fn, "r", encoding="utf-8") as f:
            for ln in f:
                if ln.strip():
                    if kind is None:
                        kind = json.loads(ln)["kind"]
                    n += 1
        if n:
            universe.append((fn, kind, n))
    total = sum(n for _, _, n in universe)
    if total * 2 != res.distinct:
        raise tlc.MachineryError("TLC wrote %d inputs but model-checked %d states (expected 2 per input)" % (total, res.distinct))
    return res, universe


def sample_plan(universe, caps):
    per_kind = {}
    for _fn, kind, n in universe:
        per_kind[kind] = per_kind.get(kind, 0) + n
    exhaustive = all(not caps.get(k) or n <= caps[k] for k, n in per_kind.items())
    planned = sum(min(n, caps.get(k) or n) for k, n in per_kind.items())
    return per_kind, exhaustive, planned


def sample_inputs(universe, caps, seed):
    """Deterministic stride sample (per kind at most caps[kind] inputs, all if no cap) of the inputs TLC wrote; lazily."""
    per_kind, _, _ = sample_plan(universe, caps)
    seen = {}
    for fn, kind, n in universe:
        cap = caps.get(kind)
        total = per_kind[kind]
        base = seen.get(kind, 0)
        seen[kind] = base + n
        if cap and total > cap:
            stride = total / float(cap)
            off = (seed % 997) / 997.0
            want = {int((j + off) * stride) % total for j in range(cap)}
            local = {g - base for g in want if base <= g < base + n}
        else:
            local = None
        with open(fn, "r", encoding="utf-8") as f:
            i = 0
            for ln in f:
                if not ln.strip():
                    continue
                if local is None or i in local:
                    yield json.loads(ln)
                i += 1


# names of the members of a requested flat object (composite sources are usually named after the field they are built on)
MEMBER_NAMES = ["geo.src", "geo.dest", "source.ip", "destination.ip", "host.name", "user.name", "a.b.c", "b.c", "c", "date", "@timestamp", "event.dataset"]


def _rand_total(rnd, value):
    """hits.total in the shape of ES < 7 / rest_total_hits_as_int (a number) or of ES 7+ ({value, relation}, either key order)"""
    if rnd.random() < 0.4:
        return jl.sc_num(value)
    pairs = [("value", jl.sc_num(value)), ("relation", jl.sc_known(rnd.choice(["eq", "gte"])))]
    if rnd.random() < 0.25:
        pairs.reverse()
    return jl.obj(*pairs)


def _rand_scalar(rnd, ids):
    x = rnd.random()
    if x < 0.35:
        return jl.sc_str(rnd.choice(ids))
    if x < 0.45:
        return jl.sc_str("b%d" % rnd.randint(1, 2))
    if x < 0.65:
        return jl.sc_num(rnd.choice([0, 1, 2, 7, 200, 201, 1609780186, -5]))
    if x < 0.8:
        return jl.sc_big(rnd.randint(1, 6))
    if x < 0.9:
        return jl.sc_bool(rnd.random() < 0.5)
    if x < 0.95:
        return jl.sc_known(rnd.choice(["sort", "value", "eq", ""]))
    return NULLV


def _rand_tree(rnd, depth, keys):
    x = rnd.random()
    if depth == 0 or x < 0.3:
        return _rand_scalar(rnd, [1, 2, 3, 4])
    if x < 0.5:
        return jl.arr(*[_rand_tree(rnd, depth - 1, keys) for _ in range(rnd.randint(0, 3))])
    ks = rnd.sample(keys, rnd.randint(0, min(4, len(keys))))
    return jl.obj(*[(k, _rand_tree(rnd, depth - 1, keys)) for k in ks])


def _all_paths(tree, prefix, acc):
    if tree["t"] == "o":
        for e in tree["kv"]:
            acc.append((prefix + [e["k"]], e["v"]["t"]))
            _all_paths(e["v"], prefix + [e["k"]], acc)
    return acc


def _path(ps):
    return {"p": ".".join(ps), "ps": list(ps)}


def random_inputs(seed, n):
    """Seeded random responses of the shapes Elasticsearch returns (and generic trees); NOT derived from TLC."""
    rnd = random.Random(seed)
    keys = ["took", "hits", "total", "value", "relation", "ak", "x", "a", "b", "timed_out", "_shards", "failed", "errors", "sort"]
    res = []
    for i in range(n):
        k = i % 10
        if k < 3:  # generic tree + request drawn from its paths, their prefixes and extensions
            tree = jl.obj(*[(key, _rand_tree(rnd, 3, keys)) for key in rnd.sample(keys, rnd.randint(1, 5))])
            paths = _all_paths(tree, [], [])
            cand = [p for p, _ in paths] + [p + [rnd.choice(keys)] for p, _ in paths[:3]] + [["took"], ["hits", "total"], ["nope"]]
            uniq = []
            for p in cand:
                if p not in uniq:
                    uniq.append(p)
            rnd.shuffle(uniq)
            props = uniq[: rnd.randint(1, 4)]
            rest = [p for p in uniq if p not in props]
            lists = [p for p in rest if rnd.random() < 0.3][:2]
            # no requested property / list inside a requested object (the property branch of parse() would take it)
            objs = []
            for p in rest:
                if p not in lists and rnd.random() < 0.3 and not any(q[: len(p)] == p for q in props + lists) and not any(q[: len(p)] == p or p[: len(q)] == q for q in objs):
                    objs.append(p)
            objs = objs[:2]
            res.append({"kind": "tree", "tree": tree, "req": {"props": [_path(p) for p in props], "lists": [_path(p) for p in lists], "objs": [_path(p) for p in objs]}})
        elif k < 6:  # bulk
            nitems = rnd.choice([0, 1, 2, 3, 5, 8, 20])
            items = []
            any_error = False
            for j in range(nitems):
                op = rnd.choice(["index", "create", "update", "delete"])
                x = rnd.random()
                fields = [("_index", jl.sc_str(1)), ("_id", jl.sc_str("i%d" % (j % 4)))]
                shards = rnd.choice([None, 0, 0, 1])  # _shards absent / failed 0 / failed > 0
                if x < 0.55:
                    st = rnd.choice([200, 201])
                    fields += [("_version", jl.sc_num(1)), ("result", jl.sc_known(rnd.choice(["created", "updated", "deleted", "noop"]))), ("_seq_no", jl.sc_big(1)), ("status", jl.sc_num(st))]
                    if x < 0.45:
                        shards = 0
                elif x < 0.67:
                    # a delete of a missing document: 404, result not_found, NO error (and `errors` stays false)
                    op = "delete"
                    fields += [("result", jl.sc_known("not_found")), ("status", jl.sc_num(404))]
                else:
                    any_error = True
                    st = rnd.choice([400, 404, 409, 429, 500, 503])
                    fields += [("status", jl.sc_num(st)), ("error", jl.obj(("type", jl.sc_str("t%d" % st)), ("reason", jl.sc_str("r%d" % st)), ("index", jl.sc_str(1))))]
                if shards is not None:
                    fields.insert(rnd.randint(2, len(fields)), ("_shards", jl.obj(("total", jl.sc_num(2)), ("successful", jl.sc_num(2 - shards)), ("failed", jl.sc_num(shards)))))
                if rnd.random() < 0.3:
                    rnd.shuffle(fields)
                items.append(jl.obj((op, jl.obj(*fields))))
            errors = any_error if rnd.random() < 0.92 else not any_error
            top = [("took", jl.sc_num(rnd.choice([0, 3, 30]))), ("errors", jl.sc_bool(errors)), ("items", jl.arr(*items))]
            if rnd.random() < 0.2:
                top.insert(1, ("ingest_took", jl.sc_num(4)))
            if rnd.random() < 0.3:
                rnd.shuffle(top)
            unit = rnd.choice(["docs", "docs", "ops", "MB"])
            res.append({"kind": "bulk", "tree": jl.obj(*top), "unit": unit, "size": nitems if unit == "docs" else 7})
        elif k == 6:  # composite aggregation response: after_key members named after fields (dots), any scalar as value
            names = rnd.sample(MEMBER_NAMES, rnd.randint(0, 4))
            after = jl.obj(*[(nm, _rand_scalar(rnd, [1, 2, 3, 4])) for nm in names]) if rnd.random() < 0.9 else None
            path = rnd.choice([["c"], ["n", "c"], ["by_origin"]])
            comp = jl.obj(("after_key", after), ("buckets", jl.arr(*[jl.obj(("key", jl.obj(*[(nm, jl.sc_str(1)) for nm in names])), ("doc_count", jl.sc_num(2))) for _ in range(rnd.randint(0, 2))])))
            aggs = jl.obj((path[0], comp)) if len(path) == 1 else jl.obj((path[0], jl.obj(("doc_count", jl.sc_num(9)), (path[1], comp))))
            pit = rnd.random() < 0.3
            top = [("took", jl.sc_num(3)), ("timed_out", jl.sc_bool(False)), ("hits", jl.obj(("total", _rand_total(rnd, rnd.choice([0, 0, 12]))), ("hits", jl.arr()))), ("aggregations", aggs)]
            if pit and rnd.random() < 0.9:
                top.insert(0, ("pit_id", jl.sc_str("pit")))
            if rnd.random() < 0.3:
                rnd.shuffle(top)
            res.append({"kind": "ca", "tree": jl.obj(*top), "pit": pit, "ht": ABSENT if rnd.random() < 0.6 else jl.sc_num(12), "path": path})
        elif k < 8:  # one search response for the extractor
            nh = rnd.choice([0, 1, 2, 3, 5])
            with_sort = rnd.random() < 0.85
            hits = []
            for j in range(nh):
                src = jl.obj(*[(key, _rand_tree(rnd, 2, ["f", "x", "a", "title", "tags"] + (["sort"] if rnd.random() < 0.1 else []))) for key in rnd.sample(["f", "x", "title", "tags"], rnd.randint(0, 3))])
                fields = [("_index", jl.sc_str(1)), ("_id", jl.sc_str("i%d" % j)), ("_score", NULLV), ("_source", src)]
                if with_sort:
                    fields.append(("sort", jl.arr(*[_rand_scalar(rnd, [5, 6, 7]) for _ in range(rnd.randint(1, 3))])))
                if rnd.random() < 0.1:
                    rnd.shuffle(fields)
                hits.append(jl.obj(*fields))
            total = _rand_total(rnd, nh + 3 if nh else rnd.choice([0, 0, 3]))
            pit = rnd.random() < 0.3
            top = [("took", jl.sc_num(5)), ("timed_out", jl.sc_bool(rnd.random() < 0.2)), ("_shards", jl.obj(("total", jl.sc_num(1)), ("failed", jl.sc_num(0)))), ("hits", jl.obj(("total", total), ("max_score", NULLV), ("hits", jl.arr(*hits))))]
            if pit and rnd.random() < 0.9:
                top.insert(0, ("pit_id", jl.sc_str("pit")))
            if rnd.random() < 0.25:
                rnd.shuffle(top)
            res.append({"kind": "sa", "tree": jl.obj(*top), "lex": {"brackets": [], "spc": rnd.random() < 0.1}, "pit": pit, "ht": ABSENT if rnd.random() < 0.6 else jl.sc_num(nh + 3)})
        else:  # realistic page sequences: total T, page size s
            size = rnd.choice([1, 2, 3])
            total = rnd.choice([0, 0, 1, 2, 3, 4, 6])
            total_tree = _rand_total(rnd, total)
            scroll = k == 8
            odd = 0 if scroll or rnd.random() < 0.8 else rnd.choice([1, 2])  # 1: `]` in the sort strings, 2: pretty-printed
            pages = []
            served = 0
            while True:
                nh = min(size, total - served)
                hits = [jl.obj(("_id", jl.sc_str("i%d" % (served + j))), ("_source", jl.obj(("f", jl.sc_str(1)))), ("sort", jl.arr(jl.sc_num(100 + served + j), jl.sc_str(("b%d" if odd == 1 else "i%d") % (served + j))))) for j in range(nh)]
                served += nh
                top = [("took", jl.sc_num(rnd.choice([1, 2, 5]))), ("timed_out", jl.sc_bool(rnd.random() < 0.15)), ("hits", jl.obj(("total", total_tree), ("hits", jl.arr(*hits))))]
                if scroll:
                    top.insert(0, ("_scroll_id", jl.sc_str("sid")))
                pages.append(jl.obj(*top))
                if nh == 0 or (not scroll and served >= total):
                    break
            maxp = rnd.choice([0, 0, 1, 2, 5])
            if scroll:
                res.append({"kind": "scroll", "pages": pages, "size": size, "maxp": maxp})
            else:
                res.append({"kind": "paged", "pages": pages, "lex": {"brackets": [], "spc": odd == 2}, "size": size, "maxp": maxp})
    return res


# ---------------------------------------------------------------------------------------------------
def _norm_case(item):
    return {k: v for k, v in item.items() if k not in ("id", "events", "got")}


def _nontrivial(item):
    k = item["kind"]
    if k == "bulk":
        it = _lookup(item["tree"], ["items"])
        return it.get("t") == "a" and len(it["el"]) > 0
    if k in ("scroll", "paged"):
        return len(item["pages"]) > 0
    return bool(item["tree"].get("kv"))


def run_inputs(inputs, rnd, out, label, variants=1, index=None, replay_store=None):
    """Executes abstract inputs on the real code (variants lexical variants each); returns trace items."""
    items = []
    for ci, inp in enumerate(inputs):
        for v in range(variants):
            vseed = rnd.randrange(1 << 30)
            pad = vseed % 100 < 3
            item, _ren = execute(inp, random.Random(vseed), pad=pad)
            item["id"] = "%s-%d-%d" % (label, ci, v)
            items.append(item)
            if replay_store is not None:
                replay_store[item["id"]] = {"input": inp, "vseed": vseed, "pad": pad}
            out.add_case(_norm_case(item), _nontrivial(item))
    return items


def validate(items, out, store, chunk=8000):
    """L1 / L2 verdicts of TLC for the recorded executions.

    L2 (transcription) is judged against the specification with the repair switches TRUE and, where that fails, FALSE
    (= the code as it is): a case is drift only if it conforms to neither variant. For L1 violations the second pass
    tells whether the recorded result is the one of the code as it is (`as_pinned`)."""
    verdicts = tracecheck.validate("FastParse", "TraceFastParse", "TraceFastParse.cfg", items, name="c19trace", chunk=chunk, timeout=1500)
    index = {it["id"]: it for it in items}
    again = [index[t] for t in sorted(set(verdicts.l1) | {t for t, lines in verdicts.l2.items() if 1 in lines})]
    pinned_bad = set()
    if again:
        pv = tracecheck.validate("FastParse", "TraceFastParse", "TraceFastParse.pinned.cfg", again, name="c19pinned", chunk=chunk, timeout=1500)
        pinned_bad = {t for t, lines in pv.l2.items() if 1 in lines}
    out.states += verdicts.n_items
    out.transitions += verdicts.n_items
    drift = {}
    for tid, lines in verdicts.l2.items():
        if 2 in lines:
            drift[tid] = "ijson's event stream differs from Events(tree)"
        elif tid in pinned_bad and tid not in verdicts.l1:
            drift[tid] = "result differs from the transcription of the code (repaired and as-is variant)"
    out.traces_validated += len(items) - len(set(verdicts.l1) | set(drift))
    for tid, fails in verdicts.l1.items():
        it = index[tid]
        clauses = sorted({c for _, cl in fails for c in cl})
        sig = signature(it, clauses)
        sig["as_pinned"] = tid not in pinned_bad
        out.violations.append(Violation(",".join(clauses), store[tid], signature=sig, detail="kind=%s cause=%s as_pinned=%s got=%s" % (it["kind"], sig["cause"], sig["as_pinned"], json.dumps(it["got"])[:300])))
    for tid, what in sorted(drift.items()):
        out.drift.append("case %s (%s): %s" % (tid, index[tid]["kind"], what))
    verdicts.drift = drift
    return verdicts


PINNED = [
    ("ShardFailureFix", "simple_stats trusts the top-level `errors` flag"),
    ("DescriptionSortFix", "error_description sorts (status, None) together with (status, text)"),
    ("CursorFix", "SearchAfterExtractor cuts the cursor out of the raw text with a regular expression"),
    ("NullMemberFix", "parse() drops null members of a requested flat object"),
]


def run(ctx, out):
    out.rule = (
        "case = one response (or page sequence) as concrete JSON bytes + the request (paths / runner parameters); distinct by hash of "
        "the projection of json.loads of those bytes + request; non-trivial = non-empty response. Sources: the input universe of "
        "MC_FastParse (TLC, S2C) in seeded lexical variants, and seeded random Elasticsearch-shaped responses (C2S only)."
    )
    out.assumptions = [
        "tokenising JSON text is ijson's / re's / json's job: the specification starts at the (prefix, event, value) stream and at the "
        "lexical facts `]` inside a string, whitespace before a colon, raw occurrence of \"sort\"; that Events(tree) is ijson's stream is "
        "validated on every case",
        "member names INSIDE a requested flat object (after_key, objects=) may contain dots, also several with the same last component; "
        "keys on the way to a requested path contain no '.' and requested paths no 'item' segment: ijson's prefix does not escape dots, "
        "so {\"hits.total\": 1} and {\"hits\": {\"total\": 1}} are the same prefix to parse() - an ambiguity of its interface, excluded",
        "bulk: Failed(item) = status > 299 or _shards.failed > 0 (the predicate of BOTH code paths); Elasticsearch sets the top-level "
        "`errors` only for items that carry an `error`; success-count None is accepted on the fast path for units other than docs (documented)",
        "numbers are compared by value (ijson yields Decimal for non-integers, json.loads float)",
        "no string other than the key `sort` / the string `sort` produces the raw text \"sort\" (e.g. a value ending in `\\\"sort`)",
    ]
    quick = ctx.quick
    rnd = random.Random(ctx.seed + 19)
    cfg = "FastParse.quick.cfg" if quick else "FastParse.thorough.cfg"
    # ---- Leg M (+ the input universe for leg S2C, written by the same TLC run)
    res, universe = model_check_and_generate(cfg, out, 1500, 8 if quick else 12)
    out.note("leg M %s: %d distinct states (%d inputs) in %.1fs" % (cfg, res.distinct, res.distinct // 2, res.wall_s))
    selftest = {}
    for sw, what in PINNED:
        wd2 = tlc.prepare_workdir("FastParse", "c19pin")
        with open(os.path.join(wd2, "FastParse.pinned.cfg"), "r", encoding="utf-8") as f:
            txt = f.read().replace("%s = TRUE" % sw, "%s = FALSE" % sw)
        with open(os.path.join(wd2, "pin.cfg"), "w", encoding="utf-8") as f:
            f.write(txt)
        r2 = tlc.run_tlc(wd2, "MC_FastParse", "pin.cfg", timeout=600, allow_violation=True, workers=4)
        if r2.invariant_violated != "PropertyHolds":
            raise tlc.MachineryError("self-test failed: model with %s=FALSE (%s) does not violate the property" % (sw, what))
        selftest[sw] = "FALSE (%s) violates PropertyHolds in the model, as expected" % what
    out.extra["model_selftest"] = selftest
    # ---- Leg S2C: the model's input universe on the real code
    caps = (
        {"tree": 1700, "bulk": 2000, "sa": 1900, "ca": 300, "body": 100, "scroll": 450, "paged": 450}
        if quick
        else {"tree": 30000, "bulk": 16000, "sa": 14000, "scroll": 12000, "paged": 12000}
    )
    per_kind, out.exhaustive, planned = sample_plan(universe, caps)
    out.note("leg S2C: %d of %d TLC inputs replayed on the implementation (%s)" % (planned, sum(per_kind.values()), ", ".join("%s=%d" % kv for kv in sorted(per_kind.items()))))
    # ---- C2S-only: random responses
    rnd_inputs = random_inputs(ctx.seed * 7919 + 1, 1200 if quick else 15000)
    totals = {"items": 0, "l1": 0, "drift": 0}
    kinds = {}

    def process(batch, label):
        store = {}
        items = run_inputs(batch, rnd, out, label, variants=1, replay_store=store)
        for it in items:
            kinds[it["kind"]] = kinds.get(it["kind"], 0) + 1
        if len(out.samples) < 3:
            it = items[len(items) // 2]
            out.sample({"id": it["id"], "kind": it["kind"], "input": _norm_case(it), "got": it["got"]})
        verdicts = validate(items, out, store)
        totals["items"] += len(items)
        totals["l1"] += len(verdicts.l1)
        totals["drift"] += len(verdicts.drift)

    import itertools

    batch_size = 16000
    batch, bno = [], 0
    for inp in itertools.chain(sample_inputs(universe, caps, ctx.seed), rnd_inputs):
        batch.append(inp)
        if len(batch) >= batch_size:
            process(batch, "b%d" % bno)
            batch, bno = [], bno + 1
    if batch:
        process(batch, "b%d" % bno)
    out.note("leg C2S: %d executions validated by TLC, %d with an L1 violation, %d drift" % (totals["items"], totals["l1"], totals["drift"]))
    by_sig = {}
    for v in out.violations:
        key = "%s/%s/%s/as_pinned=%s" % (v.signature["part"], v.signature["cause"], v.signature["clause"], v.signature["as_pinned"])
        by_sig[key] = by_sig.get(key, 0) + 1
    out.extra["violations_by_signature"] = by_sig
    out.extra["kinds_executed"] = dict(sorted(kinds.items()))


def replay(ctx, case):
    from ..core import Outcome

    out = Outcome(ctx.pid)
    item, ren = execute(case["input"], random.Random(case["vseed"]), pad=case.get("pad", False))
    item["id"] = "replay"
    print("bytes given to the code: %r" % (b" | ".join(ren.data)[:1500],))
    print("returned: %s" % json.dumps(item["got"])[:1500])
    validate([item], out, {"replay": case})
    for v in out.violations:
        print("VIOLATION property=C19 clause=%s signature=%s" % (v.clause, json.dumps(v.signature)))
    for d in out.drift:
        print("MODEL-DRIFT property=C19 %s" % d)
    return 1 if out.violations else 0
