"""C13 — cars compose in order with documented precedence; provisioning mirrors templates.

Leg M   : TLC enumerates a union of input universes of specs/Team (who defines a variable x which cars list which config
          bases x template trees / archive content x where the data paths are relative to the installation) and checks that the operational transcription of team.load_car /
          ElasticsearchInstaller.variables / _apply_config / cleanup satisfies the declarative clauses of C13; thirteen seeded
          faults of the transcription must each violate them (self-test of the formulas).
Leg S2C : TLC states (inputs) become REAL team directories (cars/v1/*.ini, <base>/config.ini, <base>/templates/** with
          Jinja templates and binary blobs) and a stub distribution tar.gz; the real team.load_car, ElasticsearchInstaller,
          BareProvisioner.prepare (1-3 nodes of one host, one after the other from the ONE composed Car object, as
          mechanic.create does), provisioner.docker(...).prepare on the same car (rendered config files, docker-compose.yml)
          and provisioner.cleanup run on them (harness/teamfs.py); a few teams with non-ASCII template text / variable values
          are also provisioned by a child interpreter under LC_ALL=C with UTF-8 mode off (harness/teamchild.py).
Leg C2S : every execution (S2C ones and seeded random, larger teams not derived from TLC) is projected to JSON (Car, variables
          handed to the templates, installation tree, directories after cleanup) and validated by TLC against TraceTeam.tla
          (L1 = clauses of C13, L2 = equality with the transcription).
"""
import hashlib
import os
import random
import re
import shutil
import tempfile
import time

from .. import teamchild, teamfs, tlc, tracecheck
from ..core import Violation
from ..tlaparse import parse_state, to_json

S, L = teamfs.S, teamfs.L

SELFTEST_ALL = ["first_base_wins", "params_first", "nodedup", "earlier_car_wins", "base_over_car", "internal_first", "overwrite", "ignore_preserve", "keep_data", "prefix_skip", "leak_defaults", "docker_car_over_defaults", "skip_blank"]


# ---------------------------------------------------------------------------------------------------
# scratch for the real team directories: tmpfs when available (thousands of small trees are created and removed)
# ---------------------------------------------------------------------------------------------------
def _case_root():
    for base in ("/dev/shm",):
        if os.path.isdir(base) and os.access(base, os.W_OK):
            try:
                d = tempfile.mkdtemp(prefix="verif-c13.", dir=base)
                import atexit

                atexit.register(lambda: shutil.rmtree(d, ignore_errors=True))
                return d
            except OSError:
                pass
    return tlc.scratch("c13fs")


# ---------------------------------------------------------------------------------------------------
# TLC state -> inp
# ---------------------------------------------------------------------------------------------------
def _map(x):
    return dict(x) if isinstance(x, dict) else {}


def inp_from_state(st):
    j = to_json(st["inp"])
    return {
        "cars": [{"name": c["name"], "kind": c["kind"], "bases": list(c["bases"]), "vars": _map(c["vars"])} for c in j["cars"]],
        "bases": {b: {"vars": _map(bd["vars"]), "tree": [dict(f) for f in bd["tree"]]} for b, bd in _map(j["bases"]).items()},
        "params": _map(j["params"]),
        "tpl": {k: list(v) for k, v in j["tpl"].items()},
        "shipped": [dict(f) for f in j["shipped"]],
        "preserve": bool(j["preserve"]),
        "nodes": 1 + len(j.get("more", [])),  # how many nodes the model provisions from the composed car
    }


# a source proposes a data path that is placed relative to the installation / the node root (universe C of MC_Team): such
# inputs are few and always executed, also in the sampled quick tier
_MULTI = re.compile(r"more\s*\|->\s*<<\s*\[")  # universe N: several nodes provisioned from the one car; always executed too
_LAYOUT = re.compile(r'data_paths\s*\|->\s*\[[^\]]*"\$(?:ES|NODE)')  # (TLC prints record fields in no fixed order)


def read_initial_states(path, keep):
    """Blocks of a TLC dump that are initial states (done = FALSE) and selected by keep(sha1 of the block text)."""
    res = []
    total = 0

    def flush(buf):
        nonlocal total
        text = "".join(buf)
        if "/\\ done = FALSE" not in text:
            return
        total += 1
        h = hashlib.sha1(text.encode("utf-8")).hexdigest()
        if keep(h) or _LAYOUT.search(text) or _MULTI.search(text):
            res.append((h, text))

    with open(path, "r", encoding="utf-8") as f:
        buf = []
        for line in f:
            if line.startswith("State ") and line.rstrip().endswith(":"):
                if buf:
                    flush(buf)
                buf = []
            else:
                buf.append(line)
        if "".join(buf).strip():
            flush(buf)
    res.sort()
    return total, [(h, inp_from_state(parse_state(t))) for h, t in res]


# ---------------------------------------------------------------------------------------------------
# seeded random teams (not derived from TLC): more cars, repeated names, more variables, deeper trees
# ---------------------------------------------------------------------------------------------------
ORDINARY = ["heap_size", "x", "y", "additional_cluster_settings", "verbose", "docker_cpu_count", "docker_mem_limit"]
INTERNAL = ["http_port", "transport_port", "node_name", "cluster_name", "network_host", "node_ip", "log_path", "heap_dump_path", "install_root_path", "all_node_ips", "all_node_names", "minimum_master_nodes", "cluster_settings", "discovery_type"]
PATHS = [
    ["config", "elasticsearch.yml"],
    ["config", "jvm.options"],
    ["config", "log4j2.properties"],
    ["config", "x-pack", "log4j2.properties"],
    ["config", "x-pack", "jvm.options"],
    ["log4j2.properties"],
    ["config", "certs", "k.p12"],
    ["config", "a", "b", "c", "deep.json"],
    ["config", "x.yaml"],
    ["config", "y.ini"],
    ["config", "z.txt"],
    ["config", "keystore"],
    ["NOTICE.txt"],
    ["lib", "t.jar"],
    ["modules", "m", "plugin-descriptor.properties"],
    ["LICENSE"],
]
TEXT_EXT = (".ini", ".txt", ".json", ".yml", ".yaml", ".options", ".properties")  # docs/car.rst: plain text templates; everything else is copied


def kind_of(path):
    return "text" if os.path.splitext(path[-1])[1] in TEXT_EXT else "binary"


def random_inp(rnd):
    bnames = rnd.sample(["vanilla", "verbose_logging", "x_pack", "unicast", "debug_base"], rnd.randint(1, 4))
    keys = ORDINARY + rnd.sample(INTERNAL, 3) + ["data_paths", "runtime.jdk"]
    counter = [0]

    def value(k):
        counter[0] += 1
        if k == "data_paths":
            return S(data_path())
        if k == "runtime.jdk":
            return S(str(rnd.choice([11, 17, 21])))
        return S("v%d" % counter[0])

    def data_path():
        # on another root, inside the ES home, siblings of the ES home named after it, next to / inside the install root
        counter[0] += 1
        n = counter[0]
        r = rnd.random()
        if r < 0.45:
            return "$DATA/d%d" % n
        return rnd.choice(["$ES-data%d", "$ES.data%d", "$ES_data%d", "$ES/inner/d%d", "$ES/data/sub%d", "$NODE/install-data%d", "$NODE/install/sibling%d", "$NODE/data%d", "$DATA/elasticsearch-9.9.9/d%d"]) % n

    def varmap(p):
        return {k: value(k) for k in keys if rnd.random() < p}

    refable = [k for k in ORDINARY + INTERNAL + ["data_paths", "undefined_variable"]]
    tpl = {"T%d" % i: rnd.sample(refable, rnd.randint(0, 6)) for i in range(1, 7)}
    tcids = sorted(tpl)
    bcids = ["B1", "B2", "B3", "B4"]
    bases = {}
    for b in bnames:
        tree = []
        for p in rnd.sample(PATHS, rnd.randint(0, 5)):
            k = kind_of(p)
            # every 6th text template renders to nothing for every variable set (teamfs.BLANK: one conditional block, a loop over
            # an empty list, an empty file) - alone at its path or appended to / before what other sources provide
            cid = rnd.choice(tcids if k == "text" else bcids)
            if k == "text" and rnd.random() < 1 / 6:
                cid = rnd.choice(sorted(teamfs.BLANK))
            tree.append({"path": list(p), "kind": k, "cid": cid})
        if rnd.random() < 0.3:
            # the same file NAME in two (three) directories of this config base, with different template text
            name = rnd.choice(["log4j2.properties", "jvm.options"])
            dirs = [["config"], ["config", "x-pack"]] + ([[]] if name == "log4j2.properties" and rnd.random() < 0.5 else [])
            cids = rnd.sample(tcids, len(dirs))
            tree = [f for f in tree if f["path"][-1] != name] + [{"path": d + [name], "kind": "text", "cid": c} for d, c in zip(dirs, cids)]
        bases[b] = {"vars": varmap(0.25), "tree": tree}
    cars_def = {}
    for i in range(rnd.randint(1, 4)):
        name = "car%d" % i
        nb = rnd.choice([0, 1, 1, 1, 2, 2, 3])
        cb = [rnd.choice(bnames) for _ in range(nb)]
        cars_def[name] = {"name": name, "kind": "car" if cb else "mixin", "bases": cb, "vars": varmap(0.3)}
    names = [rnd.choice(sorted(cars_def)) for _ in range(rnd.randint(1, 5))]
    params = {}
    for k in keys:
        if rnd.random() < 0.15:
            params[k] = value(k)
    if rnd.random() < 0.25:
        params["data_paths"] = L([data_path() for _ in range(rnd.randint(1, 3))])
    shipped = [{"path": ["config", "elasticsearch.yml"], "kind": "text", "cid": "S1"}]
    for i, p in enumerate(rnd.sample(PATHS[1:], rnd.randint(0, 5))):
        k = kind_of(p)
        shipped.append({"path": list(p), "kind": k, "cid": ("S%d" % (i + 2)) if k == "text" else rnd.choice(bcids)})
    return {
        "cars": [dict(cars_def[n]) for n in names],
        "bases": bases,
        "params": params,
        "tpl": tpl,
        "shipped": shipped,
        "preserve": rnd.random() < 0.3,
    }


# ---------------------------------------------------------------------------------------------------
def run_item(root, adir, iid, inp, seed, nodes=1):
    mat = {"seed": seed, "nodes": nodes}
    inp = {k: v for k, v in inp.items() if k != "nodes"}
    ci = teamfs.complete(inp, mat)
    out = teamfs.execute(os.path.join(root, "case"), ci, mat, adir)
    return {"id": iid, "inp": ci, "mat": mat, "out": out}


def _norm(it):
    inp = it["inp"]
    return (
        [(c["name"], c["bases"], sorted(c["vars"].items(), key=repr)) for c in inp["cars"]],
        sorted((b, sorted(bd["vars"].items(), key=repr), sorted(map(repr, bd["tree"]))) for b, bd in inp["bases"].items()),
        sorted(inp["params"].items(), key=repr),
        sorted(map(repr, inp["shipped"])),
        inp["preserve"],
        len(inp["more"]),
    )


def _dp_kind(p):
    if p.startswith("$ES/"):
        return "inside_es_home"
    if p.startswith("$ES"):
        return "sibling_named_after_es_home"
    if p.startswith("$NODE/install"):
        return "at_install_root"
    return "elsewhere"


def _sig(it, clauses):
    inp = it["inp"]
    mentions = [b for c in inp["cars"] for b in c["bases"]]
    return {
        "clauses": sorted(clauses),
        "err": it["out"]["err"],
        "cars": len(inp["cars"]),
        "base_mentioned_twice": len(set(mentions)) != len(mentions),
        "car_params": bool(inp["params"]),
        "preserve": inp["preserve"],
        "data_path_kinds": sorted({_dp_kind(p) for p in it["out"]["dataPaths"]}),
        "nodes": 1 + len(inp["more"]),
        "locale": it.get("mat", {}).get("locale", "utf-8"),
    }


def _detail(it):
    inp = it["inp"]
    later = ""
    if it["out"]["more"]:
        added = sorted(set(it["out"]["varsAfter"]) - set(it["out"]["vars"]))
        later = " later_nodes=%s car_keys_added_by_provisioning=%s" % ([(r["err"], r["home"], r["dataPaths"]) for r in it["out"]["more"]], added)
    return "cars=%s params=%s preserve=%s err=%s paths=%s data_paths=%s left_after_cleanup=%s%s" % (
        [(c["name"], c["bases"]) for c in inp["cars"]],
        sorted(inp["params"]),
        inp["preserve"],
        it["out"]["err"],
        it["out"]["paths"],
        it["out"]["dataPaths"],
        sorted(p for p, e in it["out"]["after"]["exists"].items() if e),
        later + (" docker=%s locale=%s" % (it["out"]["docker"]["err"], it.get("mat", {}).get("locale", "utf-8"))),
    )


def run(ctx, out):
    out.rule = (
        "case = (car list with each car's config bases and variables, config bases with variables and template trees, car params, "
        "archive content, preserve flag); distinct by hash of that description; non-trivial = the cars load (at least one config base) "
        "and at least one template file exists. Sources: states of the TLC state space of Team.tla (quick: deterministic 1/5 sample "
        "by state hash; thorough: 2/3; inputs with special data path layouts or several nodes always), seeded random larger teams (C2S only)."
    )
    out.assumptions = [
        "file kinds follow the documented rule (extension in .ini .txt .json .yml .yaml .options .properties = text template, else binary); a path has the same kind in every config base",
        "templates are single lines referring to variables as {{name}} (data_paths through the join filter); jinja2 itself, configparser, tarfile and the file system are trusted",
        "no plugins, no bootstrap hooks (config.py) in the generated teams; java home is not needed by prepare and passed as None",
        "Rally's own node variables are checked against their documented derivation from the start arguments (ip, port, names, node root)",
        "config base variables among themselves: both 'every car applies its bases when applied' (the code) and 'duplicate-free list order' are accepted at L1",
        "cleanup is called as mechanic.stop / stop_engine call it: cleanup(preserve, node_config.binary_path, node_config.data_paths)",
    ]
    quick = ctx.quick
    # ---- leg M
    cfg = "Team.quick.cfg" if quick else "Team.thorough.cfg"
    wd = tlc.prepare_workdir("Team", "c13mc")
    dump = os.path.join(wd, "states")
    res = tlc.run_tlc(wd, "MC_Team", cfg, workers=8, timeout=240 if quick else 1200, dump=dump, allow_violation=True)
    out.add_tlc(res)
    if not res.ok:
        raise tlc.MachineryError("model violates %s (%s)" % (res.invariant_violated, res.out[-1500:]))
    out.note("leg M %s: %d distinct states in %.1fs" % (cfg, res.distinct, res.wall_s))
    caught = []
    # quick: two of the seeded faults (which ones depends on the seed only), thorough: all of them
    n_all = len(SELFTEST_ALL)
    for variant in [SELFTEST_ALL[(2 * ctx.seed + i) % n_all] for i in (n_all - 2, n_all - 1)] if quick else SELFTEST_ALL:
        wd2 = tlc.prepare_workdir("Team", "c13self")
        with open(os.path.join(wd2, "Team.selftest.cfg"), "r", encoding="utf-8") as f:
            txt = f.read().replace("@VARIANT@", variant)
        with open(os.path.join(wd2, "Team.selftest.cfg"), "w", encoding="utf-8") as f:
            f.write(txt)
        r2 = tlc.run_tlc(wd2, "MC_Team", "Team.selftest.cfg", workers=4, timeout=240, allow_violation=True)
        if r2.invariant_violated != "PropertyHolds":
            raise tlc.MachineryError("self-test failed: seeded fault %s of the model does not violate PropertyHolds" % variant)
        caught.append(variant)
        shutil.rmtree(wd2, ignore_errors=True)
    out.extra["model_selftest"] = "seeded faults of the transcription that violate PropertyHolds in the model, as expected: %s" % ", ".join(caught)

    t_self = time.time()
    # ---- leg S2C
    dpath = dump + ".dump" if os.path.exists(dump + ".dump") else dump
    # quick: 1/5 of the inputs, thorough: 2/3 (each execution now provisions up to 3 bare nodes and a Docker node), chosen by state hash
    if quick:
        keep = lambda h: int(h[:8], 16) % 5 == ctx.seed % 5
    else:
        keep = lambda h: int(h[:8], 16) % 3 != ctx.seed % 3
    total, states = read_initial_states(dpath, keep)
    out.exhaustive = False
    out.note("leg S2C: %d of %d TLC inputs selected" % (len(states), total))
    if not states:
        raise tlc.MachineryError("no TLC state selected for S2C")
    root = _case_root()
    adir = os.path.join(root, "archives")
    items = []
    t_exec = time.time()
    try:
        for n, (h, inp) in enumerate(states):
            # universe N says how many nodes; every 4th other input is provisioned twice from its car as well
            nodes = inp["nodes"] if inp["nodes"] > 1 else (2 if int(h[14:16], 16) % 4 == 0 else 1)
            it = run_item(root, adir, "s%d" % n, inp, int(h[8:14], 16), nodes)
            items.append(it)
        # ---- seeded random teams
        rnd = random.Random(ctx.seed + 13)
        for n in range(300 if quick else 4000):
            it = run_item(root, adir, "r%d" % n, random_inp(rnd), rnd.randrange(1 << 20), rnd.choice([1, 1, 1, 2, 2, 3]))
            items.append(it)
        # ---- locale leg: a few teams with non-ASCII characters in template text (the delimiters around every rendered value)
        # and in variable values (car params) are provisioned in-process (UTF-8) AND by a child interpreter with LC_ALL=C,
        # UTF-8 mode off: what is written must not depend on the locale (file content is compared as UTF-8 decoded bytes)
        rnd2 = random.Random(ctx.seed + 1313)
        loc = []
        while len(loc) < (6 if quick else 40):
            inp = random_inp(rnd2)
            ment = {b for c in inp["cars"] for b in c["bases"]}
            if not any(f["kind"] == "text" for b in ment for f in inp["bases"][b]["tree"]):
                continue
            inp["params"]["x"] = S("x-\u00fc\u20ac-%d" % len(loc))
            inp["params"]["verbose"] = S("\u00fcn\u00ef \u4e2d")
            for refs in inp["tpl"].values():
                for k2 in ("x", "verbose"):
                    if k2 not in refs:
                        refs.append(k2)
            it = run_item(root, adir, "u%d" % len(loc), inp, rnd2.randrange(1 << 20), rnd2.choice([1, 2]))
            loc.append(it)
            items.append(it)
        child_cases = [{"inp": it["inp"], "mat": dict(it["mat"], locale="C")} for it in loc]
        enc, outs = teamchild.run_cases(child_cases, os.path.join(root, "child"))
        if "utf" in enc.lower() or len(outs) != len(loc):
            out.vacuous.append("child interpreter does not run with a non-UTF-8 locale (%s)" % enc)
        for n, (c, o) in enumerate(zip(child_cases, outs)):
            items.append({"id": "c%d" % n, "inp": c["inp"], "mat": c["mat"], "out": o})
        out.extra["locale_leg"] = {"cases": len(loc), "child_encoding": enc}
    finally:
        shutil.rmtree(root, ignore_errors=True)
    # coverage of the interesting situations, judged by the INPUTS (never by what the code under test produced)
    def feats(inp):
        ment = []
        for c in inp["cars"]:
            for b in c["bases"]:
                if b not in ment:
                    ment.append(b)
        n_ment = sum(len(c["bases"]) for c in inp["cars"])
        prov = {}
        for b in ment:
            for f in inp["bases"][b]["tree"]:
                if f["kind"] == "text":
                    prov[tuple(f["path"])] = prov.get(tuple(f["path"]), 0) + 1
        for f in inp["shipped"]:
            if f["kind"] == "text" and f["path"][0] != "config" and tuple(f["path"]) in prov:
                prov[tuple(f["path"])] += 1
        samename = False
        for b in ment:
            by = {}
            for f in inp["bases"][b]["tree"]:
                if f["kind"] == "text":
                    by.setdefault(f["path"][-1], set()).add(f["cid"])
            samename = samename or any(len(v) > 1 for v in by.values())
        # a path at which every provider is a template that renders to nothing (and the archive ships nothing that stays there)
        cids_at = {}
        for b in ment:
            for f in inp["bases"][b]["tree"]:
                if f["kind"] == "text":
                    cids_at.setdefault(tuple(f["path"]), []).append(f["cid"])
        kept = {tuple(f["path"]) for f in inp["shipped"] if f["path"][0] != "config"}
        blank_only = any(all(c in teamfs.BLANK for c in cs) and p not in kept for p, cs in cids_at.items())
        blank_mixed = any(any(c in teamfs.BLANK for c in cs) and not all(c in teamfs.BLANK for c in cs) for cs in cids_at.values())
        dp = "data_paths" in inp["params"] or any("data_paths" in c["vars"] for c in inp["cars"]) or any("data_paths" in inp["bases"][b]["vars"] for b in ment)
        win = None  # the data paths that win (params over later car over earlier car; those of config bases are not needed here)
        for c in inp["cars"]:
            win = c["vars"].get("data_paths", win)
        win = inp["params"].get("data_paths", win)
        sib = bool(ment) and not inp["preserve"] and win is not None and any(x.startswith("$ES") and not x.startswith("$ES/") for x in win["v"])
        return {"nobase": not ment, "dup": n_ment != len(ment), "app": any(v > 1 for v in prov.values()), "ext": bool(ment) and dp, "pres": bool(ment) and inp["preserve"], "sib": sib, "samename": samename, "blank_only": blank_only, "blank_mixed": blank_mixed}

    fs = [feats(it["inp"]) for it in items]
    for it, f in zip(items, fs):
        multi = len(it["inp"]["more"]) > 0 and not f["nobase"]
        f["multi"] = multi
        f["multi_default_dp"] = multi and not f["ext"]  # the later node has to get ITS OWN default data path
        inp = it["inp"]
        defined = set(inp["params"]) | {k2 for c in inp["cars"] for k2 in c["vars"]}
        f["docker_collision"] = not f["nobase"] and bool(defined & set(inp["docker"]["vars"]))
        f["docker_plain"] = not f["nobase"] and not (defined & set(inp["docker"]["vars"]))
    for it, f in zip(items, fs):
        out.add_case(_norm(it), nontrivial=not f["nobase"] and any(bd["tree"] for bd in it["inp"]["bases"].values()))
    n_err, n_dup, n_app, n_ext, n_pres, n_sib, n_multi, n_mdd = (sum(1 for f in fs if f[k2]) for k2 in ("nobase", "dup", "app", "ext", "pres", "sib", "multi", "multi_default_dp"))
    n_dcol, n_dplain, n_same = (sum(1 for f in fs if f[k2]) for k2 in ("docker_collision", "docker_plain", "samename"))
    n_blank, n_bmix = (sum(1 for f in fs if f[k2]) for k2 in ("blank_only", "blank_mixed"))
    out.extra["executions"] = {"total": len(items), "file_whose_only_templates_render_to_nothing": n_blank, "empty_rendering_appended_to_or_before_other_text": n_bmix, "no_config_base": n_err, "config_base_mentioned_twice": n_dup, "file_appended_by_several_sources": n_app, "user_data_paths": n_ext, "data_path_sibling_named_after_es_home_wiped": n_sib, "preserve_install": n_pres, "several_nodes_from_one_car": n_multi, "several_nodes_default_data_paths": n_mdd, "docker_car_collides_with_node_variable": n_dcol, "docker_no_collision": n_dplain, "same_file_name_in_two_directories_of_one_base": n_same}
    for name, cnt in (("a file whose only templates render to nothing", n_blank), ("an empty rendering appended to / before other text", n_bmix), ("appended files", n_app), ("the same template file name in two directories of one config base", n_same), ("Docker provisioning of a car that defines a node variable name", n_dcol), ("Docker provisioning without name collision", n_dplain), ("several nodes provisioned from one car", n_multi), ("several nodes from one car that defines no data_paths", n_mdd), ("data path that is a name-prefix sibling of the ES home (cleanup without preserve)", n_sib), ("duplicate base mentions", n_dup), ("external data paths", n_ext), ("preserve", n_pres), ("no-base errors", n_err)):
        if cnt == 0:
            out.vacuous.append("no executed case with " + name)
    mid = items[len(items) // 2]
    out.sample({"cars": [(c["name"], c["bases"], {k2: v["v"] for k2, v in c["vars"].items()}) for c in mid["inp"]["cars"]], "params": {k2: v["v"] for k2, v in mid["inp"]["params"].items()}, "config_paths": mid["out"]["paths"], "variables": {k2: v["v"] for k2, v in mid["out"]["vars"].items()}, "files": ["/".join(e["path"]) for e in mid["out"]["tree"]], "after_cleanup": mid["out"]["after"]})
    last = next((it for it in reversed(items) if it["out"]["err"] == "none"), items[-1])
    out.sample({"random_team": {"cars": [(c["name"], c["bases"]) for c in last["inp"]["cars"]], "config_paths": last["out"]["paths"], "err": last["out"]["err"], "tree": [("/".join(e["path"]), [s["t"] for s in e["content"]]) for e in last["out"]["tree"]], "data_paths": last["out"]["dataPaths"], "preserve": last["inp"]["preserve"], "after_cleanup": last["out"]["after"]}})

    t_val = time.time()
    # ---- leg C2S
    titems = [{"id": it["id"], "inp": it["inp"], "out": it["out"]} for it in items]
    index = {it["id"]: it for it in items}
    verdicts = tracecheck.validate("Team", "TraceTeam", "TraceTeam.cfg", titems, name="c13trace", chunk=1500, timeout=900)
    out.traces_validated += verdicts.accepted(len(titems))
    out.note("timing (informative only): dump read %.1fs, %d executions %.1fs, trace validation %.1fs" % (t_exec - t_self, len(items), t_val - t_exec, time.time() - t_val))
    for tid, fails in sorted(verdicts.l1.items()):
        it = index[tid]
        clauses = sorted({c for _, cl in fails for c in cl})
        case = {"inp": it["inp"], "mat": it["mat"]}
        out.violations.append(Violation(",".join(clauses), case, signature=_sig(it, clauses), detail=_detail(it)))
    for tid in sorted(verdicts.l2):
        out.drift.append("case %s: result differs from the transcription of load_car/prepare/cleanup (%s)" % (tid, _detail(index[tid])))


def replay(ctx, case):
    root = _case_root()
    try:
        if case["mat"].get("locale") == "C":
            out = teamchild.run_cases([case], os.path.join(root, "child"))[1][0]
        else:
            out = teamfs.execute(os.path.join(root, "case"), case["inp"], case["mat"], os.path.join(root, "archives"))
    finally:
        shutil.rmtree(root, ignore_errors=True)
    it = {"id": "replay", "inp": case["inp"], "out": out}
    v = tracecheck.validate("Team", "TraceTeam", "TraceTeam.cfg", [it], name="c13replay")
    for tid, fails in v.l1.items():
        print("VIOLATION property=C13 clause=%s err=%s paths=%s vars=%s tree=%s after=%s" % (fails[0][1], out["err"], out["paths"], {k: x["v"] for k, x in out["vars"].items()}, [("/".join(e["path"]), e["content"]) for e in out["tree"]], out["after"]))
    if not v.l1:
        print("replay: no L1 violation (L2 drift: %s)" % bool(v.l2))
    return 1 if v.l1 else 0
