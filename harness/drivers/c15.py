"""C15 — the track/team branch used is the documented best match for the ES version.

Leg M   : TLC enumerates every subset of a branch universe x every version (BranchMatch.tla), checks that the
          transcription of versions.best_match equals the documented precedence and the corollaries.
Leg S2C : every TLC state (dump) is one call of the real versions.best_match; a sample is materialised as real git
          repositories (bare-ish remote + clone, local branches, v-tags) and run through RallyRepository.update.
Leg C2S : recorded (input, result) pairs, also seeded random ones with wider numbers, validated by TLC
          against TraceBranchMatch.tla (L1 documented precedence, L2 transcription).
"""
import os
import random
import shutil
import subprocess

from .. import tlc, tracecheck
from ..core import Violation
from ..tlaparse import parse_dump, to_json

SUFFIX = {"": "", "s1": "SNAPSHOT", "s2": "beta1", "s3": "rc2"}
OTHER = {"x": "7.x", "y": "my-feature", "z": "v7.1", "p": "backport/7.3", "q": "alice/8"}


def branch_str(b):
    if b["k"] == "master":
        return "master"
    if b["k"] == "other":
        return OTHER[b["suf"]]
    s = str(b["maj"])
    if b["min"] != -1:
        s += ".%d" % b["min"]
    if b["pat"] != -1:
        s += ".%d" % b["pat"]
    if b["suf"]:
        s += "-" + SUFFIX[b["suf"]]
    return s


def version_str(v, rnd):
    if v["k"] == "full":
        s = "%d.%d.%d" % (v["maj"], v["min"], v["pat"])
        if v["suf"]:
            s += "-" + SUFFIX[v["suf"]]
        return s
    if v["k"] == "serverless":
        return "serverless"
    if v["k"] == "empty":
        return rnd.choice([None, ""])
    return rnd.choice(["7.1", "abc", "7", "7.1.x"])


NONE = {"k": "none", "maj": -1, "min": -1, "pat": -1, "suf": ""}
MASTER = {"k": "master", "maj": -1, "min": -1, "pat": -1, "suf": ""}


def parse_branch(s, kind="v"):
    """Inverse of branch_str for results returned by the implementation."""
    if s is None:
        return dict(NONE)
    if s == "master":
        return dict(MASTER)
    for k, name in OTHER.items():
        if s == name:
            return {"k": "other", "maj": -1, "min": -1, "pat": -1, "suf": k}
    suf = ""
    core = s
    if "-" in s:
        core, sufs = s.split("-", 1)
        inv = {v: k for k, v in SUFFIX.items()}
        if sufs not in inv:
            return {"k": "other", "maj": -1, "min": -1, "pat": -1, "suf": "unparsed:" + s}
        suf = inv[sufs]
    parts = core.split(".")
    try:
        nums = [int(p) for p in parts]
    except ValueError:
        return {"k": "other", "maj": -1, "min": -1, "pat": -1, "suf": "unparsed:" + s}
    nums += [-1] * (3 - len(nums))
    return {"k": kind, "maj": nums[0], "min": nums[1], "pat": nums[2], "suf": suf}


def call_best_match(B, v, rnd):
    from esrally.utils import versions

    names = [branch_str(b) for b in B]
    rnd.shuffle(names)
    res = versions.best_match(names, version_str(v, rnd))
    return parse_branch(res)


# ---------------------------------------------------------------------------------------------------
# real git repositories
# ---------------------------------------------------------------------------------------------------
def _git(cwd, *args):
    env = dict(os.environ, GIT_AUTHOR_NAME="v", GIT_AUTHOR_EMAIL="v@example.org", GIT_COMMITTER_NAME="v", GIT_COMMITTER_EMAIL="v@example.org", GIT_CONFIG_NOSYSTEM="1", HOME=cwd)
    p = subprocess.run(("git", "-C", cwd) + args, stdout=subprocess.PIPE, stderr=subprocess.STDOUT, env=env, check=False)
    if p.returncode != 0:
        raise tlc.MachineryError("git %s failed in %s: %s" % (" ".join(args), cwd, p.stdout.decode()[-500:]))
    return p.stdout.decode().strip()


def _init_repo(path, branches, distinct=False):
    """distinct: every branch gets a commit of its own changing the tracked file `content` (so that an uncommitted edit of that
    file makes `git checkout <other branch>` fail)."""
    os.makedirs(path)
    _git(path, "init", "-q", "-b", "master")
    _git(path, "config", "user.email", "v@example.org")
    _git(path, "config", "user.name", "v")
    with open(os.path.join(path, "README"), "w") as f:
        f.write("x\n")
    _git(path, "add", "README")
    if distinct:
        with open(os.path.join(path, "content"), "w") as f:
            f.write("master\n")
        _git(path, "add", "content")
    _git(path, "commit", "-q", "-m", "init")
    for b in branches:
        if b != "master":
            _git(path, "branch", b)
            if distinct:
                _git(path, "checkout", "-q", b)
                with open(os.path.join(path, "content"), "w") as f:
                    f.write(b + "\n")
                _git(path, "commit", "-q", "-a", "-m", "content of " + b)
                _git(path, "checkout", "-q", "master")


LAST = {"revOk": True}  # side channel of run_update: the revision RallyRepository recorded is the commit that is checked out


def run_update(root, has_remote, R, L, T, v, rnd, dirty=False, deleted=()):
    """Builds real repositories for (remote branches R, local branches L, tags T) and runs RallyRepository.update.
    dirty (needs has_remote, L = {master}): every remote branch has its own version of a tracked file, the working copy is on
    master with an UNCOMMITTED edit of that file: checking out another branch fails."""
    from esrally import exceptions
    from esrally.utils import repo

    shutil.rmtree(root, ignore_errors=True)
    os.makedirs(root)
    vs = version_str(v, rnd)
    if has_remote:
        remote = os.path.join(root, "remote")
        _init_repo(remote, [branch_str(b) for b in R] + [branch_str(b) for b in deleted], distinct=dirty)
        rr = repo.RallyRepository(remote_url=remote, root_dir=os.path.join(root, "home"), repo_name="default", resource_name="tracks", offline=False)
        # history: branches that existed when the repository was cloned have been deleted upstream since
        for b in deleted:
            _git(remote, "branch", "-q", "-D", branch_str(b))
        if deleted:
            # the NEXT Rally run: a new RallyRepository on the existing clone (it fetches when it is constructed)
            rr = repo.RallyRepository(remote_url=remote, root_dir=os.path.join(root, "home"), repo_name="default", resource_name="tracks", offline=False)
        local = os.path.join(root, "home", "default")
        _git(local, "config", "user.email", "v@example.org")
        _git(local, "config", "user.name", "v")
        for b in L:
            if b["k"] != "master":
                _git(local, "branch", branch_str(b))
    else:
        local = os.path.join(root, "home", "default")
        _init_repo(local, [branch_str(b) for b in L])
        rr = repo.RallyRepository(remote_url=None, root_dir=os.path.join(root, "home"), repo_name="default", resource_name="tracks", offline=False)
    # every tag gets a commit of its own so that the checked-out tag is identified by HEAD
    for t in T:
        _git(local, "checkout", "-q", "--detach", "master")
        _git(local, "commit", "-q", "--allow-empty", "-m", "tag " + branch_str(t))
        _git(local, "tag", "v" + branch_str(t))
    if dirty:
        _git(local, "checkout", "-q", "master")
        with open(os.path.join(local, "content"), "w") as f:
            f.write("uncommitted local edit\n")
    else:
        # start from a detached HEAD on a commit of its own so that "nothing checked out" is distinguishable
        _git(local, "checkout", "-q", "--detach", "master")
        _git(local, "commit", "-q", "--allow-empty", "-m", "start")
    LAST["revOk"] = True
    try:
        rr.update(vs)
    except exceptions.RallyError:
        # SystemSetupError "Cannot find ..." or InvalidSyntax for a version string that is no version: an explicit error
        return dict(NONE)
    # the revision Rally records (it is what a later load of the same race configuration checks out again) is the commit in use
    rev = getattr(rr, "revision", None)
    if rev:
        head = _git(local, "rev-parse", "HEAD")
        LAST["revOk"] = head.startswith(str(rev)) or str(rev).startswith(head)
    cur = _git(local, "rev-parse", "--abbrev-ref", "HEAD")
    if cur != "HEAD":
        return parse_branch(cur)
    tags = _git(local, "tag", "--points-at", "HEAD").split()
    if len(tags) == 1 and tags[0].startswith("v"):
        return parse_branch(tags[0][1:], kind="tag")
    return {"k": "other", "maj": -1, "min": -1, "pat": -1, "suf": "detached:%s" % ",".join(tags)}


# ---------------------------------------------------------------------------------------------------
def _sig(item, clauses):
    out = item["out"]
    v = item["v"]
    sig = {"kind": item["kind"], "clauses": sorted(clauses)}
    b = item.get("B") or (item.get("R", []) + item.get("L", []))
    if v["k"] == "full":
        zero_minor = any(x["k"] == "v" and x["maj"] == v["maj"] and x["min"] == 0 and x["pat"] == -1 for x in b)
        sig["prior_minor_zero_involved"] = bool(zero_minor and out["k"] != "v")
    return sig


def random_items(seed, n):
    rnd = random.Random(seed)
    items = []
    for i in range(n):
        majors = rnd.sample(range(1, 13), 3)
        B = [dict(MASTER)]
        for _ in range(rnd.randint(0, 8)):
            maj = rnd.choice(majors)
            kind = rnd.random()
            if kind < 0.25:
                b = {"k": "v", "maj": maj, "min": -1, "pat": -1, "suf": ""}
            elif kind < 0.65:
                b = {"k": "v", "maj": maj, "min": rnd.choice([0, 0, 1, 2, 9, 10, 11, 17]), "pat": -1, "suf": ""}
            elif kind < 0.85:
                b = {"k": "v", "maj": maj, "min": rnd.choice([0, 1, 10]), "pat": rnd.choice([0, 1, 3]), "suf": ""}
            elif kind < 0.95:
                b = {"k": "v", "maj": maj, "min": rnd.choice([0, 1, 10]), "pat": rnd.choice([0, 1, 3]), "suf": rnd.choice(["s1", "s2", "s3"])}
            else:
                b = {"k": "other", "maj": -1, "min": -1, "pat": -1, "suf": rnd.choice(list(OTHER))}
            if b not in B:
                B.append(b)
        r = rnd.random()
        if r < 0.9:
            v = {"k": "full", "maj": rnd.choice(majors + [rnd.randint(1, 13)]), "min": rnd.choice([0, 1, 2, 9, 10, 11, 12, 17, 18]), "pat": rnd.choice([0, 1, 3]), "suf": rnd.choice(["", "", "s1", "s2"])}
        else:
            v = {"k": rnd.choice(["serverless", "empty", "malformed"]), "maj": -1, "min": -1, "pat": -1, "suf": ""}
        items.append({"id": "rnd-%d" % i, "kind": "bm", "B": B, "v": v, "out": call_best_match(B, v, rnd)})
    return items


def run(ctx, out):
    out.rule = (
        "case = (set of branch names, distribution version); distinct by hash; non-trivial = at least one versioned branch besides master. "
        "Sources: every state of the TLC state space of BranchMatch.tla (S2C, exhaustive over the bounded universe), "
        "seeded random sets with wider numbers (C2S only), real git repositories for RallyRepository.update."
    )
    out.assumptions = [
        "branch names follow MAJOR[.MINOR[.PATCH[-SUFFIX]]] or are unrelated names; a master branch always exists",
        "git itself is trusted (real git 2.39 is used for the repository leg)",
        "'unknown' version = None/empty string/'serverless'; a string that is not MAJOR.MINOR.PATCH[-SUFFIX] qualifies for nothing",
    ]
    rnd = random.Random(ctx.seed + 15)
    cfg = "BranchMatch.quick.cfg" if ctx.quick else "BranchMatch.thorough.cfg"
    wd = tlc.prepare_workdir("BranchMatch", "c15mc")
    dump = os.path.join(wd, "states.dump")
    res = tlc.run_tlc(wd, "MC_BranchMatch", cfg, timeout=1500, dump=dump, allow_violation=True)
    out.add_tlc(res)
    if not res.ok:
        raise tlc.MachineryError("model violates %s (%s)" % (res.invariant_violated, res.out[-1500:]))
    out.note("leg M %s: %d distinct states in %.1fs" % (cfg, res.distinct, res.wall_s))
    wd2 = tlc.prepare_workdir("BranchMatch", "c15pinned")
    res2 = tlc.run_tlc(wd2, "MC_BranchMatch", "BranchMatch.pinned.cfg", timeout=600, allow_violation=True)
    if res2.invariant_violated != "PropertyHolds":
        raise tlc.MachineryError("self-test failed: pinned (pre-fix) variant of the model does not violate the property")
    out.extra["model_selftest"] = "pinned variant (MinorZeroFix=FALSE) violates PropertyHolds in the model, as expected"

    # ---- S2C: every evaluated state is one call of the real function
    items = []
    states = []
    for st in parse_dump(dump + ".dump" if os.path.exists(dump + ".dump") else dump):
        if not st["done"]:
            continue
        st["B"] = [{k: (str(x) if isinstance(x, str) else x) for k, x in dict(b).items()} for b in sorted(st["B"], key=repr)]
        st["v"] = to_json(st["v"])
        states.append(st)
    # TLC's dump order depends on worker scheduling: make the order canonical so that every random choice is reproducible
    states.sort(key=lambda st: (repr(st["v"]), repr(st["B"])))
    if not ctx.quick and len(states) > 400000:
        # keep the run within budget: deterministic sample of the exhaustive table
        states = [s for i, s in enumerate(states) if i % 3 == ctx.seed % 3]
        out.note("thorough: 1/3 sample of the state table replayed on the implementation")
    else:
        out.exhaustive = True
    for n, st in enumerate(states):
        B = [dict(b) for b in st["B"]]
        v = dict(st["v"])
        o = call_best_match(B, v, rnd)
        items.append({"id": "s%d" % n, "kind": "bm", "B": B, "v": v, "out": o})
        out.add_case(("bm", sorted(map(branch_str, B)), v), nontrivial=len(B) > 1)
    out.note("leg S2C: %d TLC states replayed on versions.best_match" % len(items))
    out.sample({"branches": sorted(map(branch_str, items[len(items) // 2]["B"])), "version": items[len(items) // 2]["v"], "result": branch_str(items[len(items) // 2]["out"]) if items[len(items) // 2]["out"]["k"] != "none" else None})
    # ---- random wider cases
    rnd_items = random_items(ctx.seed, 2000 if ctx.quick else 30000)
    for it in rnd_items:
        out.add_case(("bm", sorted(map(branch_str, it["B"])), it["v"]), nontrivial=len(it["B"]) > 1)
    # ---- real git repositories
    git_items = []
    k = 40 if ctx.quick else 400
    root = os.path.join(tlc.scratch("c15git"), "case")
    full = [s for s in states if s["v"]["k"] == "full"]
    for gi in range(k):
        a, b, c = rnd.choice(full), rnd.choice(states), rnd.choice(states)
        R = [dict(x) for x in a["B"]]
        L = [dict(x) for x in b["B"]] if rnd.random() < 0.6 else [dict(MASTER)]
        T = [dict(x) for x in c["B"] if x["k"] == "v"] if rnd.random() < 0.7 else []
        v = dict(a["v"]) if rnd.random() < 0.8 else dict(rnd.choice(states)["v"])
        has_remote = rnd.random() < 0.5
        if has_remote and v["k"] == "full" and rnd.random() < 0.6:
            # adversarial unrelated branch names: a path-like branch whose LAST component looks like the wanted version
            OTHER["p"] = "backport/%d.%d" % (v["maj"], v["min"])
            OTHER["q"] = "alice/%d" % v["maj"]
            for oid in ("p", "q"):
                if rnd.random() < 0.7:
                    R.append({"k": "other", "maj": -1, "min": -1, "pat": -1, "suf": oid})
        if not has_remote:
            R = []
            if rnd.random() < 0.5:
                L = [dict(x) for x in a["B"]]
        # history: in a third of the remote cases one more versioned branch existed at clone time and was deleted upstream later
        deleted = []
        if has_remote and rnd.random() < 0.35:
            # preferably a branch that WOULD be the best match if it still existed (exact minor, else the bare major)
            cand = [x for x in rnd.choice(full)["B"] if x["k"] == "v" and x not in R and x not in L]
            if v["k"] == "full":
                exact = [{"k": "v", "maj": v["maj"], "min": v["min"], "pat": -1, "suf": ""}, {"k": "v", "maj": v["maj"], "min": -1, "pat": -1, "suf": ""}]
                pref = [x for x in exact if x not in R and x not in L]
                if pref and rnd.random() < 0.8:
                    cand = pref[:1]
            if cand:
                deleted = [dict(rnd.choice(cand))]
        o = run_update(root, has_remote, R, L, T, v, rnd, deleted=deleted)
        git_items.append({"id": "g%d" % gi, "kind": "up", "hasRemote": has_remote, "R": R, "L": L, "T": T, "v": v, "out": o, "revOk": LAST["revOk"], "deleted": deleted, "other_names": {"p": OTHER["p"], "q": OTHER["q"]}})
        out.add_case(("up", has_remote, sorted(map(branch_str, R)), sorted(map(branch_str, L)), sorted(map(branch_str, T)), v))
    # ---- tag fallback with tags whose TEXT is a prefix of the version without being one of its variants (v7.1 and 7.10.2, v1 and
    # 17.x, v7.10.1 and 7.10.12): no branch qualifies (master + a later major only), so the v-tags decide
    for gi in range(12 if ctx.quick else 120):
        maj = rnd.choice([7, 17, 12])
        mnr = rnd.choice([10, 11, 17, 1])
        pat = rnd.choice([2, 10, 12])
        v = {"k": "full", "maj": maj, "min": mnr, "pat": pat, "suf": rnd.choice(["", "", "s1"])}

        def tv(a, b=-1, c=-1):
            return {"k": "v", "maj": a, "min": b, "pat": c, "suf": ""}

        near = [tv(maj, mnr // 10)] if mnr >= 10 else [tv(maj, mnr * 10 + 1)]
        if maj >= 10:
            near += [tv(maj // 10), tv(maj // 10, mnr)]
        if pat >= 10:
            near += [tv(maj, mnr, pat // 10)]
        genuine = [tv(maj), tv(maj, mnr), tv(maj, mnr, pat)]
        T = [x for x in near if rnd.random() < 0.8] + [x for x in genuine if rnd.random() < 0.35]
        T = [x for i, x in enumerate(T) if x not in T[:i]]
        L = [dict(MASTER), tv(maj + 1)] + ([tv(maj + 1, 0)] if rnd.random() < 0.5 else [])
        has_remote = rnd.random() < 0.5
        R = [dict(x) for x in L] if has_remote else []
        o = run_update(root, has_remote, R, L, T, v, rnd)
        git_items.append({"id": "t%d" % gi, "kind": "up", "hasRemote": has_remote, "R": R, "L": L, "T": T, "v": v, "out": o, "revOk": LAST["revOk"], "deleted": [], "other_names": {"p": OTHER["p"], "q": OTHER["q"]}})
        out.add_case(("up-tags", has_remote, sorted(map(branch_str, L)), sorted(map(branch_str, T)), v))
    # ---- a working copy with uncommitted changes, left on master by an earlier run: Rally either ends on the documented best
    # match or reports an error - it never goes on with another branch
    for gi in range(16 if ctx.quick else 160):
        a, c = rnd.choice(full), rnd.choice(states)
        R = [dict(x) for x in a["B"] if x["k"] in ("v", "master")]
        if not any(x["k"] == "master" for x in R):
            R.append(dict(MASTER))
        T = [dict(x) for x in c["B"] if x["k"] == "v"] if rnd.random() < 0.3 else []
        v = dict(a["v"])
        o = run_update(root, True, R, [dict(MASTER)], T, v, rnd, dirty=True)
        git_items.append({"id": "d%d" % gi, "kind": "updirty", "hasRemote": True, "R": R, "L": [dict(MASTER)], "T": T, "v": v, "out": o, "revOk": LAST["revOk"], "deleted": [], "other_names": {"p": OTHER["p"], "q": OTHER["q"]}})
        out.add_case(("updirty", sorted(map(branch_str, R)), sorted(map(branch_str, T)), v))
    shutil.rmtree(root, ignore_errors=True)
    out.sample({"git": {"remote": sorted(map(branch_str, git_items[0]["R"])), "local": sorted(map(branch_str, git_items[0]["L"])), "tags": sorted(map(branch_str, git_items[0]["T"])), "version": git_items[0]["v"], "checked_out": git_items[0]["out"]}})
    out.extra["git_repositories"] = len(git_items)
    # ---- C2S
    allitems = items + rnd_items + git_items
    index = {it["id"]: it for it in allitems}
    verdicts = tracecheck.validate("BranchMatch", "TraceBranchMatch", "TraceBranchMatch.cfg", allitems, name="c15trace", chunk=100000)
    out.traces_validated += verdicts.accepted(len(allitems))
    for tid, fails in verdicts.l1.items():
        it = index[tid]
        clauses = sorted({c for _, cl in fails for c in cl})
        out.violations.append(Violation(",".join(clauses), it, signature=_sig(it, clauses), detail="branches=%s version=%s result=%s" % (sorted(map(branch_str, it.get("B", it.get("R", []) + it.get("L", [])))), it["v"], it["out"])))
    for tid in verdicts.l2:
        out.drift.append("case %s: result differs from the transcription of best_match" % tid)


def replay(ctx, case):
    from ..core import Outcome

    rnd = random.Random(0)
    it = dict(case)
    if it["kind"] == "bm":
        it["out"] = call_best_match(it["B"], it["v"], rnd)
    else:
        OTHER.update(it.get("other_names", {}))
        it["out"] = run_update(os.path.join(tlc.scratch("c15git"), "case"), it["hasRemote"], it["R"], it["L"], it["T"], it["v"], rnd, dirty=it["kind"] == "updirty", deleted=it.get("deleted", ()))
        it["revOk"] = LAST["revOk"]
        it.setdefault("deleted", [])
    v = tracecheck.validate("BranchMatch", "TraceBranchMatch", "TraceBranchMatch.cfg", [it], name="c15replay")
    for tid, fails in v.l1.items():
        print("VIOLATION property=C15 clause=%s result=%s" % (fails[0][1], it["out"]))
    return 1 if v.l1 else 0
