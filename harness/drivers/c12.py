"""C12 — cluster engine start/stop is all-or-nothing across hosts and reports failures.

Leg M   : TLC on Mechanic.tla (MechanicActor / Dispatcher / NodeMechanicActor handlers as written, race control and the remote
          Rally daemons as environment; one MechanicActor serves a history of up to 3 engine lifecycles, each external or
          provisioned, the actor's own fields carried over as the code does): safety invariants per lifecycle over all interleavings, all single faults (start failure on a host
          before / while launching, remote daemon leaving while the Dispatcher waits) for a family of target-host lists, and
          liveness (EngineStarted or BenchmarkFailure is eventually delivered; a fault leads to BenchmarkFailure) under weak
          fairness. Self-test: the pinned variant (LeaveFix = FALSE, the `not remoteAdded` branch as written) violates NoStall
          and the liveness properties in the model.
Leg S2C : TLC -simulate behaviours and the counterexamples of the pinned variants ("trap" schedules) are replayed into the REAL
          MechanicActor / Dispatcher / NodeMechanicActor / Mechanic under SimActorSystem (harness/mechsim.py).
Leg S2C': the stop-outcome family (not derived from TLC, exhaustive over its alphabet): one host with 1..3 nodes, every vector of
          per-node stop outcomes over {dies on SIGTERM, already gone at look-up, gone at terminate(), survives SIGTERM and dies on
          SIGKILL, survives SIGTERM and is gone when SIGKILL is sent}, stopped by StopNodes (race known / unknown, preserve on / off)
          or by the ActorExitRequest at teardown after a start failure on another entry: the REAL ProcessLauncher.stop /
          Mechanic.stop_engine / NodeMechanicActor run over the scripted fake psutil (waits are virtual: wait() answers at once).
Leg C2S : every recorded execution (also seeded random schedules over random target-host lists, not derived from TLC) is
          validated by TLC against TraceMechanic.tla: L1 = the property formulas on the recorded state, L2 = every recorded step
          is the corresponding action of Mechanic.tla.
"""
import glob
import itertools
import os
import random
import re

from .. import mechtrace, tlc, tracecheck
from ..core import Outcome, Violation
from ..tlaparse import parse_simulation_file, parse_state, to_json

L1_CLAUSES = {"StartedOnlyWhenAll", "StopAtMostOnce", "StoppedOnlyWhenAll", "ExternalUntouched", "NoStall", "FaultReported", "TeardownStopsAll", "ExternalAnswered", "ShutdownMetricsStored", "AckedOnlyWhenDone", "StopNeverRaises", "StopHandlesAll"}
PROC_CONDS = ("early", "late", "stubborn", "vanish")
STOP_OUTCOMES = ("alive",) + PROC_CONDS
# actions of Mechanic.tla that must be reachable in the model (NRecvFailure and the assertion branches are not: they need
# duplicated or out-of-state acknowledgements, which the modelled environment never produces)
REQUIRED_ACTIONS = ["MRecvStartEngine", "MRecvReset", "MWakeup", "MRecvFailureD", "MRecvStopEngine", "MRecvExit", "DRecvStartEngine", "DRecvConv", "DRecvExit", "RcStop", "RcReset", "RcTeardown", "RemoteJoins", "RemoteLeaves"]  # NodeProcess is an \\E-disjunct of Next, covered by unreached_disjuncts
_RE_NEXT_COV = re.compile(r"^<Next line \d+, col \d+ to line \d+, col \d+ of module Mechanic \((\d+) \d+ \d+ \d+\)>: (\d+):(\d+)", re.M)


def unreached_disjuncts(res, workdir):
    """The per-host handlers are the `\\E h : Action(h)` disjuncts of Next; TLC reports their coverage by source line."""
    with open(os.path.join(workdir, "Mechanic.tla"), "r", encoding="utf-8") as f:
        src = f.read().splitlines()
    missing = []
    seen = 0
    for m in _RE_NEXT_COV.finditer(res.out):
        line = src[int(m.group(1)) - 1]
        seen += 1
        if int(m.group(3)) == 0 and "NRecvFailure" not in line:
            missing.append(line.strip())
    if seen < 10:
        raise tlc.MachineryError("coverage output of TLC lists only %d disjuncts of Next" % seen)
    return missing


def model_check(out, cfgs, timeout):
    for cfg, cov in cfgs:
        wd = tlc.prepare_workdir("Mechanic", "mechmc")
        res = tlc.run_tlc(wd, "MC_Mechanic", cfg, timeout=timeout, allow_violation=True, workers=8, coverage=cov)
        out.add_tlc(res)
        if not res.ok:
            raise tlc.MachineryError("model violates %s in %s:\n%s" % (res.invariant_violated or res.property_violated or "deadlock", cfg, res.out[-2500:]))
        if cov:
            missing = tlc.check_vacuity(res, REQUIRED_ACTIONS) + unreached_disjuncts(res, wd)
            if missing:
                out.vacuous.extend(missing)
        out.note("leg M %s: %d distinct states, depth %d, %.1fs" % (cfg, res.distinct, res.depth, res.wall_s))


def _script_of(states):
    """-> (history = [first lifecycle configuration, ...], remote daemons initially up, [(action, a, b)])"""
    scn = None
    up = []
    script = []
    for st in states:
        if scn is None and "scn" in st:
            scn = [to_json(st["scn"])] + list(to_json(st["plan"]))
            up = sorted(to_json(st["env"])["up"])
        a = st.get("act")
        if a is not None and str(a["name"]) != "Init":
            script.append((str(a["name"]), int(a["a"]), str(a["b"])))
    return scn, up, script


def trap_schedules(out, quick=False):
    """Counterexamples TLC finds for the pinned model variant become schedules for the real code."""
    traps = []
    cfgs = (("Mechanic.pinned.cfg", "NoStall"),) if quick else (("Mechanic.pinned.cfg", "NoStall"), ("Mechanic.live.pinned.cfg", "liveness"))
    for cfg, what in cfgs:
        wd = tlc.prepare_workdir("Mechanic", "mechtrap")
        res = tlc.run_tlc(wd, "MC_Mechanic", cfg, timeout=600, allow_violation=True, workers=4)
        if res.ok:
            raise tlc.MachineryError("self-test failed: %s finds no %s counterexample any more" % (cfg, what))
        if what == "NoStall" and res.invariant_violated not in ("NoStall", "FaultReported"):
            raise tlc.MachineryError("self-test failed: %s violates %s instead of NoStall" % (cfg, res.invariant_violated))
        states = []
        # tlc.py does not recognise "Temporal properties A and B were violated": parse the behaviour here
        cex = res.counterexample or tlc._parse_counterexample(res.out)  # pylint: disable=protected-access
        for _label, text in cex:
            try:
                states.append(parse_state(text))
            except Exception:  # pylint: disable=broad-except
                continue
        scn, up, script = _script_of(states)
        if scn is None or not script:
            raise tlc.MachineryError("could not extract a counterexample from %s" % cfg)
        traps.append((scn, up, script, cfg))
    wd = tlc.prepare_workdir("Mechanic", "mechstale")
    res = tlc.run_tlc(wd, "MC_Mechanic", "Mechanic.stale.cfg", timeout=600, allow_violation=True, workers=4)
    if res.invariant_violated != "StartedOnlyWhenAll":
        raise tlc.MachineryError("self-test failed: Mechanic.stale.cfg (StaleAcks=TRUE) violates %s instead of StartedOnlyWhenAll" % res.invariant_violated)
    out.extra["model_selftest_stale_acks"] = (
        "pinned variant StaleAcks=TRUE (a second StartEngine right after a failed start, before the failed attempt has drained) violates "
        "StartedOnlyWhenAll in the model: confirmations of the failed attempt are counted for the new one; excluded from the checked "
        "environment (assumption), reproduced by hand on the real actors"
    )
    out.extra["model_selftest"] = (
        "pinned variant (LeaveFix=FALSE: Dispatcher calls self.start_sender(...) on a remote daemon's departure) violates NoStall "
        "(thorough tier: and the liveness properties Answered / FaultLeadsToFailure) in the model, as expected"
    )
    return traps


def behaviours(ctx, out, num, depth):
    wd = tlc.prepare_workdir("Mechanic", "mechsim")
    simdir = os.path.join(wd, "sim")
    os.makedirs(simdir)
    res = tlc.run_tlc(wd, "MC_Mechanic", "Mechanic.sim.cfg", workers=1, simulate={"num": num, "file": os.path.join(simdir, "b")}, depth=depth, seed=ctx.seed + 1201, timeout=900)
    if not res.ok:
        raise tlc.MachineryError("simulation reported a model violation: %s" % res.out[-2000:])
    out.add_tlc(res)
    result = []
    for fn in sorted(glob.glob(os.path.join(simdir, "b_*"))):
        states = parse_simulation_file(fn)
        if not states:
            continue
        scn, up, script = _script_of(states)
        result.append((scn, up, script))
    return result


def random_scenario(rnd):
    n = rnd.choice([0, 1, 1, 2, 2, 2, 3, 3, 3, 4, 4])
    pool = [{"ip": ip, "port": p} for ip in (0, 1, 2) for p in (0, 1, 2)]
    # a few distinct (ip, port) pairs, possibly repeated (several nodes per entry)
    few = rnd.sample(pool, rnd.choice([1, 2, 3, 4]))
    targets = [dict(rnd.choice(few)) for _ in range(n)]
    scn = {"targets": targets, "ext": rnd.random() < 0.12, "preserve": rnd.random() < 0.5}
    remotes = sorted({t["ip"] for t in targets if t["ip"] != 0})
    up = [ip for ip in remotes if rnd.random() < 0.4]
    return scn, up


def random_history(rnd):
    scn, up = random_scenario(rnd)
    hist = [scn]
    n = rnd.choice([1, 1, 2, 2, 2, 3])
    while len(hist) < n:
        nxt, _ = random_scenario(rnd)
        if rnd.random() < 0.3:
            nxt["ext"] = not hist[-1]["ext"]  # alternate external / provisioned more often than chance would
        hist.append(nxt)
    if n > 1 and rnd.random() < 0.5:
        hist[0]["ext"] = rnd.random() < 0.5
    return hist, up


def stop_family(quick):
    """Every vector of per-node stop outcomes for one host with 1..3 nodes. -> [(outcomes, how, job fields)]
    how = 'stop'  : the engine is started and then stopped by StopEngine -> StopNodes (race known / unknown alternating);
    how = 'exit'  : a second entry on the same host fails to launch, race control tears down, the node actor gets the
                    ActorExitRequest while its nodes run (Mechanic.stop_engine from the exit branch)."""
    L1, L2 = {"ip": 0, "port": 1}, {"ip": 0, "port": 2}
    fam = []
    i = 0
    for k in (1, 2, 3):
        for outcomes in itertools.product(STOP_OUTCOMES, repeat=k):
            procs = [("NodeProcess", n, c) for n, c in enumerate(outcomes) if c != "alive"]
            variants = [("stop", False), ("exit", False)]
            if k <= 2 or not quick:
                variants.append(("stop", True))
            for how, preserve in variants:
                i += 1
                if how == "stop":
                    scn = {"targets": [dict(L1) for _ in range(k)], "ext": False, "preserve": preserve}
                    script = [("MRecvStartEngine", 0, ""), ("DRecvStartEngine", 0, ""), ("NRecvStartNodes", 1, "ok"), ("MRecvNodesStarted", 1, "")]
                    script += procs + [("RcStop", 0, ""), ("MRecvStopEngine", 0, ""), ("NRecvStopNodes", 1, "known" if i % 2 else "unknown")]
                else:
                    scn = {"targets": [dict(L1) for _ in range(k)] + [dict(L2)], "ext": False, "preserve": preserve}
                    script = [("MRecvStartEngine", 0, ""), ("DRecvStartEngine", 0, ""), ("NRecvStartNodes", 1, "ok")] + procs + [("NRecvStartNodes", 2, "launch")]
                fam.append({"outcomes": list(outcomes), "how": how, "hist": [scn], "up": [], "script": script})
    return fam


def signature_of(clauses, st, hist):
    procs = sorted({x["proc"] for x in st["nd"] if x["proc"] != "alive"})
    cyc = st["env"]["cyc"]
    kinds = ["external" if x["ext"] else "provisioned" for x in hist[:cyc]]
    return {"clauses": sorted(clauses), "fault": st["env"]["fault"], "external": bool(hist[cyc - 1]["ext"]), "node_process": procs, "lifecycle": cyc, "earlier_lifecycles": sorted(set(kinds[:-1]))}


def run_traces(ctx, out, jobs, label, chunk=80):
    """jobs: dict(hist, up, script, seed, fault_prob[, strict]). Runs the real actors, validates with TLC."""
    traces = []
    index = {}
    stats = {"followed": 0, "skipped": 0, "livelock": 0, "fault": {"none": 0, "create": 0, "launch": 0, "leave": 0}, "ext": 0, "preserve": 0, "events": 0, "answered_started": 0, "answered_failed": 0, "stopped": 0, "proc": {c: 0 for c in PROC_CONDS}, "proc_stopped": {c: 0 for c in PROC_CONDS}, "lifecycles": {1: 0, 2: 0, 3: 0}, "reuse": {}, "race": {"known": 0, "unknown": 0}}
    for n, job in enumerate(jobs):
        tid = "%s-%d" % (label, n)
        hist = job["hist"]
        tr = mechtrace.TracedMech(hist[0], job["up"], plan=hist[1:])
        try:
            f, s = tr.run([tuple(x) for x in job["script"]], random.Random(job["seed"] * 7919 + 17), fault_prob=job.get("fault_prob", 0.0), strict=job.get("strict", False), proc_prob=job.get("proc_prob", 0.0), max_events=600)
            stats["followed"] += f
            stats["skipped"] += s
            if tr.livelock:
                stats["livelock"] += 1
            cycles = tr.summary + [tr.snapshot()]
            stats["lifecycles"][min(len(cycles), 3)] += 1
            for i, cy in enumerate(cycles):
                box = cy["box"]
                stats["answered_started"] += "EngineStarted" in box
                stats["answered_failed"] += "BenchmarkFailure" in box
                stats["stopped"] += "EngineStopped" in box
                stats["fault"][cy["fault"]] += 1
                for x in cy["nd"]:
                    if x["race"] != "none":
                        stats["race"][x["race"]] += 1
                    if x["proc"] != "alive":
                        stats["proc"][x["proc"]] += 1
                        stats["proc_stopped"][x["proc"]] += x["stops"] > 0
                stats["ext"] += bool(cy["scn"]["ext"])
                stats["preserve"] += bool(cy["scn"]["preserve"])
                if i > 0:
                    prev = "failed-start" if "BenchmarkFailure" in cycles[i - 1]["box"] else ("external" if cycles[i - 1]["scn"]["ext"] else "provisioned")
                    key = "%s->%s" % (prev, "external" if cy["scn"]["ext"] else "provisioned")
                    stats["reuse"][key] = stats["reuse"].get(key, 0) + 1
            trace = tr.trace(tid)
        finally:
            tr.close()
        stats["events"] += len(trace["events"])
        traces.append(trace)
        index[tid] = (job, trace)
        out.add_case({"hist": hist, "up": job["up"], "sched": [(e["ev"], e["a"], e["b"]) for e in trace["events"]]}, nontrivial=len(trace["events"]) > 8)
    v = tracecheck.validate("Mechanic", "TraceMechanic", "TraceMechanic.cfg", traces, name="mechtrace", chunk=chunk, timeout=1200)
    out.states += v.n_events
    out.transitions += v.n_events
    bad = set()
    for tid, fails in v.l1.items():
        job, trace = index[tid]
        mine = sorted({c for _, cl in fails for c in cl if c in L1_CLAUSES})
        if not mine:
            continue
        bad.add(tid)
        first = min(ln for ln, cl in fails if set(cl) & L1_CLAUSES)
        ev = trace["events"][first - 1]
        case = {"hist": job["hist"], "up": job["up"], "decisions": [(e["ev"], e["a"], e["b"]) for e in trace["events"] if e["ev"] != "Livelock"]}
        out.violations.append(
            Violation(
                ",".join(mine),
                case,
                signature=signature_of(mine, ev["st"], job["hist"]),
                detail="trace %s: first failing event %d (%s %s %s) in lifecycle %d of %s, race control has %s, fault=%s"
                % (
                    tid,
                    first,
                    ev["ev"],
                    ev["a"],
                    ev["b"],
                    ev["st"]["env"]["cyc"],
                    ["external" if x["ext"] else "provisioned" for x in job["hist"]],
                    ev["st"]["rcbox"] or "nothing",
                    ev["st"]["env"]["fault"],
                ),
            )
        )
    for tid, lines in v.l2.items():
        if tid in bad:
            continue
        job, trace = index[tid]
        ln = lines[0]
        ev = trace["events"][ln - 1] if ln >= 1 else {"ev": "Init", "a": 0, "b": ""}
        out.drift.append("trace %s: event %d (%s %s %s) is not the %s step of Mechanic.tla" % (tid, ln, ev["ev"], ev["a"], ev["b"], ev["ev"]))
    out.traces_validated += len(traces) - len(set(v.l1) | set(v.l2))
    return stats, index


def _merge(total, st):
    for k, v in st.items():
        if isinstance(v, dict):
            for k2, v2 in v.items():
                total.setdefault(k, {}).setdefault(k2, 0)
                total[k][k2] += v2
        else:
            total[k] = total.get(k, 0) + v


def run(ctx, out):
    out.rule = (
        "case = (history of 1-3 engine lifecycles on one MechanicActor, each a target-host list with external/preserve flags; remote daemons initially present; sequence of scheduling decisions: "
        "message deliveries incl. the outcome of each host's start, wake-ups, race-control actions, daemons joining/leaving, node processes dying / ignoring SIGTERM / vanishing before SIGKILL) executed on "
        "the real actors; distinct by hash of scenario+decision sequence; non-trivial = more than 8 decisions. Sources: TLC -simulate "
        "behaviours of Mechanic.tla, TLC counterexamples of the pinned model variant (trap schedules), seeded random schedules over "
        "random target lists, and the exhaustive stop-outcome family (one host with 1..3 nodes x every vector of per-node stop outcomes "
        "x stopped by StopNodes or by the exit request at teardown)."
    )
    out.assumptions = [
        "Thespian semantics as reproduced by harness/simactor.py: FIFO per (sender, receiver) pair, handlers run to completion, a handler "
        "that raises is retried once and then answered with PoisonMessage to the sender, ActorExitRequest is forwarded from a dying parent "
        "to its children after its earlier messages, messages to dead actors are dropped",
        "convention notifier as in thespian/system/admin/convention.py: a newly registered handler is told about all current members, "
        "a departing member produces ActorSystemConventionUpdate(remoteAdded=False) and ChildActorExited for its actors",
        "a remote daemon's departure is explored only while the Dispatcher is registered for convention updates and after that daemon's "
        "node actors were created (the window the `not remoteAdded` branch exists for); departures after StartNodes was dispatched or "
        "before the join was processed depend on thespian internals that SimActorSystem does not reproduce",
        "supplier / provisioner / race store are recording stubs; the launcher is the real ProcessLauncher with only _start_node replaced "
        "(real cluster.Node, real telemetry.Telemetry with one recording device): the real ProcessLauncher.stop runs against a fake psutil "
        "whose process table the environment controls (alive, already gone, dying while terminated, ignoring SIGTERM and dying on SIGKILL, "
        "ignoring SIGTERM and gone when SIGKILL is sent; wait() answers at once, no real grace period); "
        "the race store is a recording fake that answers NotFound where the environment says the host's race store does not know the "
        "race (always on remote hosts, sometimes on the coordinator's host), as the file race store does; "
        "provisioner.cleanup, Mechanic and metrics.calculate_system_results are real; the system metrics store is the real in-memory "
        "store made buffering like the Elasticsearch store (records searchable only after flush(refresh=True)), every node's "
        "telemetry produces one final_index_size_bytes record while the node is shut down; a start failure on a host happens before any of its nodes is up (in create() or in "
        "launcher.start), at most one fault per run; race control behaves like racecontrol.BenchmarkActor (StopEngine only after "
        "EngineStarted, ActorExitRequest after a failure or after EngineStopped)",
        "<= 3 hosts (coordinator host + 2 remote daemons) x 2 ports, target lists of <= 3 entries in the model, <= 4 in random runs",
        "reuse: one MechanicActor serves a history of <= 3 lifecycles (StartEngine .. EngineStopped, then the next StartEngine with another "
        "configuration); the next StartEngine is sent only after everything of the finished lifecycle has drained (no message in flight, "
        "node actors exited, no delayed ResetRelativeTime wake-up of the MechanicActor still pending); after a FAILED START "
        "(BenchmarkFailure before EngineStarted) race control either tears the actors down or asks the same MechanicActor to start a "
        "Rally-provisioned cluster again, the latter only once nothing of the failed attempt can reach the MechanicActor any more (no message "
        "in flight, its dispatcher no longer subscribed to convention updates); the failed attempt's dispatcher and node actors live on, "
        "forgotten, until the MechanicActor exits and are not judged any more; observations and L1 clauses are per lifecycle, dispatchers of earlier lifecycles "
        "stay alive and idle until the MechanicActor exits",
        "liveness is checked on the model under weak fairness of actors, race control and awaited daemons; on the real code a hang is a "
        "recorded state in which no delivery, wake-up or environment step that counts as progress is enabled and race control has "
        "neither EngineStarted nor BenchmarkFailure",
    ]
    # ---- Leg M
    if ctx.quick:
        model_check(out, [("Mechanic.quick.cfg", True), ("Mechanic.live.cfg", False)], timeout=600)
    else:
        model_check(out, [("Mechanic.quick.cfg", True), ("Mechanic.thorough.cfg", False), ("Mechanic.exhaustive.cfg", False), ("Mechanic.live.cfg", False), ("Mechanic.live.thorough.cfg", False)], timeout=1500)
        out.exhaustive = False
    traps = trap_schedules(out, ctx.quick)
    # ---- Leg S2C
    jobs = []
    for hist, up, script, _cfg in traps:
        for k in range(2):
            jobs.append({"hist": hist, "up": up, "script": script, "seed": ctx.seed + k, "fault_prob": 0.0})
    beh = behaviours(ctx, out, 120 if ctx.quick else 1200, 110)
    out.note("leg S2C: %d TLC behaviours + %d trap schedules" % (len(beh), len(traps)))
    for i, (hist, up, script) in enumerate(beh):
        jobs.append({"hist": hist, "up": up, "script": script, "seed": ctx.seed + i, "fault_prob": 0.0})
    total = {}
    stats, index = run_traces(ctx, out, jobs, "s2c")
    _merge(total, stats)
    # ---- random schedules not derived from TLC
    rnd = random.Random(ctx.seed + 4242)
    rjobs = []
    for i in range(150 if ctx.quick else 1800):
        hist, up = random_history(rnd)
        rjobs.append({"hist": hist, "up": up, "script": [], "seed": ctx.seed + 5000 + i, "fault_prob": [0.0, 0.03, 0.12][i % 3] if len(hist) > 1 else [0.0, 0.1, 0.3][i % 3], "proc_prob": [0.0, 0.15, 0.3, 0.15][i % 4]})
    rstats, rindex = run_traces(ctx, out, rjobs, "rnd")
    _merge(total, rstats)
    # ---- the stop-outcome family: every vector of per-node outcomes of ProcessLauncher.stop for 1..3 nodes on one host
    fam = stop_family(ctx.quick)
    fjobs = [{"hist": f["hist"], "up": f["up"], "script": f["script"], "seed": ctx.seed + 9000 + i, "fault_prob": 0.0, "proc_prob": 0.0} for i, f in enumerate(fam)]
    fstats, findex = run_traces(ctx, out, fjobs, "fam")
    _merge(total, fstats)
    cover = {"%s@%d/%d" % (c, p, k): 0 for k in (1, 2, 3) for p in range(k) for c in STOP_OUTCOMES}
    by_how = {"stop": 0, "exit": 0}
    for i, f in enumerate(fam):
        last = findex["fam-%d" % i][1]["events"][-1]["st"]["nd"]
        k = len(f["outcomes"])
        for p, c in enumerate(f["outcomes"]):
            # counted when the node was handled by a stop while its process was in the scripted condition
            if last[p]["stops"] > 0 and last[p]["proc"] == c:
                cover["%s@%d/%d" % (c, p, k)] += 1
        by_how[f["how"]] += 1
    out.extra["stop_family"] = {
        "runs": len(fam),
        "by_request": by_how,
        "script_steps_not_enabled": fstats["skipped"],
        "outcome@position/nodes -> runs in which that node was handled by a stop": cover,
    }
    for key, cnt in sorted(cover.items()):
        if cnt == 0:
            out.vacuous.append("stop family:" + key)
    out.note("leg S2C' stop-outcome family: %d runs (%s), %d outcome/position cells, all covered: %s" % (len(fam), by_how, len(cover), all(cover.values())))
    some = findex["fam-%d" % (len(fam) - 1)]
    out.sample({"history": some[0]["hist"], "up": some[0]["up"], "decisions": [(e["ev"], e["a"], e["b"]) for e in some[1]["events"]][:40]})
    out.extra["runs"] = len(jobs) + len(rjobs) + len(fjobs)
    out.extra["schedule_steps_followed"] = total["followed"]
    out.extra["schedule_steps_not_enabled"] = total["skipped"]
    out.extra["runs_by_fault"] = total["fault"]
    out.extra["runs_external"] = total["ext"]
    out.extra["runs_preserve"] = total["preserve"]
    out.extra["runs_engine_started"] = total["answered_started"]
    out.extra["runs_benchmark_failure"] = total["answered_failed"]
    out.extra["runs_engine_stopped"] = total["stopped"]
    out.extra["runs_livelock"] = total["livelock"]
    out.extra["nodes_stopped_by_race_store_answer"] = total["race"]
    if total["race"]["known"] == 0 or total["race"]["unknown"] == 0:
        out.vacuous.append("race store answer")
    out.extra["runs_by_number_of_lifecycles"] = total["lifecycles"]
    out.extra["reuse_transitions"] = total["reuse"]
    for key in ("external->provisioned", "provisioned->external", "provisioned->provisioned", "external->external", "failed-start->provisioned"):
        if total["reuse"].get(key, 0) == 0:
            out.vacuous.append("reuse:" + key)
    out.extra["node_processes_not_alive"] = total["proc"]
    out.extra["node_processes_not_alive_and_stopped"] = total["proc_stopped"]
    for kind in PROC_CONDS:
        if total["proc_stopped"].get(kind, 0) == 0:
            out.vacuous.append("process:" + kind)
    for kind in ("create", "launch", "leave"):
        if total["fault"].get(kind, 0) == 0:
            out.vacuous.append("fault:" + kind)
    if total["ext"] == 0 or total["preserve"] == 0 or total["stopped"] == 0:
        out.vacuous.append("scenario flags")
    some = index[sorted(index)[0]]
    out.sample({"history": some[0]["hist"], "up": some[0]["up"], "decisions": [(e["ev"], e["a"], e["b"]) for e in some[1]["events"]][:40]})
    some = rindex[sorted(rindex)[1]]
    out.sample({"history": some[0]["hist"], "up": some[0]["up"], "decisions": [(e["ev"], e["a"], e["b"]) for e in some[1]["events"]][:40]})
    out.note(
        "leg C2S: %d runs, %d events, %d traces accepted by TLC, %d schedule steps followed, %d not enabled; faults %s; node processes not alive when stopped %s; reuse %s"
        % (len(jobs) + len(rjobs) + len(fjobs), total["events"], out.traces_validated, total["followed"], total["skipped"], total["fault"], total["proc_stopped"], total["reuse"])
    )


def replay(ctx, case):
    out = Outcome("C12")
    job = {"hist": case["hist"] if "hist" in case else [case["scn"]], "up": case["up"], "script": [tuple(x) for x in case["decisions"]], "seed": 0, "fault_prob": 0.0, "strict": True}
    stats, _ = run_traces(ctx, out, [job], "replay")
    if stats["skipped"]:
        print("MODEL-DRIFT property=C12 %d recorded decisions are no longer enabled" % stats["skipped"])
    for v in out.violations:
        print("VIOLATION property=C12 clause=%s %s" % (v.clause, v.detail))
    for d in out.drift:
        print("MODEL-DRIFT property=C12 %s" % d)
    return 1 if out.violations else 0
