"""C08 — race results are correct statistics of the normal samples and survive storage.

Leg M   : TLC enumerates small bags of metric records (focus metric x normal bag x warm-up records x records of
          other tasks / metrics / operation types), arithmetic-progression stores whose size is a parameter
          (1, 2, 9, 10, 99, 100, ... around every threshold of percentiles_for_sample_size), with and without a heavy
          tail of outliers (unequal neighbours at the p99.9 / p99.99 ranks of >= 1000 samples), and result documents
          (every system metric absent / null / 0 / positive) and checks the clauses of C08 on the transcription of
          esrally.metrics (Stats.tla).  Self-test: the pinned summary_stats (truthiness test) violates the property.
Leg S2C : every TLC state (dump) is loaded into a REAL InMemoryMetricsStore through put_value_cluster_level, the
          results are computed with the real calculate_results (GlobalStatsCalculator), written with the real
          FileRaceStore.store_race into a scratch race directory and read back through find_by_race_id and list(),
          per task through GlobalStats.metrics(task) as compare does (operation names collide with task names);
          the same store without its warm-up records is evaluated as well and the getters are asked directly for
          the percentiles 0, 50, 90, 99, 99.9, 99.99, 100.
          Two thirds of the stores are filled as race control does it: per-task (or arbitrary) hand-overs
          to_externalizable(clear=True) -> bulk_add from a second store, then calculate_results.
          A few races with non-ASCII task names / user tags are read back by a child interpreter whose preferred
          encoding is not UTF-8 (LC_ALL=C, no coercion, no UTF-8 mode).
          Query leg: a part of the cases runs the real calculator on a real EsMetricsStore whose search requests a fake
          client (harness/esquery.py) evaluates against the same documents.
Leg C2S : the recorded (store, results, normal-only results, reloaded results) of the S2C runs and of seeded random
          stores (wider values, more tasks, bigger bags) are validated by TLC against TraceStats.tla:
          L1 = clauses of C08, L2 = equality with the transcription.
"""
import datetime
import json
import math
import os
import random
import re
import subprocess
import sys
from fractions import Fraction

from .. import esquery, tlc, tracecheck
from ..core import Violation
from ..tlaparse import parse_value, to_json

REAL_NAME = {
    "tp": "throughput",
    "lat": "latency",
    "svc": "service_time",
    "proc": "processing_time",
    "g_tt": "indexing_total_time",
    "g_ygc": "node_total_young_gen_gc_time",
    "g_mseg": "segments_memory_in_bytes",
    "g_segc": "segments_count",
}
UNIT = {"tp": "ops/s", "lat": "ms", "svc": "ms", "proc": "ms", "g_tt": "ms", "g_ygc": "ms", "g_mseg": "byte", "g_segc": None}
GATTR = {"tt": "total_time", "ygc": "young_gc_time", "mseg": "memory_segments", "segc": "segment_count"}
TASK_METRICS = ["tp", "lat", "svc", "proc"]
RESULT_KEY = {"tp": "throughput", "lat": "latency", "svc": "service_time", "proc": "processing_time"}
PLIST = [0, 50, 90, 99, 99.9, 99.99, 100]
SCALES = [1, 1.0, 0.5, 0.001, 1000.0, 0.1]
MAXDEN = 20000  # every exact result of the inputs used has a denominator <= 12000 (mean / error rate: record count; percentiles: 10^4)
TOL = 1e-9
NONE = {"n": 0, "d": 0}
BAD = {"n": 0, "d": -1}  # a value that equals nothing
RACE_ID = "c08-race"
OTHER_RACE_ID = "c08-other"
NOAP = ["", "", 0, 0, 0, 0, 0, 0]  # <<metric, task, n, a0, step, fails, number of outliers, gap>>


FOREIGN_OP = "dependent-op"  # operation type of a dependent timing (composite operation): not the task's own type


def op_types(sched, rnd=None):
    """Operation type of every task. Tasks sharing one type is the dangerous case (a dropped task filter shows)."""
    if rnd is None or rnd.random() < 0.6:
        return {name: "shared-op" for name, *_ in sched}
    return {name: "type-of-" + name for name, *_ in sched}


def with_op_names(sched, mode):
    """Schedule entries [task, include-in-reporting] -> [task, include-in-reporting, operation name].
    mode 0: the operation of a task is NAMED like the next task of the schedule (task search-cold on operation search, then a
    task search): a lookup of per-task results by task name must not be caught by an operation name; mode 1: one operation
    shared by all tasks (index #1 / index #2 on operation index); mode 2: an operation of its own per task."""
    names = [e[0] for e in sched]
    out = []
    for n, e in enumerate(sched):
        if mode == 0:
            opn = names[n + 1] if n + 1 < len(names) else "op-" + e[0]
        elif mode == 1:
            opn = "shared-operation"
        else:
            opn = "op-" + e[0]
        out.append([e[0], bool(e[1]), opn])
    return out


# ---------------------------------------------------------------------------------------------------
# numbers: implementation floats -> small rationals for TLC
# ---------------------------------------------------------------------------------------------------
GRID = 10000  # percentiles (p with at most two decimals) and order statistics of integer data are multiples of 1/10^4


def grid_tol(S):
    """Absolute tolerance for percentile-like values of a store: 1e-9 relative to the largest input value (the float error of
    lower + (higher - lower) * fraction is proportional to the neighbouring values, not to the result), below half a grid step."""
    big = max([abs(r[4]) for r in S["recs"]] + [S["ap"][3] + S["ap"][2] * S["ap"][4] + S["ap"][6] * S["ap"][7], 1])
    return min(4e-5, TOL * big)


def rat(x, u=1, grid=False):
    """A number returned by the implementation (fed with values v*u) as a rational n/d in lowest terms for TLC; None -> 0/0;
    d < 0 marks 'agrees with no admissible rational' (about n/|d|, equal to nothing).
    grid=True  (percentiles, min, max, sums, medians of integer data): the multiple of 1/10^4 it agrees with; u may be
               (scale, absolute tolerance), see grid_tol; default tolerance 1e-9 * max(1, |x|).
    grid=False (means, error rates): the closest rational of denominator <= 2*10^4, which it must agree with to 1e-9 relative
               to max(1, |x|) (statistics.mean and / are correctly rounded, so the closest one is the exact one)."""
    gtol = None
    if isinstance(u, tuple):
        u, gtol = u
    if x is None:
        return dict(NONE)
    if isinstance(x, bool) or not isinstance(x, (int, float)) or (isinstance(x, float) and not math.isfinite(x)):
        return dict(BAD)
    y = Fraction(x) / Fraction(u)
    if abs(y) > 100000:  # keeps numerators below 2^31
        return {"n": 100000 if y > 0 else -100000, "d": -1}
    if grid:
        f = Fraction(int(round(y * GRID)), GRID)
        tol = Fraction(gtol) if gtol is not None else min(Fraction(4, 100000), Fraction(TOL) * max(1, abs(y)))
    else:
        f = y.limit_denominator(MAXDEN)
        tol = Fraction(TOL) * max(1, abs(f))
    if abs(y - f) <= tol:
        return {"n": f.numerator, "d": f.denominator}
    return {"n": int(round(y * GRID)), "d": -GRID}


def real(r):
    """Inverse direction for documents: a rational of the model as the number the implementation would hold."""
    if r["d"] == 0:
        return None
    return r["n"] // r["d"] if r["n"] % r["d"] == 0 else r["n"] / r["d"]


def _key_p100(k):
    try:
        return int(round(float(str(k).replace("_", ".")) * 100))
    except ValueError:
        return -1


# ---------------------------------------------------------------------------------------------------
# the implementation under test
# ---------------------------------------------------------------------------------------------------
UNI_SUFFIX = "-gr\u00f6\u00dfe-\u691c\u7d22"  # non-ASCII text in task / operation names of the "uni" cases
UNI_TAGS = {"\u00e4rger": "se\u00f1or-\u691c\u7d22"}


def race_cfg(config, root, race_id, ts=datetime.datetime(2020, 1, 2, 3, 4, 5)):
    cfg = config.Config()
    app = config.Scope.application
    for sec, key, val in (
        ("system", "env.name", "verif"),
        ("system", "time.start", ts),
        ("system", "race.id", race_id),
        ("system", "list.max_results", 100000),
        ("node", "root.dir", root),
    ):
        cfg.add(app, sec, key, val)
    return cfg


# Reads stored races back in a process whose preferred encoding is NOT UTF-8 (LC_ALL=C, no locale coercion, no UTF-8 mode)
# with the FileRaceStore of the implementation under test; jobs on stdin, projected results on stdout (ASCII JSON).
CHILD = r"""
import json, locale, os, sys
sys.path.insert(0, os.environ["VERIF_HOME"])
sys.path.insert(0, os.environ["VERIF_REPO"])
jobs = json.loads(sys.stdin.buffer.read().decode("utf-8"))
from esrally import config, metrics
from harness.drivers import c08
out = {"encoding": locale.getpreferredencoding(False), "res": []}
for job in jobs:
    rs = metrics.FileRaceStore(c08.race_cfg(config, job["root"], job["race_id"]))
    u = tuple(job["u"])
    r = {}
    try:
        race = rs.find_by_race_id(job["race_id"])
        gs = metrics.GlobalStats(race.results)
        r["RL"] = c08.project_results(gs, job["sched"], u, "metrics")
        r["id"] = {"results": gs.as_dict(), "tasks": gs.tasks(), "tags": race.user_tags}
    except Exception as ex:
        r["id_err"] = type(ex).__name__
    listed = [x for x in rs.list() if x.race_id == job["race_id"]]
    r["n_listed"] = len(listed)
    if len(listed) == 1:
        gs = metrics.GlobalStats(listed[0].results)
        r["RS"] = c08.project_results(gs, job["sched"], u, "metrics")
        r["list"] = {"results": gs.as_dict(), "tasks": gs.tasks(), "tags": listed[0].user_tags}
    out["res"].append(r)
sys.stdout.write(json.dumps(out))
"""


class Impl:
    def __init__(self, root):
        os.environ.setdefault("RALLY_HOME", os.path.join(root, "home"))
        from esrally import config, metrics, track

        self.metrics = metrics
        self.track = track
        self.root = os.path.join(root, "rally-root")
        self.uni_root = os.path.join(root, "rally-root-uni")  # races read back by the child; kept apart so that list() of the main root stays short
        cfg = config.Config()
        app = config.Scope.application
        cfg.add(app, "system", "env.name", "verif")
        cfg.add(app, "system", "time.start", datetime.datetime(2020, 1, 2, 3, 4, 5))
        cfg.add(app, "system", "race.id", RACE_ID)
        cfg.add(app, "system", "list.max_results", 100)
        cfg.add(app, "node", "root.dir", self.root)
        cfg.add(app, "reporting", "datastore.type", "in-memory")
        cfg.add(app, "mechanic", "car.names", ["defaults"])
        cfg.add(app, "mechanic", "car.params", {})
        cfg.add(app, "mechanic", "plugin.params", {})
        cfg.add(app, "race", "user.tags", {})
        cfg.add(app, "race", "pipeline", "benchmark-only")
        cfg.add(app, "track", "params", {})
        self.cfg = cfg
        self.race_store = metrics.race_store(cfg)
        if type(self.race_store).__name__ != "FileRaceStore":
            raise tlc.MachineryError("expected a FileRaceStore, got %r" % type(self.race_store))
        self._tracks = {}
        self.searches = 0  # search requests the EsMetricsStore cases sent
        self._fakes = []
        # a second, older race without results in the same directory: list() has to pick the right one
        other_cfg = config.Config()
        for sec, key, val in (
            ("system", "env.name", "verif"),
            ("system", "time.start", datetime.datetime(2019, 1, 1)),
            ("system", "race.id", OTHER_RACE_ID),
            ("system", "list.max_results", 100),
            ("node", "root.dir", self.root),
        ):
            other_cfg.add(app, sec, key, val)
        t, ch = self.track_for((("t1", True),))
        metrics.FileRaceStore(other_cfg).store_race(self.new_race(t, ch, race_id=OTHER_RACE_ID, ts=datetime.datetime(2019, 1, 1)))

    def track_for(self, sched, ot=None):
        ot = ot or op_types(sched)
        sched = [list(e) + ["op-" + e[0]] if len(e) == 2 else list(e) for e in sched]
        key = tuple((str(n), bool(r), ot[n], str(opn)) for n, r, opn in sched)
        if key not in self._tracks:
            track = self.track
            tasks = []
            for n, (name, report, typ, opn) in enumerate(key):
                op = track.Operation(name=opn, operation_type=typ, params={} if report else {"include-in-reporting": False})
                task = track.Task(name=name, operation=op)
                # alternate plain tasks and parallel elements: the calculator walks both
                tasks.append(task if n % 2 == 0 else track.Parallel([task]))
            ch = track.Challenge(name="verif-challenge", schedule=tasks, default=True)
            self._tracks[key] = (track.Track("verif-track", "C08", challenges=[ch]), ch)
        return self._tracks[key]

    def new_race(self, t, ch, race_id=RACE_ID, ts=datetime.datetime(2020, 1, 2, 3, 4, 5), tags=None):
        return self.metrics.Race(
            rally_version="0.0.0",
            rally_revision="verif",
            environment_name="verif",
            race_id=race_id,
            race_timestamp=ts,
            pipeline="benchmark-only",
            user_tags=dict(tags or {}),
            track=t,
            track_params={},
            challenge=ch,
            car=["defaults"],
            car_params={},
            plugin_params={},
        )

    def load_store(self, S, u, ot, rnd, normal_only=False, opn=None, ho=0, sched=(), names=None):
        """Fills a real InMemoryMetricsStore with the records of S and returns it.
        ho = 0: the records are put straight into the store the results are calculated from.
        ho = 1 / 2: the store is filled the way race control fills it (racecontrol.BenchmarkCoordinator.on_task_finished /
        on_benchmark_complete): the request metrics are written into the load driver's own metrics store and handed over with
        to_externalizable(clear=True) -> bulk_add in k >= 2 non-empty hand-overs, one per task of the schedule (ho = 1; a single
        task with records is split in two) or cut at arbitrary points (ho = 2); system metrics are written directly."""
        metrics = self.metrics
        store = metrics.metrics_store(self.cfg, read_only=False, track="verif-track", challenge="verif-challenge", car=["defaults"])
        target = store
        recs = [tuple(r) for r in S["recs"]]
        opn = opn or {}
        m, t, n, a0, step, fails, tn, gap = S["ap"]
        for i in range(n):
            tail = (i - (n - tn) + 1) * gap if i >= n - tn else 0  # the largest tn values are outliers (heavy tail)
            recs.append((m, t, True, True, a0 + i * step + tail, i >= fails, i))
        if normal_only:
            recs = [r for r in recs if r[3]]
        if names:  # real (non-ASCII) task names; ot, opn and sched are keyed by the real names
            recs = [(r[0], names.get(r[1], r[1])) + tuple(r[2:]) for r in recs]
        rnd.shuffle(recs)
        chunk_of = {}
        n_chunks = 1
        if ho:
            target = metrics.metrics_store(self.cfg, read_only=False, track="verif-track", challenge="verif-challenge", car=["defaults"])
            task_recs = [r for r in recs if not r[0].startswith("g_")]
            if ho == 1:
                order = [e[0] for e in sched]
                groups = [[r for r in task_recs if r[1] == name] for name in order] + [[r for r in task_recs if r[1] not in order]]
                groups = [g for g in groups if g]
                if len(groups) == 1 and len(groups[0]) > 1:
                    g = groups[0]
                    groups = [g[: len(g) // 2], g[len(g) // 2 :]]
            else:
                k = min(len(task_recs), 2 + len(task_recs) % 2)
                groups = [task_recs[i::k] for i in range(k)] if k else []
            n_chunks = max(1, len(groups))
            for c, g in enumerate(groups):
                for r in g:
                    chunk_of.setdefault(r, []).append(c)  # equal records: one chunk index each
            recs = [r for r in recs if r[0].startswith("g_")] + [r for g in groups for r in g]
        cur = 0
        for idx, (m, t, own, nrm, v, ok, rt) in enumerate(recs):
            if ho and not m.startswith("g_"):
                c = chunk_of[(m, t, own, nrm, v, ok, rt)].pop(0)
                if c != cur:
                    store.bulk_add(target.to_externalizable(clear=True))  # TaskFinished: the driver's metrics reach the coordinator
                    cur = c
            dest = store if m.startswith("g_") else target
            st = metrics.SampleType.Normal if nrm else metrics.SampleType.Warmup
            if m == "g_tt":
                # as telemetry.IndexStats writes it: a document with per-shard values
                x = v if isinstance(u, int) else float(v)
                dest.put_doc({"name": REAL_NAME[m], "value": x, "unit": "ms", "per-shard": [x, x + 1]}, level=metrics.MetaInfoScope.cluster, absolute_time=1000 + idx, relative_time=rt)
            elif m.startswith("g_"):
                dest.put_value_cluster_level(REAL_NAME[m], v if isinstance(u, int) else float(v), unit=UNIT[m], sample_type=st, absolute_time=1000 + idx, relative_time=rt)
            else:
                dest.put_value_cluster_level(
                    REAL_NAME[m],
                    v * u,
                    unit=UNIT[m],
                    task=t,
                    operation=opn.get(t, "op-" + t),
                    operation_type=ot.get(t, "shared-op") if own else FOREIGN_OP,
                    sample_type=st,
                    absolute_time=1000 + idx,
                    relative_time=rt,
                    meta_data={"success": bool(ok)} if m != "tp" else None,
                )
        if ho:
            store.bulk_add(target.to_externalizable())  # BenchmarkComplete: the rest
            store.flush()
        return store

    def es_store(self, docs):
        """Two real EsMetricsStores over one fake Elasticsearch, used in the order of a race with datastore.type = elasticsearch:
        race control opens its store, the load driver opens its own, writes the records batch by batch and sends each batch WITHOUT
        refresh (Driver.post_process_samples: flush(refresh=False)); when the benchmark is complete race control adds what it was
        handed (nothing: an Elasticsearch store has no externalizable form), flushes and calculates the results from ITS store.
        The fake makes written documents searchable with the next refresh only and evaluates the searches against them."""
        import pickle
        import zlib

        fake = esquery.FakeSearchEs([])
        client_factory, template_provider = esquery.factories(fake)
        ts = datetime.datetime(2020, 1, 2, 3, 4, 5)
        reader = self.metrics.EsMetricsStore(self.cfg, client_factory_class=client_factory, index_template_provider_class=template_provider)
        reader.open(RACE_ID, ts, "verif-track", "verif-challenge", ["defaults"], create=True)
        writer = self.metrics.EsMetricsStore(self.cfg, client_factory_class=client_factory, index_template_provider_class=template_provider)
        writer.open(RACE_ID, ts, "verif-track", "verif-challenge", ["defaults"], create=True)
        docs = list(docs)
        nb = 1 + len(docs) % 3
        per = -(-len(docs) // nb) if docs else 1
        for i in range(0, max(len(docs), 1), per):
            writer.bulk_add(zlib.compress(pickle.dumps(docs[i : i + per])))
            writer.flush(refresh=False)
        reader.bulk_add(writer.to_externalizable(clear=True))
        reader.flush()
        self._fakes.append(fake)
        return reader

    def add_telemetry(self, store, k):
        """Every other system metric GlobalStatsCalculator gathers (not described by the model): they take part in the
        == comparison of original and reloaded results only. k varies the values (0 included)."""
        cluster = self.metrics.MetaInfoScope.cluster
        for n, name in enumerate(("indexing_throttle_time", "merges_total_time", "refresh_total_time", "flush_total_time", "merges_total_throttled_time")):
            store.put_doc({"name": name, "value": (n + k) % 3, "unit": "ms", "per-shard": [(n + k) % 3, 1.5, n]}, level=cluster, absolute_time=1, relative_time=0)
        sums = ["merges_total_count", "refresh_total_count", "flush_total_count", "dataset_size_in_bytes", "store_size_in_bytes", "translog_size_in_bytes"]
        sums += ["node_total_%s_gc_%s" % (c, w) for c in ("old_gen", "zgc_cycles", "zgc_pauses") for w in ("time", "count")] + ["node_total_young_gen_gc_count"]
        sums += ["ingest_pipeline_cluster_%s" % w for w in ("count", "time", "failed")]
        for n, name in enumerate(sums):
            store.put_value_cluster_level(name, (n * 7 + k) % 5, unit="x", absolute_time=1, relative_time=0)
            if n % 2:
                store.put_value_cluster_level(name, 2.25, unit="x", absolute_time=1, relative_time=0)
        for n, name in enumerate(("doc_values", "terms", "norms", "points", "stored_fields")):
            for v in range(n % 3 + 1):
                store.put_value_cluster_level("segments_%s_memory_in_bytes" % name, (v + k) % 4, unit="byte", absolute_time=1, relative_time=0)
        store.put_doc({"name": "ml_processing_time", "job": "job-%d" % k, "min": 0, "mean": 2.5, "median": 2, "max": 4 + k, "unit": "ms"}, level=cluster, absolute_time=1, relative_time=0)
        for n, name in enumerate(("processing_time", "index_time", "search_time", "throughput")):
            store.put_value_cluster_level("total_transform_" + name, (n + k) % 3 + 0.5, unit="ms", meta_data={"transform_id": "tr-%d" % n}, absolute_time=1, relative_time=0)
        for n, name in enumerate(("total", "inverted_index", "stored_fields", "doc_values", "points", "norms", "term_vectors")):
            store.put_value_cluster_level("disk_usage_" + name, (n + k) % 4, unit="byte", meta_data={"index": "idx", "field": "f%d" % n}, absolute_time=1, relative_time=0)

    # -- projections of what the implementation returned onto the result structure of Stats.tla
    def project(self, gs, sched, u, via):
        return project_results(gs, sched, u, via)

    def direct(self, store, sched, u, ot):
        normal = self.metrics.SampleType.Normal
        out = []
        for name, *_ in sched:
            row = []
            for m in TASK_METRICS:
                pct = store.get_percentiles(REAL_NAME[m], task=name, operation_type=ot[name], sample_type=normal, percentiles=list(PLIST))
                st = store.get_stats(REAL_NAME[m], task=name, operation_type=ot[name], sample_type=normal)
                pairs = sorted((_key_p100(k), rat(v, u, grid=True)) for k, v in (pct or {}).items())
                d = {"k": [p for p, _ in pairs], "v": [v for _, v in pairs]}
                if st:
                    d.update({"n": int(st["count"]), "min": rat(st["min"], u, grid=True), "max": rat(st["max"], u, grid=True), "mean": rat(st["avg"], u)})
                else:
                    d.update({"n": 0, "min": dict(NONE), "max": dict(NONE), "mean": dict(NONE)})
                row.append(d)
            out.append(row)
        return out

    def persist_and_reload(self, race, original, sched, u):
        """store_race, then find_by_race_id and list(); returns (RL, RS, diff)."""
        metrics = self.metrics
        race_file = os.path.join(self.root, "races", RACE_ID, "race.json")
        if os.path.exists(race_file):
            os.remove(race_file)  # a write that silently does nothing must not be masked by the previous case
        self.race_store.store_race(race)
        diff = []
        try:
            loaded = metrics.GlobalStats(self.race_store.find_by_race_id(RACE_ID).results)
            RL = self.project(loaded, sched, u, "metrics")
            diff += deep_diff(original.as_dict(), loaded.as_dict(), "id")
            if [e.get("task") for e in original.op_metrics] != list(loaded.tasks()):
                diff.append("id.tasks()")
        except Exception as ex:  # pylint: disable=broad-except
            RL = {"ops": [], "g": {k: {"n": 0, "d": -1} for k in GATTR}}
            diff.append("find_by_race_id:%s" % type(ex).__name__)
        listed = [r for r in self.race_store.list() if r.race_id == RACE_ID]
        if len(listed) == 1:
            ls = metrics.GlobalStats(listed[0].results)
            RS = self.project(ls, sched, u, "metrics")
            diff += deep_diff(original.as_dict(), ls.as_dict(), "list")
        else:
            RS = {"ops": [], "g": {k: {"n": 0, "d": -1} for k in GATTR}}
            diff.append("list:%d" % len(listed))
        return RL, RS, diff[:6]

    def run_store(self, item, rnd):
        """Executes one store item on the real code and fills in the observation."""
        S, msched = item["S"], item["sched"]
        u = (item["u"], grid_tol(S))  # only for the conversion of results; the store is fed with v * item["u"]
        mot = item.setdefault("ot", op_types(msched))
        # "uni" cases: the implementation sees non-ASCII task / operation names and user tags (the model keeps t1, t2, ...)
        uni = item.get("uni") is not None
        tn = {e[0]: e[0] + UNI_SUFFIX for e in msched} if uni else {}
        sched = [[tn.get(e[0], e[0]), e[1], tn.get(e[2], e[2])] for e in msched]
        ot = {tn.get(k, k): v for k, v in mot.items()}
        opn = {e[0]: e[2] for e in sched}
        t, ch = self.track_for(sched, ot)
        ho = item.setdefault("ho", 0)
        store = self.load_store(S, item["u"], ot, rnd, opn=opn, ho=ho, sched=sched, names=tn)
        if item.get("tele") is not None:
            self.add_telemetry(store, item["tele"])
        es = bool(item.get("es"))
        if es:
            # query leg: the same documents behind the Elasticsearch metrics store (what race control uses with datastore.type =
            # elasticsearch); its searches are evaluated against exactly these documents by harness/esquery.py
            store = self.es_store(store.docs)
        race_id = "c08-uni-%d" % item["uni"] if uni else RACE_ID
        race = self.new_race(t, ch, race_id=race_id, tags=UNI_TAGS if uni else None)
        try:
            res = self.metrics.calculate_results(store, race)
            item["R"] = self.project(res, sched, u, "entries")
            item["D"] = self.direct(store, sched, u, ot)
            pfs = self.metrics.percentiles_for_sample_size
            item["PF"] = [[sorted(int(round(p * 100)) for p in pfs(row[j]["n"])) if row[j]["n"] > 0 else [] for j in (1, 2, 3)] for row in item["D"]]
        except Exception as ex:  # pylint: disable=broad-except
            # the implementation raises on a valid store: there are no results at all; recorded as results that equal nothing
            item["crash"] = "%s: %s" % (type(ex).__name__, ex)
            item["R"] = item["RN"] = item["RL"] = item["RS"] = _crashed_results(sched)
            item["D"] = item["DN"] = [[{"k": [], "v": [], "n": -1, "min": dict(BAD), "max": dict(BAD), "mean": dict(BAD)} for _ in TASK_METRICS] for _ in sched]
            item["diff"] = []
            item["PF"] = [[[], [], []] for _ in sched]
            return item
        race.add_results(res)
        if uni:
            # stored now, read back later by a child interpreter with a non-UTF-8 preferred encoding (read_back_in_child)
            from esrally import config

            self.metrics.FileRaceStore(race_cfg(config, self.uni_root, race_id)).store_race(race)
            item["_pending"] = {"race_id": race_id, "sched": sched, "u": list(u), "original": res, "tags": dict(UNI_TAGS)}
        else:
            item["RL"], item["RS"], item["diff"] = self.persist_and_reload(race, res, sched, u)
        if any(not r[3] for r in S["recs"]):
            store_n = self.load_store(S, item["u"], ot, rnd, normal_only=True, opn=opn, ho=ho, sched=sched, names=tn)
            if es:
                store_n = self.es_store(store_n.docs)
            res_n = self.metrics.calculate_results(store_n, self.new_race(t, ch))
            item["RN"] = self.project(res_n, sched, u, "entries")
            item["DN"] = self.direct(store_n, sched, u, ot)
        else:
            # no warm-up record: the normal-only store is the store itself (another insertion order adds nothing here)
            item["RN"], item["DN"] = item["R"], item["D"]
        self.searches += sum(len(f.bodies) for f in self._fakes)
        self._fakes = []
        return item

    def read_back_in_child(self, items):
        """Fills RL / RS / diff of the "uni" items: their race files are read by a child interpreter started with LC_ALL=C and
        without locale coercion / UTF-8 mode (preferred encoding ASCII), importing esrally from the tree under test."""
        pending = [it for it in items if "_pending" in it]
        if not pending:
            return None
        jobs = [{"root": self.uni_root, "race_id": it["_pending"]["race_id"], "sched": it["_pending"]["sched"], "u": it["_pending"]["u"]} for it in pending]
        env = {
            "PATH": os.environ.get("PATH", "/usr/bin:/bin"),
            "LC_ALL": "C",
            "LANG": "C",
            "PYTHONUTF8": "0",
            "PYTHONCOERCECLOCALE": "0",
            "PYTHONHASHSEED": "0",
            "RALLY_HOME": os.environ["RALLY_HOME"],
            "VERIF_REPO": os.environ.get("VERIF_REPO", "/repo"),
            "VERIF_HOME": tlc.VERIF,
        }
        p = subprocess.run([sys.executable, "-c", CHILD], input=json.dumps(jobs).encode("utf-8"), stdout=subprocess.PIPE, stderr=subprocess.PIPE, env=env, timeout=300, check=False)
        if p.returncode != 0:
            raise tlc.MachineryError("reader child failed: %s" % p.stderr.decode("utf-8", "replace")[-1500:])
        answer = json.loads(p.stdout.decode("ascii"))
        if answer["encoding"].lower().replace("-", "") in ("utf8",):
            raise tlc.MachineryError("reader child has a UTF-8 preferred encoding (%s): the non-UTF-8 locale could not be set up" % answer["encoding"])
        nothing = {"ops": [], "g": {k: dict(BAD) for k in GATTR}}
        for it, r in zip(pending, answer["res"]):
            pend = it.pop("_pending")
            orig = pend["original"]
            diff = []
            for key, path, proj in (("id", "find_by_race_id", "RL"), ("list", "list", "RS")):
                if key in r:
                    it[proj] = r[proj]
                    diff += deep_diff(json.loads(json.dumps(orig.as_dict())), r[key]["results"], key)
                    if [e.get("task") for e in orig.op_metrics] != r[key]["tasks"]:
                        diff.append(key + ".tasks()")
                    if r[key]["tags"] != pend["tags"]:
                        diff.append(key + ".user_tags")
                else:
                    it[proj] = nothing
                    diff.append("%s:%s" % (path, r.get("id_err", "listed %s" % r.get("n_listed"))))
            it["diff"] = diff[:6]
        return answer["encoding"]

    def run_doc(self, item):
        doc = item["doc"]
        d = {}
        for k in doc["has"]:
            d[GATTR[k]] = real(doc["g"][k])
        sched = []
        if doc["hasOps"]:
            d["op_metrics"] = []
            sched = with_op_names([["t%d" % (n + 1), True] for n in range(len(doc["ops"]))], 0)
            for n, op in enumerate(doc["ops"]):
                name = sched[n][0]
                d["op_metrics"].append(
                    {
                        "task": name,
                        "operation": sched[n][2],
                        "throughput": {"min": real(op["tp"]["min"]), "mean": real(op["tp"]["mean"]), "median": real(op["tp"]["med"]), "max": real(op["tp"]["max"]), "unit": None if op["tp"]["unit"] == "none" else op["tp"]["unit"]},
                        "latency": _real_table(op["lat"]),
                        "service_time": _real_table(op["svc"]),
                        "processing_time": _real_table(op["proc"]),
                        "error_rate": real(op["er"]),
                        "duration": None if op["dur"]["d"] == 0 else real(op["dur"]) * 1000,
                    }
                )
        item["sched"] = sched
        gs = self.metrics.GlobalStats(d)
        item["R"] = self.project(gs, sched, 1, "entries")
        t, ch = self.track_for((("t1", True),))
        race = self.new_race(t, ch)
        race.add_results(gs)
        item["RL"], item["RS"], item["diff"] = self.persist_and_reload(race, gs, sched, 1)
        return item


def project_results(gs, sched, u, via):
    """via = "entries": the entry of op_metrics whose task is the task (how the summary report walks the results that
    calculate_results returned); via = "metrics": GlobalStats.metrics(task), the access path of compare on results read
    back from race.json."""
    ops = []
    for name, *_ in sched:
        if via == "metrics":
            r = gs.metrics(name)
        else:
            r = next((e for e in gs.op_metrics if e.get("task") == name), None)
        if r is None:
            ops.append(
                {"p": False, "tp": _no_summary(), "lat": _empty_table(), "svc": _empty_table(), "proc": _empty_table(), "er": dict(NONE), "dur": dict(NONE)}
            )
            continue
        tp = r.get("throughput") or {}
        ops.append(
            {
                "p": True,
                "tp": {
                    "min": rat(tp.get("min"), u, grid=True),
                    "mean": rat(tp.get("mean"), u),
                    "med": rat(tp.get("median"), u, grid=True),
                    "max": rat(tp.get("max"), u, grid=True),
                    "unit": _unit(tp.get("unit")),
                },
                "lat": _table(r.get("latency"), u),
                "svc": _table(r.get("service_time"), u),
                "proc": _table(r.get("processing_time"), u),
                "er": rat(r.get("error_rate")),
                "dur": rat(r.get("duration"), 1000, grid=True),
            }
        )
    g = {k: rat(getattr(gs, attr), grid=True) for k, attr in GATTR.items()}
    return {"ops": ops, "g": g}


def _crashed_results(sched):
    tab = {"k": [5000, 10000], "v": [dict(BAD), dict(BAD)], "mean": dict(BAD), "unit": "none", "x": 0}
    op = {"p": True, "tp": {"min": dict(BAD), "mean": dict(BAD), "med": dict(BAD), "max": dict(BAD), "unit": "none"}, "lat": tab, "svc": tab, "proc": tab, "er": dict(BAD), "dur": dict(BAD)}
    return {"ops": [op for _ in sched], "g": {k: dict(BAD) for k in GATTR}}


def _unit(x):
    return "none" if x is None else str(x)


def _no_summary():
    return {"min": dict(NONE), "mean": dict(NONE), "med": dict(NONE), "max": dict(NONE), "unit": "none"}


def _empty_table():
    return {"k": [], "v": [], "mean": dict(NONE), "unit": "none", "x": 0}


def _table(tab, u):
    """{'50_0': x, '100_0': y, 'mean': m, 'unit': 'ms'} -> keys (1/100 percent, ascending) and values; {} -> empty table."""
    if not tab:
        return _empty_table()
    pairs = sorted((_key_p100(k), rat(v, u, grid=True)) for k, v in tab.items() if k not in ("mean", "unit") and _key_p100(k) >= 0)
    extra = sum(1 for k in tab if k not in ("mean", "unit") and _key_p100(k) < 0)  # additional entries are no percentiles (L2 only)
    return {"k": [p for p, _ in pairs], "v": [v for _, v in pairs], "mean": rat(tab.get("mean"), u), "unit": _unit(tab.get("unit")), "x": extra}


def _real_table(tab):
    if not tab["k"]:
        return {}
    d = {str(p / 100.0).replace(".", "_"): real(v) for p, v in zip(tab["k"], tab["v"])}
    d["mean"] = real(tab["mean"])
    d["unit"] = None if tab["unit"] == "none" else tab["unit"]
    return d


def deep_diff(a, b, path):
    """Paths at which two result structures differ; numbers are compared with == (2 == 2.0), None only equals None."""
    if isinstance(a, dict) and isinstance(b, dict):
        out = []
        for k in sorted(set(a) | set(b), key=str):
            if k not in a or k not in b:
                out.append("%s.%s:missing" % (path, k))
            else:
                out += deep_diff(a[k], b[k], "%s.%s" % (path, k))
        return out
    if isinstance(a, (list, tuple)) and isinstance(b, (list, tuple)):
        if len(a) != len(b):
            return ["%s:len" % path]
        out = []
        for n, (x, y) in enumerate(zip(a, b)):
            out += deep_diff(x, y, "%s[%d]" % (path, n))
        return out
    num = lambda x: isinstance(x, (int, float)) and not isinstance(x, bool)
    if num(a) and num(b):
        return [] if a == b else [path]
    if type(a) is type(b) and a == b:
        return []
    return [path]


# ---------------------------------------------------------------------------------------------------
# inputs
# ---------------------------------------------------------------------------------------------------
_RE_STATE = re.compile(r"^/\\ inp = (.*?)(?=^/\\ |\Z)", re.M | re.S)


def dump_inputs(path):
    """The inputs of all evaluated states of a TLC dump (only the inp conjunct is parsed)."""
    with open(path, "r", encoding="utf-8") as f:
        text = f.read()
    out = []
    for block in text.split("State ")[1:]:
        if "/\\ done = TRUE" not in block:
            continue
        m = _RE_STATE.search(block)
        if not m:
            raise tlc.MachineryError("cannot find inp in dumped state: %s" % block[:200])
        out.append(to_json(parse_value(m.group(1))))
    return out


def random_store(rnd, big):
    """A seeded random store that is not derived from the model's state space: more tasks, wider values."""
    ntasks = rnd.randint(1, 3)
    sched = with_op_names([["t%d" % (i + 1), rnd.random() < 0.75] for i in range(ntasks)], rnd.choice([0, 0, 1, 2]))
    recs = []
    ap = list(NOAP)
    vmax = rnd.choice([1, 3, 10, 1000, 10000])
    for name, *_ in sched:
        for m in TASK_METRICS:
            if rnd.random() < 0.25:
                continue
            n = rnd.choice([0, 1, 1, 2, 3, 5, 8, 9, 10, 11, 12, 20, 33]) if not big else rnd.choice([50, 99, 100, 101, 180, 260])
            pfail = rnd.choice([0, 0, 0.1, 0.5, 1])
            zero = rnd.random() < 0.15
            for _ in range(n):
                v = 0 if zero and rnd.random() < 0.8 else rnd.randint(0, vmax)
                recs.append([m, name, True, True, v, rnd.random() >= pfail, rnd.randint(0, 500)])
            for _ in range(rnd.choice([0, 0, 1, 3, 7])):
                recs.append([m, name, True, False, rnd.randint(0, vmax * 2), rnd.random() >= 0.5, rnd.randint(0, 600)])
        if rnd.random() < 0.3:  # dependent timings: same task, other operation type
            for _ in range(rnd.randint(1, 3)):
                recs.append(["svc", name, False, rnd.random() < 0.8, rnd.randint(0, vmax), rnd.random() < 0.5, rnd.randint(0, 600)])
    for g in ("g_tt", "g_ygc", "g_mseg", "g_segc"):
        if rnd.random() < 0.4:
            for _ in range(rnd.randint(1, 4)):
                recs.append([g, "", True, True, rnd.randint(0, 50), True, 0])
    if rnd.random() < 0.3:
        m = rnd.choice(TASK_METRICS)
        name = sched[0][0]
        recs = [r for r in recs if not (r[0] == m and r[1] == name and r[2] and r[3])]
        n = rnd.choice([1, 2, 9, 10, 99, 100, 999, 1000, rnd.randint(1, 1500)] + ([9999, 10000, rnd.randint(1001, 12000)] if big else []))
        tn = rnd.choice([0, 0, 1, 3, 20])
        tn = tn if tn <= n else 0
        ap = [m, name, n, rnd.randint(0, 100), rnd.randint(0, 3), rnd.randint(0, n) if m == "svc" and rnd.random() < 0.7 else 0, tn, rnd.choice([1, 50, 700]) if tn else 0]
    rnd.shuffle(recs)
    return {"kind": "store", "sched": sched, "S": {"recs": recs, "ap": ap}}


def _n_normal(S, m, t):
    n = sum(1 for r in S["recs"] if r[0] == m and r[1] == t and r[2] and r[3])
    if S["ap"][2] > 0 and S["ap"][0] == m and S["ap"][1] == t:
        n += S["ap"][2]
    return n


def _sig(item, clauses):
    sig = {"kind": item["kind"], "clauses": sorted(clauses)}
    if item["kind"] == "store":
        zero = False
        for n, (name, *_) in enumerate(item["sched"]):
            vals = sorted(r[4] for r in item["S"]["recs"] if r[0] == "tp" and r[1] == name and r[2] and r[3])
            ap = item["S"]["ap"]
            if ap[2] > 0 and ap[0] == "tp" and ap[1] == name:
                at = lambda i: ap[3] + i * ap[4] + ((i - (ap[2] - ap[6]) + 1) * ap[7] if i >= ap[2] - ap[6] else 0)
                mean0 = at(ap[2] - 1) == 0  # values are non-negative and non-decreasing
                med0 = at((ap[2] - 1) // 2) + at(ap[2] // 2) == 0
            elif vals:
                mean0 = sum(vals) == 0
                k = len(vals)
                med0 = (vals[(k - 1) // 2] + vals[k // 2]) == 0
            else:
                continue
            tp = item["R"]["ops"][n]["tp"]
            if item["R"]["ops"][n]["p"] and (mean0 or med0) and tp["mean"]["d"] == 0 and tp["med"]["d"] == 0:
                zero = True
        # the throughput summary is all None although normal samples exist whose mean or median is 0
        sig["zero_throughput_reported_as_none"] = zero
        sig["crashed"] = bool(item.get("crash"))
    return sig


def _short(item):
    if item["kind"] == "doc":
        return "doc has=%s ops=%d" % (item["doc"]["has"], len(item["doc"]["ops"]))
    S = item["S"]
    recs = S["recs"] if len(S["recs"]) <= 12 else S["recs"][:12] + ["..."]
    tp = [o["tp"] for o in item["R"]["ops"]][:1]
    if item.get("crash"):
        tp = "implementation raised " + item["crash"]
    return "sched=%s ap=%s unit-scale=%r recs=%s -> throughput[0]=%s" % (item["sched"], S["ap"], item["u"], recs, tp)


def _validate(out, items, name):
    index = {it["id"]: it for it in items}
    payload = [{k: v for k, v in it.items() if k not in ("u", "crash", "ot", "tele", "ho", "uni", "es")} for it in items]
    verdicts = tracecheck.validate("Stats", "TraceStats", "TraceStats.cfg", payload, name=name, chunk=4000, timeout=1500)
    out.traces_validated += verdicts.accepted(len(items))
    for tid, fails in verdicts.l1.items():
        it = index[tid]
        clauses = sorted({c for _, cl in fails for c in cl})
        case = {k: it[k] for k in ("kind", "sched", "S", "u", "ot", "tele", "ho", "uni", "es", "doc") if k in it}
        out.violations.append(Violation(",".join(clauses), case, signature=_sig(it, clauses), detail=_short(it)))
    out.violations.sort(key=lambda v: (len(v.case.get("S", {}).get("recs", [])) + v.case.get("S", {}).get("ap", NOAP)[2], repr(v.case)))
    for tid in verdicts.l2:
        out.drift.append("case %s: results differ from the transcription of esrally.metrics (%s)" % (tid, _short(index[tid])[:300]))
    return verdicts


def run(ctx, out):
    out.rule = (
        "case = (schedule [task, include-in-reporting, operation name], multiset of metric records [metric, task, operation type own/other, sample type, value, success, "
        "relative time] incl. an optional arithmetic progression of n records with a heavy tail of outliers, unit scale) or a result document; distinct by "
        "hash; non-trivial = at least one normal record of a task metric (stores) / at least one key present (documents). "
        "Sources: every state of the TLC state space of Stats.tla (S2C, exhaustive over the bounded inputs), seeded random "
        "stores with up to 3 tasks, values up to 10^4 and bags up to 260 / progressions up to 12000 records (C2S only)."
    )
    out.assumptions = [
        "floats returned by the implementation are identified with rationals: a percentile / min / max / sum with the multiple of "
        "1/10^4 it agrees with to 1e-9 relative to the largest input value of the store (exact percentiles of integer data lie on that "
        "grid; the float error of the interpolation scales with the neighbouring values), a mean / error rate with the closest rational "
        "of denominator <= 2*10^4, which it must agree with to 1e-9 relative to max(1,|x|); a float that agrees with none is 'equal to nothing'",
        "inputs are integers v fed as v*u for a unit scale u in {1, 1.0, 0.5, 0.001, 1000.0, 0.1}; results are divided by u again "
        "(percentiles, mean, min, max are homogeneous); arbitrary 64-bit floats as inputs are not covered",
        "'results' of C08 = the statistics (throughput summary, percentile tables, means, error rate); the unit string and the "
        "task duration (not in the summary report, taken from the latest service_time record of any sample type) are only "
        "checked for conformance with the transcription (L2) and for the round trip",
        "'the requests / samples of the task' = normal records with the task's name AND the task's own operation type (the intent of "
        "get_error_rate(task, operation_type, sample_type) and of every getter call of GlobalStatsCalculator): service_time records of "
        "the same task with another operation type and their own success flags (dependent timings of the sub-requests of a composite "
        "operation) must not enter the task's error rate or statistics; judged at L1 (ErrorRate, MeanMinMax, percentile clauses)",
        "every reported percentile (tables, throughput median, direct getter answers) must be the linear-interpolation value "
        "(rank p/100*(n-1), interpolation between the neighbouring sorted values) up to the float tolerance above: L1 clause "
        "PctLinearInterpolation; which percentiles are reported for which n (thresholds 1/10/100/1000/10000) and the error rate "
        "with no normal service_time record (0.0) are L2 (the statement only requires the percentile set to be a function of the "
        "sample count, which is also checked across all cases)",
        "the results calculate_results returned are read per task as the summary report does (entry of op_metrics whose task is "
        "the task); the results read back from race.json are read per task through GlobalStats.metrics(task) as compare does; "
        "RoundTrip demands that both agree for every task of the schedule, also when an operation is named like another task",
        "system metrics (telemetry) are represented by indexing_total_time, node_total_young_gen_gc_time (sums), "
        "segments_memory_in_bytes (median), segments_count (int of median) and are never of warm-up type; all other result keys "
        "take part only in the == comparison of original and reloaded results",
        "the store the results are calculated from is filled either directly or, in two thirds of the cases, the way race control fills "
        "it: request metrics go into a second (load driver) store and reach the coordinator's store through k >= 2 non-empty "
        "to_externalizable(clear=True) -> bulk_add hand-overs (per task as with TaskFinished / BenchmarkComplete, or cut at arbitrary "
        "points); the model's store is the bag of ALL records, so every L1 clause is judged against all normal samples of the race",
        "a few races carry non-ASCII task / operation names and user tags and are read back (find_by_race_id, list) by a child "
        "interpreter started with LC_ALL=C, PYTHONUTF8=0, PYTHONCOERCECLOCALE=0 (preferred encoding ASCII) that imports esrally from "
        "the tree under test; RoundTrip is judged on what that process read; other non-UTF-8 locales (Latin-1) are not exercised",
        "every percentile percentiles_for_sample_size (the implementation's own function, asked for the count get_stats reports) "
        "chooses must be reported under a key of its own (L1 PctKeysFaithful: encode_float_key loses / merges nothing; judged on the "
        "stored key set, also after the race.json round trip through RoundTrip); which percentiles are chosen for which n stays L2",
        "query leg: a part of the cases is also calculated on a real EsMetricsStore (datastore.type = elasticsearch is what race control "
        "would use) whose client is a fake that evaluates every search against the case's documents (term filters select, stats / "
        "percentiles / terms aggregations are computed exactly, percentiles by the linear-interpolation definition); real Elasticsearch "
        "percentiles are approximate (t-digest) - that approximation, the write side (bulk indexing, covered by the extra EsStore) and "
        "EsRaceStore / EsResultsStore are not part of C08's evidence; progressions of more than 1000 records stay in-memory only",
        "JSON / the file system are trusted (real json module, real files under a scratch root.dir)",
    ]
    rnd = random.Random(ctx.seed + 8)
    tier = "quick" if ctx.quick else "thorough"
    # ---- leg M
    wd = tlc.prepare_workdir("Stats", "c08mc")
    dump = os.path.join(wd, "states.dump")
    res = tlc.run_tlc(wd, "MC_Stats", "Stats.%s.cfg" % tier, timeout=900, dump=dump, allow_violation=True, workers=4 if ctx.quick else 8)
    out.add_tlc(res)
    if not res.ok:
        raise tlc.MachineryError("model violates %s (%s)" % (res.invariant_violated, res.out[-1500:]))
    out.note("leg M Stats.%s.cfg: %d distinct states in %.1fs" % (tier, res.distinct, res.wall_s))
    wd2 = tlc.prepare_workdir("Stats", "c08pinned")
    res2 = tlc.run_tlc(wd2, "MC_Stats", "Stats.pinned.cfg", timeout=300, allow_violation=True, workers=2)
    if res2.invariant_violated != "PropertyHolds":
        raise tlc.MachineryError("self-test failed: pinned variant of the model (ZeroThroughputFix=FALSE) does not violate the property")
    out.extra["model_selftest"] = "pinned variant (ZeroThroughputFix=FALSE: `if mean and median and stats`) violates PropertyHolds in the model, as expected"

    # ---- leg S2C: every evaluated state is executed on the real code
    impl = Impl(tlc.scratch("c08impl"))
    inputs = dump_inputs(dump + ".dump" if os.path.exists(dump + ".dump") else dump)
    inputs.sort(key=repr)
    base2 = [["t1", True], ["t2", False]]  # as Sched2 of MC_Stats.tla; the operation names vary from case to case
    items = []
    es_items = []
    es_mod = 7 if ctx.quick else 40
    kinds = {"store": 0, "ap": 0, "doc": 0}
    for n, inp in enumerate(inputs):
        if inp["kind"] == "store":
            S = {"recs": [list(r) for r in inp["S"]["recs"]], "ap": list(inp["S"]["ap"])}
            sched2 = with_op_names(base2, (0, 1, 0, 2)[n % 4])
            it = {"id": "s%d" % n, "kind": "store", "sched": sched2, "S": S, "u": rnd.choice(SCALES)}
            if n % 4 == 0:
                it["tele"] = n % 3
            it["ho"] = (1, 2, 0)[n % 3]
            if n % 400 == 3:
                it["uni"] = n
            impl.run_store(it, rnd)
            kinds["ap" if S["ap"][2] > 0 else "store"] += 1
            if n % es_mod == 2 and S["ap"][2] <= 1000:
                # query leg: the same case with the Elasticsearch metrics store in front of the same documents
                eit = {"id": "e%d" % n, "kind": "store", "sched": sched2, "S": {"recs": [list(r) for r in S["recs"]], "ap": list(S["ap"])}, "u": it["u"], "ho": it["ho"], "es": True}
                if "tele" in it:
                    eit["tele"] = it["tele"]
                impl.run_store(eit, rnd)
                es_items.append(eit)
                out.add_case(("es-store", sched2, sorted(S["recs"], key=repr), S["ap"]), nontrivial=any(_n_normal(S, m, "t1") for m in TASK_METRICS))
            out.add_case(("store", sched2, sorted(S["recs"], key=repr), S["ap"]), nontrivial=any(_n_normal(S, m, "t1") for m in TASK_METRICS))
        else:
            doc = inp["doc"]
            it = {"id": "s%d" % n, "kind": "doc", "doc": {"has": sorted(doc["has"]), "g": doc["g"], "hasOps": doc["hasOps"], "ops": doc["ops"]}, "u": 1}
            impl.run_doc(it)
            kinds["doc"] += 1
            out.add_case(("doc", it["doc"]), nontrivial=bool(doc["has"]) or doc["hasOps"])
        items.append(it)
    out.exhaustive = True
    out.note("leg S2C: %d TLC states executed on the real metrics code (%s); operation names: next task's name / shared / own; "
             "store filled by hand-overs per task / by arbitrary hand-overs (to_externalizable -> bulk_add, as race control) / directly" % (len(items), kinds))
    for it in (items[len(items) // 3], next(i for i in items if i["kind"] == "store" and i["S"]["ap"][2] >= 100)):
        out.sample({"sched": it.get("sched"), "store": it.get("S"), "unit_scale": it["u"], "results_task1": it["R"]["ops"][0] if it["R"]["ops"] else None, "reload_diff": it["diff"]})
    # ---- seeded random stores, not derived from the model
    rnd_items = []
    k = 250 if ctx.quick else 3000
    for n in range(k):
        it = random_store(random.Random(ctx.seed * 100003 + n), big=(n % 10 == 0))
        it["id"] = "r%d" % n
        it["u"] = rnd.choice(SCALES)
        it["ot"] = op_types(it["sched"], rnd)
        if n % 3 == 0:
            it["tele"] = n % 5
        it["ho"] = (1, 0, 2, 1)[n % 4]
        if n % 50 == 7:
            it["uni"] = 1000000 + n
        if n % (4 if ctx.quick else 10) == 1 and it["S"]["ap"][2] <= 1000:
            it["es"] = True
        impl.run_store(it, rnd)
        rnd_items.append(it)
        out.add_case(("store", it["sched"], sorted(it["S"]["recs"], key=repr), it["S"]["ap"]), nontrivial=any(_n_normal(it["S"], m, t) for m in TASK_METRICS for t, *_ in it["sched"]))
    out.note("random stores executed: %d" % len(rnd_items))
    out.sample({"random": {"sched": rnd_items[1]["sched"], "n_records": len(rnd_items[1]["S"]["recs"]), "ap": rnd_items[1]["S"]["ap"], "results_task1": rnd_items[1]["R"]["ops"][0]}})
    n_es = len(es_items) + sum(1 for it in rnd_items if it.get("es"))
    out.extra["es_query_leg"] = "%d cases calculated with the real GlobalStatsCalculator on a real EsMetricsStore; its %d search requests were evaluated against the case's documents (term filters, stats / percentiles / terms aggregations, sort, size) by harness/esquery.py" % (n_es, impl.searches)
    out.note(out.extra["es_query_leg"])
    if n_es < 100 or impl.searches < 1000:
        raise tlc.MachineryError("query leg too small: %d cases, %d searches" % (n_es, impl.searches))
    items = items + es_items
    # ---- races with non-ASCII names / tags are read back by a child interpreter whose preferred encoding is not UTF-8
    enc = impl.read_back_in_child(items + rnd_items)
    n_uni = sum(1 for it in items + rnd_items if it.get("uni") is not None)
    out.extra["non_utf8_reader"] = "%d races with non-ASCII task / operation names and user tags read back (find_by_race_id, list) by a child interpreter with preferred encoding %s" % (n_uni, enc)
    out.note(out.extra["non_utf8_reader"])
    if n_uni < 3:
        raise tlc.MachineryError("too few non-ASCII races (%d)" % n_uni)
    # ---- leg C2S
    _validate(out, items + rnd_items, "c08trace")


def replay(ctx, case):
    from ..core import Outcome

    impl = Impl(tlc.scratch("c08impl"))
    it = dict(case)
    it["id"] = "replay"
    if it["kind"] == "store":
        impl.run_store(it, random.Random(0))
        impl.read_back_in_child([it])
    else:
        impl.run_doc(it)
    o = Outcome("C08")
    _validate(o, [it], "c08replay")
    for v in o.violations:
        print("VIOLATION property=C08 clause=%s %s" % (v.clause, v.detail))
    return 1 if o.violations else 0
