"""C01 — the schedule runs step by step on all clients under any message timing.

Leg M   : TLC on RaceDriver.tla: safety invariants (barrier, exactly-once, completion once, completed-by rules, no stall)
          over all interleavings of a scenario family, and liveness (<>Complete under weak fairness).
Leg S2C : TLC -simulate behaviours and the counterexamples of the pinned model variants ("trap" schedules) are
          replayed into the REAL DriverActor/Driver/Worker/AsyncIoAdapter/AsyncExecutor under SimActorSystem.
Leg C2S : every recorded execution (also seeded random schedules, clock offsets, non-test mode) is validated by TLC
          against TraceRaceDriver.tla.
"""
import re

from .. import tlc
from ..tlaparse import parse_value, to_json
from . import racecommon as rc

CLAUSES = rc.C01_CLAUSES


def trap_schedules(out):
    """Counterexamples TLC finds for the pinned model variants become schedules for the real code."""
    traps = []
    for cfg, what in (("RaceDriver.live.pinned.cfg", "NoHang"), ("RaceDriver.pinned.cfg", "NoStall"), ("RaceDriver.stale.pinned.cfg", "NoSpuriousFailure")):
        wd = tlc.prepare_workdir("RaceDriver", "racetrap")
        res = tlc.run_tlc(wd, "MC_RaceDriver", cfg, timeout=900, allow_violation=True, workers=8)
        if res.ok:
            raise tlc.MachineryError("self-test failed: %s finds no %s counterexample any more" % (cfg, what))
        scn = None
        script = []
        for _label, text in res.counterexample:
            m = re.search(r"^/\\ scn = (.*?)(?=^/\\ |\Z)", text, flags=re.M | re.S)
            if m and scn is None:
                scn = {k: v for k, v in to_json(parse_value(m.group(1))).items() if k in ("sched", "workerOf", "W")}
            ma = re.search(r"^/\\ act = (.*?)(?=^/\\ |\Z)", text, flags=re.M | re.S)
            if ma:
                a = parse_value(ma.group(1))
                if str(a["name"]) != "Init":
                    script.append((str(a["name"]), a.get("w", a.get("c", a.get("i", 0)))))
        if scn is None or not script:
            raise tlc.MachineryError("could not extract a counterexample from %s" % cfg)
        traps.append((scn, script, cfg))
    out.extra["model_selftest"] = "pinned variants violate NoHang (CctFix=FALSE), NoStall (SkipFix=FALSE) and NoSpuriousFailure (StaleResetFix=FALSE, non-test mode) in the model, as expected"
    return traps


def run(ctx, out):
    out.rule = (
        "case = (scenario, sequence of scheduling decisions: message deliveries, wake-ups, executor starts, request completions) executed on the real actors; "
        "distinct by hash of scenario+decision sequence; non-trivial = more than 10 decisions. Sources: TLC -simulate behaviours of RaceDriver.tla, "
        "TLC counterexamples of the pinned model variants (trap schedules), seeded fair random schedules."
    )
    out.assumptions = [
        "Thespian semantics as reproduced by harness/simactor.py: FIFO per (sender, receiver) pair, handlers run to completion, wake-ups never early",
        "executor thread interleaves with the actor thread only at request boundaries (it reads `complete`/`cancel` once per request); the harness runs it on a virtual-time asyncio loop",
        "scenarios: <= 3 workers, <= 3 clients, <= 2 schedule elements, iteration-based, time-period based and eternal tasks, unthrottled; hand-written families (exhaustive in TLC) plus a seeded GENERATED family (1-3 tasks per parallel, 1-2 clients per task, optional clients cap, completed-by task/any; simulation + conformance only)",
        "liveness is checked on the model under weak fairness; on the real code a hang is diagnosed when full round-robin sweeps of all enabled decisions no longer change the control state",
    ]
    # ---- Leg M
    rc.model_check(out, ["RaceDriver.c01.quick.cfg", "RaceDriver.live.cfg", "RaceDriver.stale.cfg"] if ctx.quick else ["RaceDriver.c01.thorough.cfg", "RaceDriver.live.thorough.cfg", "RaceDriver.stale.cfg"], timeout=3000)
    traps = trap_schedules(out)
    # ---- Leg S2C
    jobs = []
    for scn, script, cfg in traps:
        for k in range(2):
            jobs.append({"scn": scn, "script": script, "seed": ctx.seed + k, "test_mode": "stale" not in cfg, "qmax": 100})
    beh = rc.behaviours(ctx, out, 120 if ctx.quick else 1200, 100)
    # generated scenario family (schedules drawn by the harness, see racecommon.gen_scenarios)
    gbeh, ngen = rc.behaviours_gen(ctx, out, 40 if ctx.quick else 500, 40 if ctx.quick else 500, 100)
    for i, (scn, script) in enumerate(gbeh):
        jobs.append({"scn": scn, "script": script, "seed": ctx.seed + 5000 + i, "test_mode": i % 2 == 0, "qmax": 100})
    out.extra["generated_scenarios"] = ngen
    out.note("leg S2C: %d TLC behaviours + %d trap schedules" % (len(beh), len(traps)))
    for i, (scn, script) in enumerate(beh):
        jobs.append({"scn": scn, "script": script, "seed": ctx.seed + i, "test_mode": True, "qmax": 100})
    # ---- random schedules not derived from TLC: all scenarios, non-test mode, clock offsets
    scns = []
    seen = set()
    for scn, _ in beh:
        key = repr(scn)
        if key not in seen:
            seen.add(key)
            scns.append(scn)
    reps = 4 if ctx.quick else 24
    for i, scn in enumerate(scns):
        for k in range(reps):
            jobs.append({"scn": scn, "script": [], "seed": ctx.seed + 1000 + 31 * i + k, "test_mode": k % 2 == 0, "qmax": 100, "offsets": [0.0, 3.5, -2.25] if k % 3 else None})
    stats, index = rc.run_races(ctx, out, jobs, CLAUSES, "c01")
    rc.binding_selftest(out, index)
    out.extra["schedule_steps_followed"] = stats["followed"]
    out.extra["schedule_steps_not_enabled"] = stats["skipped"]
    out.extra["races_run"] = len(jobs)
    out.extra["races_hanging"] = stats["hangs"]
    some = index[sorted(index)[0]]
    out.sample({"scenario": some[0]["scn"], "decisions": [(e["ev"], e["arg"]) for e in some[1]["events"]][:40]})
    out.note("leg C2S: %d races, %d traces accepted by TLC, %d schedule steps followed, %d not enabled" % (len(jobs), out.traces_validated, stats["followed"], stats["skipped"]))
    # trusted base: the simulated actor system against the REAL Thespian actor system (informational, see specs/ActorSem)
    try:
        from ..core import Outcome
        from ..extras import actorsem

        sub = Outcome("X-actorsem")
        actorsem.run(ctx, sub)
        out.extra["actor_semantics_crosscheck"] = "ok: real Thespian and SimActorSystem logs satisfy ActorSem.tla" if not sub.violations else "FAILED: %s" % [v.clause for v in sub.violations]
        if sub.violations:
            out.drift.append("actor semantics cross-check failed: %s" % [(v.signature.get("system"), v.clause) for v in sub.violations])
    except Exception as ex:  # pylint: disable=broad-except
        out.extra["actor_semantics_crosscheck"] = "not run: %s" % ex
    real_race_leg(ctx, out)


def real_race_leg(ctx, out):
    """Trusted base, second part: real `esrally race` processes under the real Thespian actor system, recorded through the
    ESRALLY_VERIF_TRACE hooks and validated by TLC against specs/RealRace (see harness/extras/realrace.py). Informational."""
    try:
        from ..core import Outcome
        from ..extras import realrace

        sub = Outcome("X-realrace")
        realrace.run(ctx, sub)
        notes = [n for n in getattr(sub, "notes", []) if "race " in n or "skipped" in n]
        if sub.violations or sub.drift:
            out.extra["real_race_crosscheck"] = "REJECTED: %s %s" % ([v.clause for v in sub.violations][:5], sub.drift[:2])
            out.drift.append("real-race leg: %s %s" % ([(v.clause, v.detail[:120]) for v in sub.violations][:3], sub.drift[:2]))
        else:
            out.extra["real_race_crosscheck"] = "ok: %d real races accepted by TLC against RealRace.tla (%s)" % (sub.traces_validated, "; ".join(notes)[:600])
        out.states += sub.states
    except Exception as ex:  # pylint: disable=broad-except
        out.extra["real_race_crosscheck"] = "not run: %s" % ex


def replay(ctx, case):
    return rc.replay_case(ctx, case, CLAUSES, "C01")
