"""C02 — every task gets exactly its clients; clients are partitioned over workers.

Leg M   : TLC enumerates every schedule / host list within the bounds (MC_Allocator.tla over the pure operators of
          Allocator.tla, which transcribe Allocator.allocations / join_points / tasks_per_joinpoint and
          calculate_worker_assignments) and checks the clauses of C02 on the transcription's results.
Leg S2C : every TLC input state becomes real track.Task / track.Parallel / track.Operation objects and is run through the
          real Allocator resp. calculate_worker_assignments; schedules "left empty by filters" are produced by running the
          real TaskFilterTrackProcessor on TLC-generated schedules (never hand-built).
          Every TLC-enumerated host / core / client layout (and a sample of the TLC schedules on seeded layouts) is also run
          through the real Driver.prepare_benchmark + Driver.start_benchmark with a recording driver actor: which workers
          are created where, and the client ids of the allocation rows in every StartWorker at the time it is sent.
Leg C2S : every recorded result (also seeded random larger shapes: <= 6 elements, <= 64 clients, <= 8 hosts) is validated
          by TLC against TraceAllocator.tla: L1 = the C02 clauses on the recorded matrices / assignments / StartWorker
          contents, L2 = equality with the transcription.
"""
import json
import os
import random

from .. import rallysched as rs
from .. import tlc, tracecheck
from ..core import Violation


def alloc_item(tid, objs, origin, l2=True):
    """objs: real schedule elements. The recorded schedule is the projection of the very objects given to Allocator."""
    s = rs.project_schedule(objs)
    it = {"id": tid, "kind": "alloc", "s": s, "l2": l2, "origin": origin}
    try:
        it.update(rs.observe_allocator(objs))
        it["walk"] = "ok" if it["progress"] == "ok" else "na" if it["progress"].startswith("n/a") else "fail"
    except tlc.MachineryError:
        raise
    except Exception as ex:  # pylint: disable=broad-except
        it["crash"] = str(ex) if isinstance(ex, rs.ObservedCrash) else "%s: %s" % (type(ex).__name__, ex)
    return it


def assign_item(tid, hosts, n, l2=True):
    it = {"id": tid, "kind": "assign", "hosts": hosts, "n": n, "l2": l2, "origin": {"src": "direct"}}
    try:
        it["a"] = rs.observe_assign(hosts, n)
    except tlc.MachineryError:
        raise
    except Exception as ex:  # pylint: disable=broad-except
        it["crash"] = str(ex) if isinstance(ex, rs.ObservedCrash) else "%s: %s" % (type(ex).__name__, ex)
    return it


def _leaf(n):
    return {"k": "task", "name": "t", "type": "bulk", "tags": [], "clients": n, "cp": False, "acp": False}


def start_item(tid, hosts, s, origin, l2=True):
    """Runs the real Driver.start_benchmark for load-driver hosts `hosts` and the written schedule s."""
    it = {"id": tid, "kind": "start", "hosts": hosts, "sched": s, "l2": l2, "origin": origin}
    try:
        it.update(rs.observe_start(hosts, rs.build_schedule(s)))
    except tlc.MachineryError:
        raise
    except Exception as ex:  # pylint: disable=broad-except
        it["crash"] = str(ex) if isinstance(ex, rs.ObservedCrash) else "%s: %s" % (type(ex).__name__, ex)
    return it


def filtered_item(tid, s, rnd):
    """Runs the real task filter on schedule s with a seeded exclude / include list and allocates what is left."""
    els = [i for i, el in enumerate(s)]
    e = rnd.choice(els)
    names = [t["name"] for t in (s[e]["tasks"] if s[e]["k"] == "par" else [s[e]])]
    r = rnd.random()
    if r < 0.6:
        mode, chosen = "exclude", names  # every task of one element
    elif r < 0.8:
        mode, chosen = "exclude", rnd.sample(names, rnd.randint(1, len(names)))
    else:
        allnames = [t["name"] for t in rs.leaves(s)]
        mode, chosen = "include", rnd.sample(allnames, rnd.randint(1, len(allnames)))
    filters = [{"k": "name", "v": n} for n in chosen]
    objs = rs.build_schedule(s)
    try:
        post = rs.run_filter([objs], filters, mode)[0]
    except tlc.MachineryError:
        raise
    except Exception:  # pylint: disable=broad-except
        return None  # a failing filter is C11's business; there is no schedule to allocate
    return alloc_item(tid, post, {"src": "task-filter", "pre": s, "filters": filters, "mode": mode})


def _sig(it, clauses):
    sig = {"kind": it["kind"], "clauses": sorted(clauses), "origin": it["origin"]["src"]}
    if it["kind"] == "alloc":
        # a schedule with an empty parallel element only arises when a task filter removes every task of a parallel
        # (TaskFilterTrackProcessor leaves the emptied element in place, property C11)
        sig["empty_parallel"] = rs.has_empty_parallel(it["s"])
        if it["origin"]["src"] == "task-filter":
            sig["filter_mode"] = it["origin"]["mode"]
    return sig


def random_items(seed, n_alloc, n_assign, n_start):
    rnd = random.Random(seed)
    items = []
    for i in range(n_alloc):
        big = i % 4 == 0
        s = rs.random_schedule(rnd, max_elements=6, max_clients=64 if big else 12, max_par=4 if big else 3)
        it = filtered_item("rf%d" % i, s, rnd) if i % 3 == 2 and s else None
        if it is not None:
            items.append(it)
        else:
            items.append(alloc_item("ra%d" % i, rs.build_schedule(s, rnd), {"src": "direct"}))
    for i in range(n_assign):
        hosts = [{"host": "10.0.0.%d" % h, "cores": rnd.choice([1, 2, 3, 4, 8, 16, 32, 64])} for h in range(rnd.randint(1, 8))]
        items.append(assign_item("rw%d" % i, hosts, rnd.randint(1, 64)))
    for i in range(n_start):
        if i % 5 == 0:
            hosts = [{"host": "localhost", "cores": rnd.choice([1, 2, 4, 8, 16])}]
        else:
            uniform = rnd.choice([1, 2, 3, 4, 8, 16])
            hosts = [{"host": "10.0.0.%d" % h, "cores": uniform if i % 2 else rnd.choice([1, 2, 3, 4, 8, 16])} for h in range(rnd.randint(1, 8))]
        big = i % 4 == 0
        s = rs.random_schedule(rnd, max_elements=4, max_clients=64 if big else 12, max_par=3) if i % 2 else [_leaf(rnd.randint(1, 64))]
        items.append(start_item("rs%d" % i, hosts, s, {"src": "start"}))
    return items


# known-bad items appended to every validation run: guard against verdict lines getting lost
_JP = lambda i: {"k": "jp", "id": i, "cby": [], "any": []}  # noqa: E731
CANARIES = [
    {
        "id": "canary1",
        "kind": "alloc",
        "l2": False,
        "s": [{"k": "task", "name": "a", "type": "x", "tags": [], "clients": 2, "cp": False, "acp": False}],
        "m": [[_JP(0), {"k": "task", "task": "a", "idx": 0, "gidx": 0, "total": 2}, _JP(1)], [_JP(0), {"k": "none"}, _JP(1)]],
        "jps": [_JP(0), _JP(1)],
        "tpj": [],
        "clients": 2,
        "walk": "fail",
    },
    {
        # a ClientAllocations container that is only reset per host: the second worker also gets the first worker's rows
        "id": "canary3",
        "kind": "start",
        "l2": False,
        "hosts": [{"host": "h", "cores": 2}],
        "n": 3,
        "a": [{"host": "h", "workers": [[0, 1], [2]]}],
        "created": [{"wid": 0, "host": "h"}, {"wid": 1, "host": "h"}],
        "sent": [{"wid": 0, "host": "h", "rows": [0, 1], "rowok": True, "ctx": [0, 1]}, {"wid": 1, "host": "h", "rows": [0, 1, 2], "rowok": True, "ctx": [2]}],
        "cpw": [0, 0, 1],
    },
    {"id": "canary2", "kind": "assign", "l2": False, "hosts": [{"host": "h", "cores": 2}], "n": 4, "a": [{"host": "h", "workers": [[0, 2, 1], []]}]},
]


def _case_of(it):
    if it["kind"] == "alloc":
        return {"kind": "alloc", "s": it["s"], "origin": it["origin"]}
    if it["kind"] == "start":
        return {"kind": "start", "hosts": it["hosts"], "s": it["sched"], "origin": it["origin"]}
    return {"kind": "assign", "hosts": it["hosts"], "n": it["n"], "origin": it["origin"]}


def validate(items, out, name="c02trace"):
    """C2S; returns list of (item, clauses) of L1 failures."""
    crashed = [it for it in items if "crash" in it]
    ok = [it for it in items if "crash" not in it]
    bad = [(it, ["NoResult"]) for it in crashed]
    index = {it["id"]: it for it in ok}
    payload = [{k: v for k, v in it.items() if k not in ("origin", "progress", "sched")} for it in ok]
    if any(len(it["id"]) > 12 for it in payload):
        raise tlc.MachineryError("trace ids must stay short (TLC wraps long verdict lines)")
    verdicts = tracecheck.validate("Allocator", "TraceAllocator", "TraceAllocator.cfg", payload + CANARIES, name=name, chunk=None, timeout=1500)
    got = tuple(sorted({c for _, cl in verdicts.l1.pop(cid, []) for c in cl}) for cid in ("canary1", "canary2", "canary3"))
    if got != (
        ["DriverWalksEveryStep", "EntriesAreElements", "IndicesExactlyOnce", "OneEntryPerStep"],
        ["BalancedOnHost", "ContiguousRanges", "ExactPartition"],
        ["RowsPartitionClients", "WorkerGetsAssignedClients"],
    ):
        raise tlc.MachineryError("trace validation lost verdicts: the known-bad canary items were reported as %s" % (got,))
    if out is not None:
        out.traces_validated += verdicts.accepted(len(ok))
        for tid in verdicts.l2:
            out.drift.append("case %s (%s): result differs from the transcription in Allocator.tla" % (tid, index[tid]["kind"]))
    for tid, fails in verdicts.l1.items():
        bad.append((index[tid], sorted({c for _, cl in fails for c in cl})))
    return bad


def run(ctx, out):
    out.rule = (
        "case = a schedule (sequence of leaf tasks / parallel elements with clients, cap, completed-by) or a (host list with cores, client count); "
        "distinct by hash of the input; non-trivial = schedule with at least one parallel element or two elements / more than one worker. "
        "Sources: every input state of MC_Allocator.tla (S2C, exhaustive within the bounds), the same schedules after the real task filter, "
        "seeded random larger shapes (<= 6 elements, <= 64 clients, <= 8 hosts). 'start' cases = the real Driver.start_benchmark on a host layout and a schedule "
        "(every TLC layout with a one-task schedule of n clients, every 10th TLC schedule on a seeded layout, seeded random ones)."
    )
    out.assumptions = [
        "task names are unique within a schedule (the track loader rejects duplicates); every task and every parallel cap has clients >= 1; every host has >= 1 core; at least one host",
        "the allocation matrix, join points and progress entries are read from the attributes of the real objects (JoinPoint.id, TaskAllocation.client_index_in_task, ...)",
        "a schedule element without tasks only arises from a task filter (the loader's schema requires at least one task in a parallel)",
        "Driver.start_benchmark is observed through a recording stand-in for DriverActor (create_client / start_worker calls, contents snapshotted at call time as the actor "
        "system serialises a message when it is sent); Driver.prepare_benchmark knows one core count for all hosts, for layouts with different core counts "
        "Driver.load_driver_hosts is set before start_benchmark; host names are not resolved (net.resolve patched to the identity)",
        "'exactly as many clients as it requests' is read as in the statement's parenthesis: every client index of the task exactly once (an over-committed parallel gives one physical client several of them)",
    ]
    cfg = "Allocator.quick.cfg" if ctx.quick else "Allocator.thorough.cfg"
    wd = tlc.prepare_workdir("Allocator", "c02mc")
    dump = os.path.join(wd, "states.dump")
    res = tlc.run_tlc(wd, "MC_Allocator", cfg, timeout=900, dump=dump, allow_violation=True)
    out.add_tlc(res)
    if not res.ok:
        raise tlc.MachineryError("model violates %s (%s)" % (res.invariant_violated, res.out[-1500:]))
    out.note("leg M %s: %d distinct states in %.1fs" % (cfg, res.distinct, res.wall_s))
    wd2 = tlc.prepare_workdir("Allocator", "c02pinned")
    res2 = tlc.run_tlc(wd2, "MC_Allocator", "Allocator.pinned.cfg", timeout=300, allow_violation=True)
    if res2.invariant_violated != "PropertyHolds":
        raise tlc.MachineryError("self-test failed: schedules with an emptied parallel do not violate the property in the model")
    out.extra["model_selftest"] = "inputs with a parallel emptied by a filter (Allocator.pinned.cfg) violate PropertyHolds in the model (OneEntryPerStep), as expected"

    # ---- S2C + C2S in batches: every input state on the real code; every step-th schedule also through the real task filter
    rnd = random.Random(ctx.seed + 2)
    inputs = rs.sorted_inputs(dump + ".dump" if os.path.exists(dump + ".dump") else dump)
    if 2 * len(inputs) != res.distinct:
        raise tlc.MachineryError("dump has %d input states, TLC reported %d states" % (len(inputs), res.distinct))
    step = 3 if ctx.quick else 4
    n_filt = n_empty = n_sched = n_start = 0
    batch = 40000
    for b0 in range(0, len(inputs), batch):
        items = []
        for n in range(b0, min(b0 + batch, len(inputs))):
            inp = json.loads(inputs[n])
            if inp["kind"] == "alloc":
                s = inp["s"]
                it = alloc_item("s%d" % n, rs.build_schedule(s), {"src": "direct"})
                if it["s"] != s and sum(1 for d in out.drift if d.startswith("real objects")) < 5:
                    # C02 is judged on the projection of the very objects handed to the Allocator; a difference is drift
                    out.drift.append("real objects built from a written schedule do not say what was written: %s vs %s" % (it["s"], s))
                items.append(it)
                out.add_case(("alloc", s), nontrivial=len(s) > 1 or any(el["k"] == "par" for el in s))
                if s:
                    n_sched += 1
                    if n_sched % 10 == (ctx.seed + 5) % 10:
                        # this schedule's allocation rows through the real Driver.start_benchmark on a seeded host layout
                        nh = rnd.randint(1, 3)
                        uniform = rnd.randint(1, 4)
                        hosts = [{"host": "h%d" % (h + 1), "cores": uniform if n_sched % 20 < 10 else rnd.randint(1, 4)} for h in range(nh)]
                        items.append(start_item("v%d" % n, hosts, s, {"src": "start"}))
                        n_start += 1
                        out.add_case(("start", hosts, s))
                    if n_sched % step == ctx.seed % step:
                        # "elements left empty by filters": the schedule after the real TaskFilterTrackProcessor
                        fit = filtered_item("f%d" % n, s, rnd)
                        if fit is not None:
                            items.append(fit)
                            n_filt += 1
                            n_empty += 1 if rs.has_empty_parallel(fit["s"]) else 0
                            out.add_case(("alloc-filtered", s, fit["origin"]["filters"], fit["origin"]["mode"]))
            else:
                items.append(assign_item("s%d" % n, inp["hosts"], inp["n"]))
                out.add_case(("assign", inp["hosts"], inp["n"]), nontrivial=sum(h["cores"] for h in inp["hosts"]) > 1)
                # the same layout through the real Driver.start_benchmark: what does every StartWorker carry?
                items.append(start_item("w%d" % n, inp["hosts"], [_leaf(inp["n"])], {"src": "start"}))
                n_start += 1
                out.add_case(("start", inp["hosts"], inp["n"]), nontrivial=sum(h["cores"] for h in inp["hosts"]) > 1 and inp["n"] > 1)
        if b0 == 0:
            direct = [it for it in items if it["origin"]["src"] == "direct" and "crash" not in it and it["kind"] == "alloc" and len(it["s"]) == 2]
            mid = direct[len(direct) // 3] if direct else items[0]
            out.sample({k: mid[k] for k in mid if k in ("kind", "s", "m", "tpj", "hosts", "n", "a")})
        _report(validate(items, out), out)
    out.exhaustive = True
    out.note("leg S2C: %d TLC input states run on Allocator / calculate_worker_assignments, %d schedules also through the real task filter" % (len(inputs), n_filt))
    out.note("leg S2C: %d runs of the real Driver.start_benchmark (every TLC host/core/client layout, every 10th TLC schedule on a seeded layout)" % n_start)
    out.extra["start_benchmark_runs"] = n_start + (300 if ctx.quick else 3000)
    out.extra["schedules_through_real_filter"] = n_filt
    out.extra["filtered_schedules_with_empty_parallel"] = n_empty
    # ---- seeded random larger shapes
    rnd_items = random_items(ctx.seed + 202, 240 if ctx.quick else 3000, 300 if ctx.quick else 4000, 300 if ctx.quick else 3000)
    for it in rnd_items:
        out.add_case(_case_of(it))
    big = max((it for it in rnd_items if it["kind"] == "alloc" and "crash" not in it), key=lambda it: len(it["s"]))
    out.sample({"kind": "alloc", "s": big["s"], "clients": big["clients"], "tpj": big["tpj"], "steps": len(big["jps"]) - 1})
    _report(validate(rnd_items, out), out)


def _report(bad, out):
    for it, clauses in bad:
        detail = "crash=%s" % it["crash"] if "crash" in it else ""
        if it["kind"] == "alloc":
            detail += " schedule=%s steps=%s progress_entries=%s driver_walk=%s" % (it["s"], len(it.get("jps", [])) - 1, len(it.get("tpj", [])), it.get("progress"))
            if it["origin"]["src"] == "task-filter":
                detail += " (schedule produced by the real task filter: %s %s)" % (it["origin"]["mode"], rs.filter_strings(it["origin"]["filters"]))
        elif it["kind"] == "start":
            detail += " Driver.start_benchmark hosts=%s clients=%s: StartWorker messages carry the rows of clients %s, calculate_worker_assignments says %s; created=%s" % (
                it["hosts"],
                it.get("n"),
                [w["rows"] for w in it.get("sent", [])],
                [w for a in it.get("a", []) for w in a["workers"] if w],
                it.get("created"),
            )
        else:
            detail += " hosts=%s n=%s assignment=%s" % (it["hosts"], it["n"], it.get("a"))
        out.violations.append(Violation(",".join(clauses), _case_of(it), signature=_sig(it, clauses), detail=detail.strip()))


def replay(ctx, case):
    if case["kind"] == "alloc":
        o = case["origin"]
        if o["src"] == "task-filter":
            objs = rs.run_filter([rs.build_schedule(o["pre"])], o["filters"], o["mode"])[0]
        else:
            objs = rs.build_schedule(case["s"])
        it = alloc_item("replay", objs, o)
        print("schedule given to Allocator: %s" % it["s"])
        print("steps=%s progress_entries=%s driver_walk=%s" % (len(it.get("jps", [])) - 1, it.get("tpj"), it.get("progress")))
    elif case["kind"] == "start":
        it = start_item("replay", case["hosts"], case["s"], case["origin"])
        print("hosts=%s clients=%s" % (case["hosts"], it.get("n")))
        print("created: %s" % it.get("created"))
        print("StartWorker rows: %s ; calculate_worker_assignments: %s" % ([w["rows"] for w in it.get("sent", [])], it.get("a")))
    else:
        it = assign_item("replay", case["hosts"], case["n"])
        print("assignment: %s" % it.get("a"))
    bad = validate([it], None, name="c02replay")
    for _, clauses in bad:
        print("VIOLATION property=C02 clause=%s %s" % (",".join(clauses), it.get("crash", "")))
    return 1 if bad else 0
