"""C14 — corpus preparation ends with complete, verified data or an explicit error.

Leg M   : TLC on specs/CorpusPrep: every initial directory state x declaration x archive format x tool mode x outcome of
          every download attempt (up to the code's 11 attempts) x every crash point (kill / interrupt) of a first run,
          followed by a second, fresh run.  The model describes the code as it is (six behaviour switches FALSE) and is
          checked against `property OR one of the known defect classes`; self-tests: the plain property is violated
          (pinned), and holds with all repairs switched on (repaired).
Leg S2C : TLC -simulate behaviours (initial state, parameters, outcome per request, crash kind and point) are executed on
          the REAL DocumentSetPreparator / Downloader / Decompressor / net.download / io.decompress /
          io.prepare_file_offset_table in a sandbox directory with real archives of every format, real external tools
          (pigz; bzip2/zstd behind pbzip2/pzstd wrappers), a scripted urllib3 pool manager underneath net._request
          handing out real urllib3 HTTPResponse objects, and crashes injected at observed I/O calls (fork + _exit, or a
          BaseException raised at the call site).
Leg C2S : every executed chain (S2C ones, seeded random ones not derived from TLC, crash sweeps over every observed I/O
          call of canonical cases) is projected (existence, content hash class, mtime relation, offset-table parse, seek
          equivalence of the real io.skip_lines for every line) and validated by TLC against TraceCorpusPrep.tla
          (L1 = ReturnedOK / ExplicitEnd / NoPartialFinal on the recorded state, L2 = the recorded trajectory of directory
          states, result and exception kind are those of the specification).
"""
import glob
import os
import random

from .. import corpusfx as cf
from .. import tlc, tracecheck
from ..core import Violation
from ..tlaparse import parse_simulation_file, to_json

SWITCHES = ("StrictLineCount", "AtomicDecompress", "AtomicVerifiedTable", "DropTableOnRewrite", "ValidateReusedTable", "DetectTruncation")
BODY = ("G", "Th", "Te", "J", "E", "C")
CORE = ("doc", "arch", "tmp", "off", "newer")
_FX = None


def repaired_switches():
    """VERIF_C14_REPAIRED=all | comma separated switch names: check a tree in which these repairs were made (the cfg files
    describe the tree as it is; once a repair is committed to /repo the switch is set to TRUE in the cfg files instead)."""
    v = os.environ.get("VERIF_C14_REPAIRED", "").strip()
    if not v:
        return ()
    names = SWITCHES if v == "all" else tuple(x.strip() for x in v.split(","))
    for n in names:
        if n not in SWITCHES:
            raise tlc.MachineryError("unknown switch %r in VERIF_C14_REPAIRED" % n)
    return names


def _switch_cfg(text):
    for n in repaired_switches():
        text = text.replace("  %s = FALSE" % n, "  %s = TRUE" % n)
    return text


def _prepared(name, cfg):
    wd = tlc.prepare_workdir("CorpusPrep", name)
    path = os.path.join(wd, cfg)
    with open(path, "r", encoding="utf-8") as f:
        text = f.read()
    with open(path, "w", encoding="utf-8") as f:
        f.write(_switch_cfg(text))
    return wd


def _trace_cfg_text():
    with open(os.path.join(tlc.SPECS, "CorpusPrep", "TraceCorpusPrep.cfg"), "r", encoding="utf-8") as f:
        return _switch_cfg(f.read())


EOL = {"lf": "\n", "crlf": "\r\n"}


def fixture(eol="lf"):
    """The real documents / archives; one set with \n and one with \r\n line ends (both with multi-byte characters)."""
    global _FX
    if _FX is None:
        _FX = {}
    if eol not in _FX:
        _FX[eol] = cf.Fixture(os.path.join(tlc.scratch("c14-fixture"), eol), EOL[eol])
    return _FX[eol]


def fx_of(case):
    return fixture(case["p"].get("eol", "lf"))


# ---------------------------------------------------------------------------------------------------
# abstract <-> concrete
# ---------------------------------------------------------------------------------------------------
def concretize_outcome(kind, rnd, fx, fmt):
    if isinstance(kind, dict):
        return dict(kind)
    if kind in BODY:
        return {"k": "body", "c": kind, "hdr": rnd.random() < 0.7}
    if kind == "http":
        return {"k": "http", "status": rnd.choice([404, 404, 503, 403, 300, 304, 308])}  # 3xx: a final answer that is not the file either
    if kind == "proto":
        size = len(fx.arch[fmt]["G"])
        return {"k": "proto", "how": rnd.choice(["drop", "timeout", "short"]), "after": rnd.choice([0, 1, 65536, size // 3, size - 1])}
    if kind == "refused":
        return {"k": "refused"}
    raise tlc.MachineryError("unknown outcome kind %r" % (kind,))


def abstract_outcome(o):
    return o["c"] if o["k"] == "body" else o["k"]


def in_domain(p, fs):
    """Mirror of InDomain / Params of CorpusPrep.tla for the random generator (TLC re-checks every item)."""
    if fs["doc"] not in ("absent", "full") and not p["uDecl"]:
        return False
    if fs["arch"] == "C" and p["fmt"] != "gz":
        return False
    if p["fmt"] == "none" and (fs["arch"] != "absent" or p["cDecl"]):
        return False
    if cf.kind_of(p["fmt"]) == "zip" and fs["arch"] == "Te":
        return False
    if fs["newer"] and (fs["doc"] == "absent" or fs["off"] == "absent"):
        return False
    if cf.kind_of(p["fmt"]) != "stream" and p["tool"] != "none":
        return False
    return True


def outcome_allowed(p, kind):
    return not (p["fmt"] == "none" and not p["uDecl"] and kind == "Te") and (kind != "C" or p["fmt"] == "gz")


# ---------------------------------------------------------------------------------------------------
# executing one case = a chain of runs in one directory
# ---------------------------------------------------------------------------------------------------
def _seg_of(events, k):
    """1-based index of the distinct directory state in which the k-th observed call (1-based) happens."""
    return len(cf.dedupe([cf.core(s) for s, _ in events[:k]]))


def _run_record(p, script, res, crash, events):
    snaps = [s for s, _ in events]
    traj = cf.dedupe([cf.core(s) for s in snaps] + [cf.core(res["fs"])])
    tgt = cf.dedupe([s["tgt"] for s in snaps] + [res["fs"]["tgt"]])
    return {
        "outs": [abstract_outcome(o) for o in script],
        "crash": crash,
        "end": res["end"],
        "exc": res["exc"] or "-",
        "fs": cf.core(res["fs"]),
        "offOK": bool(res["fs"]["offOK"]),
        "traj": traj,
        "tgt": tgt,
        "nreq": int(res["nreq"]),
        "sleeps": len(res["sleeps"]),
    }


def dry_chain(case, sandbox):
    """Chain A: run 1 to its end, then a second run. Returns (item, events of run 1, details)."""
    fx = fx_of(case)
    p, init, script = case["p"], case["init"], case["script"]
    d = os.path.join(sandbox, "dir")
    cf.materialize(fx, d, init, p)
    r1 = cf.run_once(fx, d, p, script)
    rec1 = _run_record(p, script, r1, {"kind": "none", "seg": 0}, r1["events"])
    cf.settle(d, 1)
    rest = script[r1["nreq"] :]
    r2 = cf.run_once(fx, d, p, rest)
    rec2 = _run_record(p, rest, r2, {"kind": "none", "seg": 0}, r2["events"])
    details = {"runs": [_detail(r1), _detail(r2)]}
    if any(s != 5 for s in r1["sleeps"] + r2["sleeps"]):
        details["sleep"] = "pause between attempts is not 5 s: %r" % (r1["sleeps"] + r2["sleeps"],)
    item = {"id": case["id"] + "/A", "p": _p(p), "eol": p.get("eol", "lf"), "init": init, "runs": [rec1, rec2]}
    return item, r1["events"], details


def resolve_crash(crash, ev):
    """-> list of {kind, event} (possibly empty: not realisable)."""
    if not crash:
        return []
    n = len(ev)
    if crash.get("sweep"):
        ks = list(range(1, n + 1))
        if crash.get("limit") and n > crash["limit"]:
            # the first and last observed call of every distinct directory state, plus an even spread
            segs = [_seg_of(ev, k) for k in ks]
            keep = {k for i, k in enumerate(ks) if i == 0 or segs[i] != segs[i - 1] or i == n - 1 or segs[i] != segs[i + 1]}
            step = max(1, n // crash["limit"])
            keep.update(ks[::step])
            ks = sorted(keep)
        return [{"kind": kind, "event": k} for k in ks for kind in ("kill", "intr")]
    if "frac" in crash:
        return [{"kind": crash["kind"], "event": 1 + int(crash["frac"] * n) % n}] if n else []
    if "event" in crash:
        return [{"kind": crash["kind"], "event": crash["event"]}] if 1 <= crash["event"] <= n else []
    if "match" in crash:  # first observed call at which the directory looks like this
        for k in range(1, n + 1):
            if all(ev[k - 1][0][f] == v for f, v in crash["match"].items()):
                return [{"kind": crash["kind"], "event": k}]
        return []
    cand = [k for k in range(1, n + 1) if _seg_of(ev, k) == crash["seg"]]
    if not cand:
        return []  # e.g. the state after the last change of the directory: no later observed call to crash at
    k = {"first": cand[0], "last": cand[-1]}.get(crash.get("pick"), cand[len(cand) // 2])
    return [{"kind": crash["kind"], "event": k}]


def crashed_chain(case, ev, crash, sandbox):
    """Chain B: run 1 crashed at the crash['event']-th observed call, then a second run.

    The uncrashed execution (ev) only served to choose the call; everything that is recorded about the crashed run - the
    directory states it went through, the state it was in when it died, the number of requests it had made - is what
    THIS execution observed (the killed child hands its observations over before it exits), so nothing has to be equal
    between two executions.  Returns None if the run ended before that call (nothing was injected)."""
    fx = fx_of(case)
    p, init, script = case["p"], case["init"], case["script"]
    k = crash["event"]
    d = os.path.join(sandbox, "dir")
    cf.materialize(fx, d, init, p)
    rc = cf.run_once(fx, d, p, script, crash=crash, workdir=sandbox)
    if not rc["fired"]:
        return None
    own = rc["events"][:k]
    nreq1 = own[-1][1]
    rc["nreq"] = nreq1
    recc = _run_record(p, script, rc, {"kind": crash["kind"], "seg": _seg_of(own, len(own))}, own)
    cf.settle(d, 1)
    rest = script[nreq1:]
    r2 = cf.run_once(fx, d, p, rest)
    rec2 = _run_record(p, rest, r2, {"kind": "none", "seg": 0}, r2["events"])
    item = {"id": "%s/B-%s%d" % (case["id"], crash["kind"], k), "p": _p(p), "eol": p.get("eol", "lf"), "init": init, "runs": [recc, rec2]}
    return item, {"runs": [_detail(rc), _detail(r2)]}


def _p(p):
    q = {k: p[k] for k in ("fmt", "tool", "uDecl", "cDecl", "net", "cons", "entry")}
    if q["tool"] == "ok" and not fixture(p.get("eol", "lf")).tools_available.get(q["fmt"], True):
        # the binary behind this format's external tool (zstd here) is not installed on this machine: the 'ok' PATH directory holds
        # no tool for it, which IS the situation tool = none; the recorded parameters say what the run really had
        q["tool"] = "none"
    return q


def _detail(r):
    return {"end": r["end"], "excType": r["excType"], "msg": r["msg"][:160], "fs": cf.core(r["fs"]), "offDetail": r["fs"]["offDetail"]}


# ---------------------------------------------------------------------------------------------------
# case sources
# ---------------------------------------------------------------------------------------------------
def cases_from_tlc(ctx, out, num, depth):
    wd = _prepared("c14sim", "CorpusPrep.sim.cfg")
    simdir = os.path.join(wd, "sim")
    os.makedirs(simdir)
    res = tlc.run_tlc(wd, "MC_CorpusPrep", "CorpusPrep.sim.cfg", workers=1, simulate={"num": num, "file": os.path.join(simdir, "b")}, depth=depth, seed=ctx.seed + 14, timeout=600)
    if not res.ok:
        raise tlc.MachineryError("simulation failed: %s" % res.out[-2000:])
    out.add_tlc(res)
    rnd = random.Random(ctx.seed + 1400)
    cases = []
    for n, fn in enumerate(sorted(glob.glob(os.path.join(simdir, "b_*")))):
        states = [to_json(s) for s in parse_simulation_file(fn)]
        p = states[0]["p"]
        first = [s for s in states if s["run"] == 1]
        if not first:
            continue
        init = {k: first[0]["m"]["fs"][k] for k in CORE}
        kinds = [s["act"]["arg"] for s in states if s["act"]["name"] == "Attempt"]
        crash = None
        for j, s in enumerate(states):
            if s["act"]["name"] == "Crash":
                crash = {"kind": s["act"]["arg"], "seg": states[j - 1]["m"]["seg"], "pick": rnd.choice(["first", "mid", "last"])}
        pp = dict(p, testMode=rnd.random() < 0.5, slash=rnd.random() < 0.5, eol="crlf" if rnd.random() < 0.4 else "lf", bigger=rnd.random() < 0.5, subsec=rnd.random() < 0.35)
        script = [concretize_outcome(k, rnd, fixture(pp["eol"]), p["fmt"]) for k in kinds]
        cases.append({"id": "sim%d" % n, "src": "tlc-simulate", "p": pp, "init": init, "script": script, "crash": crash})
    return cases


def random_cases(seed, n):
    rnd = random.Random(seed)
    cases = []
    while len(cases) < n:
        fmt = rnd.choice(("none",) + cf.FORMATS)
        p = {
            "fmt": fmt,
            "tool": rnd.choice(["none", "ok", "fail"]) if cf.kind_of(fmt) == "stream" else "none",
            "uDecl": rnd.random() < 0.5,
            "cDecl": rnd.random() < 0.5 and fmt != "none",
            "net": rnd.choice(["online", "online", "online", "nourl", "offline"]),
            "cons": rnd.random() < 0.85,
            "entry": rnd.choice(["plain", "plain", "plain", "bundled"]),
            "testMode": rnd.random() < 0.5,
            "slash": rnd.random() < 0.5,
            "eol": "crlf" if rnd.random() < 0.4 else "lf",
            "bigger": rnd.random() < 0.5,
            "subsec": rnd.random() < 0.35,
        }
        fx = fixture(p["eol"])
        init = {
            "doc": rnd.choice(["absent", "absent", "full", "empty", "mid", "last", "other"]),
            "arch": rnd.choice(["absent", "absent", "G", "G", "Th", "Te", "J", "E"] + (["C", "C"] if fmt == "gz" else [])),
            "tmp": rnd.choice(["absent", "absent", "stale"]),
            "off": rnd.choice(["absent", "absent", "X", "part", "O", "torn", "bad"]),
            "newer": rnd.random() < 0.5,
        }
        if init["doc"] == "absent" or init["off"] == "absent":
            init["newer"] = False
        if fmt == "none":
            init["arch"] = "absent"
        if not in_domain(p, init):
            continue
        kinds = []
        style = rnd.random()
        if style < 0.1:
            kinds = ["proto"] * rnd.choice([10, 11, 12])
        else:
            for _ in range(rnd.randint(0, 4)):
                k = rnd.choice(["G", "Th", "Te", "J", "E", "C", "http", "proto", "proto", "refused"])
                if outcome_allowed(p, k):
                    kinds.append(k)
        script = [concretize_outcome(k, rnd, fx, fmt) for k in kinds]
        crash = None
        if rnd.random() < 0.6:
            # position as a fraction of the observed calls, resolved after the uncrashed run
            crash = {"kind": rnd.choice(["kill", "intr"]), "frac": rnd.random()}
        cases.append({"id": "rnd%d" % len(cases), "src": "random", "p": p, "init": init, "script": script, "crash": crash})
    return cases


CANONICAL = [
    # (fmt, tool, uDecl, cDecl, init overrides, script kinds)
    ("bz2", "none", True, True, {}, ["proto", "G"]),
    ("gz", "ok", False, False, {"off": "X"}, ["G"]),
    ("zst", "fail", False, True, {"arch": "Th"}, ["G"]),
    ("zip", "none", True, False, {"doc": "mid", "arch": "G", "off": "X", "newer": True}, []),
    ("tar.gz", "none", True, True, {"doc": "other", "off": "O", "newer": True}, ["G"]),
    ("none", "none", False, False, {"tmp": "stale"}, ["proto", "Th"]),
    ("none", "none", True, False, {"doc": "last"}, ["Th", "G"]),
]


DIRECTED = [
    # name, fmt, tool, uDecl, cDecl, init overrides, script kinds, crash
    ("fresh-download-retry", "bz2", "none", True, True, {}, ["proto", "G"], None),
    ("fresh-download-tool", "gz", "ok", True, True, {}, ["G"], None),
    ("wrong-sized-leftovers", "zip", "none", True, True, {"doc": "mid", "arch": "Th", "tmp": "stale", "off": "O"}, ["Th", "G"], None),
    ("killed-after-open-undeclared", "gz", "none", False, False, {"arch": "G"}, [], {"kind": "kill", "match": {"doc": "empty"}}),
    ("interrupted-midway-undeclared", "bz2", "none", False, False, {"arch": "G"}, [], {"kind": "intr", "match": {"doc": "last"}}),
    ("empty-body-undeclared", "gz", "none", False, False, {}, ["E"], None),
    ("truncated-gz-undeclared", "gz", "ok", False, False, {"arch": "Te"}, [], None),
    ("truncated-zst-undeclared", "zst", "none", False, False, {"arch": "Te"}, [], None),
    ("torn-table-newer", "none", "none", True, False, {"doc": "full", "off": "torn", "newer": True}, [], None),
    ("killed-table-build-short-body", "none", "none", False, False, {}, ["Th"], {"kind": "kill", "match": {"off": "part", "newer": True}}),
    ("tar-mtime-stale-table", "tar.gz", "none", True, True, {"doc": "other", "arch": "G", "off": "O", "newer": True}, [], None),
    ("retries-exhausted", "none", "none", True, False, {}, ["proto"] * 11, None),
    # every end kind / exception kind the vacuity guard asks for, whatever the seed draws
    ("bundled-nothing-there", "gz", "none", True, True, {}, [], None, "lf", {"entry": "bundled"}),
    ("bundled-archive-there", "zst", "ok", True, True, {"arch": "G"}, [], {"kind": "intr", "match": {"doc": "full"}}, "lf", {"entry": "bundled"}),
    ("offline-nothing-there", "tar", "none", True, True, {}, [], None, "lf", {"net": "offline"}),
    ("no-url-wrong-sized-archive", "tgz", "none", True, True, {"arch": "Th"}, [], None, "lf", {"net": "nourl"}),
    ("http-404-test-mode", "bz2", "fail", False, False, {}, ["http"], None, "crlf"),
    # a FINAL answer with a 3xx status (multiple choices, not modified, redirect limit reached) is not the file either: its body
    # must not become the archive / the document, whether or not the track declares sizes
    ("http-300-undeclared-plain", "none", "none", False, False, {}, [{"k": "http", "status": 300}], None),
    ("http-304-undeclared-gz", "gz", "none", False, False, {}, [{"k": "http", "status": 304}], None, "crlf"),
    ("http-308-undeclared-stale-tmp", "bz2", "ok", False, False, {"tmp": "stale", "off": "X"}, [{"k": "http", "status": 308}], None),
    ("http-300-declared", "zst", "none", True, True, {}, [{"k": "http", "status": 300}], None),
    # an archive of the right size whose payload is damaged (gzip: only the CRC in the trailer tells): tool present and failing after
    # it streamed everything / library only / downloaded
    ("corrupt-payload-gz-tool-fails-late", "gz", "ok", True, True, {"arch": "C"}, [], None),
    ("corrupt-payload-gz-library", "gz", "none", True, True, {"arch": "C", "off": "X"}, [], None, "crlf"),
    ("corrupt-payload-gz-downloaded-undeclared", "gz", "ok", False, False, {}, [{"k": "body", "c": "C", "hdr": True}], None),
    ("corrupt-payload-gz-bundled", "gz", "ok", True, False, {"arch": "C"}, [], None, "lf", {"entry": "bundled"}),
    # ... and the process dies after the failing tool wrote everything, before the library fall-back truncates it: the retry
    # finds a document of the declared size (known finding F10d)
    ("corrupt-payload-gz-killed-after-tool", "gz", "ok", True, True, {"arch": "C"}, [], {"kind": "kill", "match": {"doc": "flip"}}),
    ("corrupt-payload-gz-interrupted-after-tool", "gz", "ok", False, False, {"arch": "C", "off": "X"}, [], {"kind": "intr", "match": {"doc": "flip"}}, "crlf"),
    # the published archive expands to MORE / to LESS than the declared uncompressed size: explicit error, no endless loop
    ("expands-to-more-than-declared-zip", "zip", "none", True, True, {"arch": "G"}, [], None, "lf", {"cons": False, "bigger": True}),
    ("expands-to-more-than-declared-gz-download", "gz", "ok", True, True, {}, ["G"], None, "crlf", {"cons": False, "bigger": True}),
    ("expands-to-more-than-declared-tar-stale-doc", "tar", "none", True, False, {"doc": "other", "arch": "G"}, [], None, "lf", {"cons": False, "bigger": True}),
    ("expands-to-less-than-declared-bz2", "bz2", "none", True, True, {"arch": "G"}, [], None, "lf", {"cons": False, "bigger": False}),
    # a run that fails the line-count check must not leave a table that lets a plain retry skip the check (chain A: the
    # second run is the retry, nothing changed on disk in between)
    ("retry-after-line-count-error-short-body", "none", "none", False, False, {}, [{"k": "body", "c": "Th", "hdr": True}], None, "crlf"),
    ("retry-after-line-count-error-junk-body", "none", "none", False, False, {"off": "X"}, [{"k": "body", "c": "J", "hdr": False}], None),
    ("retry-after-line-count-error-truncated-zst", "zst", "none", False, False, {"arch": "Th"}, [], None),
    ("retry-after-line-count-error-bundled", "zst", "fail", False, True, {"arch": "Th"}, [], None, "lf", {"entry": "bundled", "cDecl": False}),
    # the server announces the full Content-Length and closes the connection cleanly before it delivered that much (no reset, no
    # time-out): urllib3 reports IncompleteRead only because the request asks for enforce_content_length; must be retried,
    # whether or not the track declares sizes
    ("short-body-clean-close-undeclared-archive", "zst", "none", False, False, {}, [{"k": "proto", "how": "short", "after": 70000}, "G"], None),
    ("short-body-clean-close-undeclared-uncompressed", "none", "none", False, False, {"tmp": "stale"}, [{"k": "proto", "how": "short", "after": 700000}, {"k": "proto", "how": "short", "after": 0}, "G"], None, "crlf"),
    ("short-body-clean-close-archive-size-undeclared-only", "gz", "ok", True, False, {"arch": "absent"}, [{"k": "proto", "how": "short", "after": 150000}, "G"], None),
    ("short-body-clean-close-declared", "zip", "none", True, True, {}, [{"k": "proto", "how": "short", "after": 65536}, "G"], None),
    ("short-body-clean-close-every-attempt", "tar.gz", "none", False, False, {}, [{"k": "proto", "how": "short", "after": 1000 * (i + 1)} for i in range(11)], None),
    # the peer goes silent mid-body (no FIN, no RST): with the read time-out the request asks for this is a ReadTimeoutError that is
    # retried; without one the run would never end
    ("stalled-connection-then-ok", "gz", "none", True, True, {}, [{"k": "proto", "how": "timeout", "after": 100000}, {"k": "proto", "how": "timeout", "after": 0}, "G"], None),
    ("stalled-connection-every-attempt", "none", "none", False, False, {}, [{"k": "proto", "how": "timeout", "after": 65536 * (i % 3)} for i in range(11)], None, "crlf"),
    # document and offset table modified within the same whole second, the table 0.5 s BEFORE the document: it is stale
    ("stale-table-same-second-other-content", "none", "none", True, False, {"doc": "full", "off": "O", "newer": False}, [], None, "lf", {"subsec": True}),
    ("stale-table-same-second-torn", "bz2", "none", False, True, {"doc": "full", "arch": "G", "off": "torn", "newer": False}, [], None, "crlf", {"subsec": True}),
    ("stale-table-same-second-bundled", "zip", "none", True, True, {"doc": "full", "off": "bad", "newer": False}, [], None, "lf", {"subsec": True, "entry": "bundled"}),
    ("fresh-table-same-second", "gz", "ok", True, True, {"doc": "full", "off": "X", "newer": True}, [], None, "lf", {"subsec": True}),
    # a well-formed response (Content-Length == body length) that is not the declared file: must never get the final name
    ("short-body-matching-header-declared", "gz", "none", True, True, {}, [{"k": "body", "c": "Th", "hdr": True}, "G"], None),
    ("junk-200-declared-uncompressed", "none", "none", True, False, {"tmp": "stale"}, [{"k": "body", "c": "J", "hdr": True}], None),
    ("short-body-no-header-declared", "zip", "none", False, True, {}, [{"k": "body", "c": "Te", "hdr": False}], None),
    # \r\n line ends: the table is built through a text-mode reader (universal newlines), the readers use bytes
    ("crlf-fresh-download", "gz", "none", True, True, {}, ["G"], None, "crlf"),
    ("crlf-uncompressed-stale-table", "none", "none", True, False, {"doc": "full", "off": "O", "newer": False}, [], None, "crlf"),
    ("crlf-zip-killed-midway", "zip", "none", True, True, {"arch": "G"}, [], {"kind": "kill", "match": {"doc": "mid"}}, "crlf"),
]


def directed_cases():
    rnd = random.Random(5)
    cases = []
    for row in DIRECTED:
        name, fmt, tool, u, c, over, kinds, crash = row[:8]
        eol = row[8] if len(row) > 8 else "lf"
        fx = fixture(eol)
        p = {"fmt": fmt, "tool": tool, "uDecl": u, "cDecl": c, "net": "online", "cons": True, "entry": "plain", "testMode": not (u or c), "slash": True, "eol": eol}
        if len(row) > 9:
            p.update(row[9])
        init = dict({"doc": "absent", "arch": "absent", "tmp": "absent", "off": "absent", "newer": False}, **over)
        cases.append({"id": "dir-" + name, "src": "directed", "p": p, "init": init, "script": [concretize_outcome(k, rnd, fx, fmt) for k in kinds], "crash": crash})
    return cases


def sweep_cases(which, limit=None):
    """Every observed I/O call of canonical cases as crash point, both crash kinds."""
    cases = []
    rnd = random.Random(77)
    for ci in which:
        fmt, tool, u, c, over, kinds = CANONICAL[ci]
        eol = "crlf" if ci % 3 == 1 else "lf"
        fx = fixture(eol)
        p = {"fmt": fmt, "tool": tool, "uDecl": u, "cDecl": c, "net": "online", "cons": True, "entry": "plain", "testMode": False, "slash": True, "eol": eol}
        init = dict({"doc": "absent", "arch": "absent", "tmp": "absent", "off": "absent", "newer": False}, **over)
        script = [concretize_outcome(k, rnd, fx, fmt) for k in kinds]
        cases.append({"id": "sweep%d" % ci, "src": "sweep", "p": p, "init": init, "script": script, "crash": {"sweep": True, "limit": limit}})
    return cases


# ---------------------------------------------------------------------------------------------------
def _signature(clauses, item, run_idx):
    """Kind of failing input (for known-findings matching): which defect, by which cause."""
    r = item["runs"][run_idx]
    sig = {"clauses": sorted(clauses)}
    if "NoPartialFinal" in clauses:
        sig["defect"] = "partial-or-unverified-file-under-final-name"
        sig["seen"] = "/".join(r["tgt"])
    if "ExplicitEnd" in clauses:
        sig["defect"] = "no-explicit-end"
        sig["end"] = r["end"]
    if "ReturnedOK" in clauses:
        fs = r["fs"]
        rebuilt = len(cf.dedupe([t["off"] for t in r["traj"]])) > 1  # this run wrote the offset table itself
        if fs["doc"] != "full":
            sig["defect"] = "wrong-document-accepted"
            if not rebuilt:
                # the table that was trusted (so that the lines were not counted): who left it?
                before = item["runs"][run_idx - 1] if run_idx > 0 else None
                wrote = before is not None and len(cf.dedupe([t["off"] for t in before["traj"]])) > 1 and before["fs"]["off"] != "absent"
                if wrote and before["end"] == "raised" and before["exc"] == "DataError":
                    # a run that completed the table, found the wrong line count, said so - and kept the table
                    sig["cause"] = "line-count-check-skipped-table-kept-by-run-that-failed-the-check"
                else:
                    sig["cause"] = "line-count-check-skipped-table-trusted"
            elif fs["doc"] == "empty":
                sig["cause"] = "zero-lines-not-compared"
            elif fs["doc"] == "last":
                sig["cause"] = "truncated-inside-last-line-same-line-count"
            elif fs["doc"] == "flip":
                sig["cause"] = "wrong-content-same-size-and-line-count"
            else:
                sig["cause"] = "other"
            # where the wrong document came from
            prev = item["runs"][run_idx - 1] if run_idx > 0 else None
            if any(t["doc"] != fs["doc"] for t in r["traj"]):
                sig["origin"] = "written-in-this-run"
            elif prev is not None and prev["end"] in ("crashed", "raised"):
                sig["origin"] = "left-by-" + prev["end"] + "-run"
            else:
                sig["origin"] = "initial-state"
        elif item["p"]["uDecl"] and not item["p"]["cons"]:
            sig["defect"] = "wrong-size-accepted"
        else:
            sig["defect"] = "bad-offset-table-trusted" if not rebuilt else "bad-offset-table-built"
            sig["cause"] = {"torn": "torn-table-newer-than-data", "bad": "unparsable-table-newer-than-data", "O": "table-of-other-content-newer-than-data"}.get(fs["off"], fs["off"])
            if rebuilt:
                sig["cause"] = "table-written-by-this-run-mispositions"
                sig["eol"] = item.get("eol", "lf")
        if not fs["newer"] and not rebuilt and fs["off"] != "absent":
            sig["cause"] = sig.get("cause", "") + "+table-older-than-data"
    return sig


def run_cases(cases, out, label, sandbox):
    items = []
    index = {}
    unreal = 0
    for case in cases:
        item, ev, det = dry_chain(case, sandbox)
        items.append(item)
        index[item["id"]] = (dict(case, crash=None), det)
        if "sleep" in det:
            out.drift.append("%s: %s" % (case["id"], det["sleep"]))
        out.add_case({"p": _p(case["p"]), "eol": case["p"].get("eol", "lf"), "init": case["init"], "script": case["script"], "crash": None}, nontrivial=True)
        crashes = resolve_crash(case.get("crash"), ev)
        if case.get("crash") and not crashes:
            unreal += 1
        for cr in crashes:
            res = crashed_chain(case, ev, cr, sandbox)
            if res is None:
                out.extra["crash_not_reached"] = out.extra.get("crash_not_reached", 0) + 1
                continue
            item, det = res
            items.append(item)
            index[item["id"]] = (dict(case, crash=cr), det)
            out.add_case({"p": _p(case["p"]), "eol": case["p"].get("eol", "lf"), "init": case["init"], "script": case["script"], "crash": cr}, nontrivial=True)
    if not items:
        raise tlc.MachineryError("no traces produced for %s" % label)
    verdicts = tracecheck.validate("CorpusPrep", "TraceCorpusPrep", "TraceCorpusPrep.cfg", items, name="c14trace", chunk=400, timeout=600, cfg_text=_trace_cfg_text())
    out.states += verdicts.n_events
    out.transitions += verdicts.n_events
    out.traces_validated += verdicts.accepted(len(items))
    by_id = {it["id"]: it for it in items}
    cov = out.extra.setdefault("coverage_of_executed_chains", {"fmt": {}, "end": {}, "crash": {}, "exc": {}, "entry": {}, "l1_failing_chains": 0})
    for it in items:
        _inc(cov["fmt"], it["p"]["fmt"] + ("" if it["p"]["tool"] == "none" else "+tool-" + it["p"]["tool"]))
        _inc(cov["entry"], it["p"]["entry"])
        _inc(cov.setdefault("eol", {}), it["eol"])
        for r in it["runs"]:
            _inc(cov["end"], r["end"])
            _inc(cov["crash"], r["crash"]["kind"])
            if r["exc"] != "-":
                _inc(cov["exc"], r["exc"])
    cov["l1_failing_chains"] += len(verdicts.l1)
    for tid, fails in verdicts.l1.items():
        case, det = index[tid]
        item = by_id[tid]
        line, clauses = fails[0]
        sig = _signature(clauses, item, line - 1)
        out.violations.append(
            Violation(
                ",".join(clauses),
                case,
                signature=sig,
                detail="[%s] %s run %d: %s" % (" ".join("%s=%s" % (k, sig[k]) for k in ("defect", "cause", "origin", "seen", "end", "eol") if k in sig), tid, line, _explain(item, line - 1, det["runs"])),
            )
        )
    for tid, lines in verdicts.l2.items():
        item = by_id[tid]
        r = item["runs"][lines[0] - 1] if lines[0] >= 1 else None
        out.drift.append(
            "trace %s run %d is not a run of CorpusPrep.tla: p=%s init=%s %s"
            % (tid, lines[0], item["p"], item["init"], "" if r is None else "outs=%s crash=%s end=%s/%s traj=%s" % (r["outs"], r["crash"], r["end"], r["exc"], r["traj"]))
        )
    return items, unreal


def _inc(d, k):
    d[k] = d.get(k, 0) + 1


def _explain(item, k, det):
    r = item["runs"][k]
    s = "end=%s fs=%s offOK=%s" % (r["end"], r["fs"], r["offOK"])
    if k < len(det):
        s += " (%s)" % det[k]["offDetail"]
    return s


def run(ctx, out):
    out.rule = (
        "case = (parameters fmt/tool/uDecl/cDecl/net/cons/entry, initial directory state, concrete scripted outcome per HTTP request, "
        "crash kind and observed I/O call) executed as a chain of two runs of the real preparation in one directory; distinct by hash of "
        "that tuple; every case is non-trivial (at least one run of the real code on real files). Sources: TLC -simulate behaviours of "
        "CorpusPrep.tla (S2C), seeded random cases and crash sweeps over every observed call of canonical cases (C2S only)."
    )
    out.assumptions = [
        "documents are ndjson with \\n or \\r\\n line ends (both fixtures contain multi-byte characters; a bare \\r is excluded: the text-mode table builder counts it as a line end, the mmap reader does not); S3/GCS transports are not exercised (HTTP(S) only, scripted below net._request at the urllib3 pool manager; urllib3's own HTTPResponse streaming and Content-Length enforcement are real)",
        "no checksums exist in the track format: a complete local file is taken to be the published one unless its size contradicts a DECLARED size; initial document files of undeclared size are missing or genuine (partial ones of undeclared size are reached through crashed or failed runs); an archive of the published size is the published archive, except class C for gzip (one payload byte differs, the stream stays well-formed, only the CRC in the trailer gives it away): it must end in an explicit error",
        "an inconsistent declaration (cons = FALSE) is realised in both directions: the archive expands to 7 bytes less or 7 bytes more than the declared uncompressed size",
        "for an uncompressed corpus of undeclared size a complete HTTP exchange whose body is cut inside the last line is indistinguishable from the published file and excluded",
        "torn / unparsable offset tables (cut inside an entry) are INITIAL states only (what a power loss, a full disk or an interrupted copy of the data directory leaves): a killed process cannot produce them, CPython's text layer hands complete print() pieces to the OS, so a killed build leaves a correct prefix of the table (observed: the empty table)",
        "a kill is os._exit of a forked child at an observed C-level call (open/write/rename/remove/utime/close/fork_exec...), an interrupt is a BaseException raised at that call; while an external decompressor runs no crash is injected (its progress is scheduling dependent)",
        "pbzip2 / pzstd are not installed: thin wrappers around the bzip2 / zstd binaries stand in for them (pigz is real); 'fail' tools exit 1 without output; "
        "where the binary itself is missing (zstd in this sandbox) a case drawn with a working tool is recorded and judged as a case without tool",
        "mtimes written by a run are moved to deterministic instants between runs, keeping their order (no verdict depends on the clock granularity); initial document / table mtimes differ by 100 s or (a share of the cases) lie within the same whole second, the table 0.5 s before or 0.2 s after the document",
        "a connection that goes silent mid-body is scripted below urllib3's response object: the body source raises socket.timeout iff the request was made with a finite read time-out (urllib3 turns it into ReadTimeoutError), otherwise the read never returns and the run is ended as hung",
        "explicit error = any Exception leaving the call (library exceptions such as EOFError / zstd.ZstdError / urllib3 ProtocolError count; their kind is compared at L2 only)",
    ]
    # ---- Leg M
    cfgs = [("CorpusPrep.quick.cfg", 300), ("CorpusPrep.quick2.cfg", 300)] if ctx.quick else [("CorpusPrep.thorough.cfg", 2400), ("CorpusPrep.quick2.cfg", 600)]
    for cfg, to in cfgs:
        wd = _prepared("c14mc", cfg)
        res = tlc.run_tlc(wd, "MC_CorpusPrep", cfg, timeout=to, allow_violation=True)
        out.add_tlc(res)
        if not res.ok:
            raise tlc.MachineryError(
                "model (code as it is) violates %s in %s: a violation class that is not one of the known ones: %s" % (res.invariant_violated or res.property_violated, cfg, res.out[-2500:])
            )
        out.note("leg M %s: %d distinct states, depth %d, %.1fs" % (cfg, res.distinct, res.depth, res.wall_s))
    wd = tlc.prepare_workdir("CorpusPrep", "c14pinned")
    res = tlc.run_tlc(wd, "MC_CorpusPrep", "CorpusPrep.pinned.cfg", timeout=300, allow_violation=True)
    if res.invariant_violated != "ReturnedOK":
        raise tlc.MachineryError("self-test failed: the model of the unrepaired code no longer violates ReturnedOK")
    if repaired_switches():
        out.note("repairs assumed in the tree under test: %s" % ", ".join(repaired_switches()))
    if not ctx.quick:
        wd = tlc.prepare_workdir("CorpusPrep", "c14repaired")
        res = tlc.run_tlc(wd, "MC_CorpusPrep", "CorpusPrep.repaired.cfg", timeout=900, allow_violation=True)
        out.add_tlc(res)
        if not res.ok:
            raise tlc.MachineryError("self-test failed: the repaired variant of the model violates %s" % (res.invariant_violated,))
    out.extra["model_selftest"] = (
        "current behaviour (all switches FALSE) satisfies ReturnedOK only modulo the known defect classes and violates plain ReturnedOK (pinned.cfg); "
        "with StrictLineCount, AtomicDecompress, AtomicVerifiedTable, DropTableOnRewrite, ValidateReusedTable, DetectTruncation = TRUE ReturnedOK holds (repaired.cfg, thorough tier)"
    )
    out.exhaustive = False
    # ---- Legs S2C + C2S
    sandbox = tlc.scratch("c14-sandbox")
    sim = cases_from_tlc(ctx, out, 70 if ctx.quick else 1000, 90)
    items, unreal = run_cases(sim, out, "sim", sandbox)
    out.note("leg S2C: %d TLC behaviours executed, %d crash points not realisable (no observed call in that state)" % (len(sim), unreal))
    for it in items[:2]:
        out.sample({"source": "tlc-simulate", "id": it["id"], "p": it["p"], "init": it["init"], "runs": [{k: r[k] for k in ("outs", "crash", "end", "exc", "fs", "offOK")} for r in it["runs"]]})
    rnd = random_cases(ctx.seed + 41, 45 if ctx.quick else 700)
    items, _ = run_cases(rnd, out, "rnd", sandbox)
    for it in items[:1]:
        out.sample({"source": "random", "id": it["id"], "p": it["p"], "init": it["init"], "runs": [{k: r[k] for k in ("outs", "crash", "end", "exc", "fs", "offOK")} for r in it["runs"]]})
    sw = sweep_cases([ctx.seed % len(CANONICAL)], limit=12) if ctx.quick else sweep_cases(range(len(CANONICAL)), limit=60)
    items, _ = run_cases(sw, out, "sweep", sandbox)
    items, unreal = run_cases(directed_cases(), out, "directed", sandbox)
    if unreal:
        out.note("%d directed crash points were not reached (the directory never looked like that)" % unreal)
    out.note("leg C2S: %d chains validated by TLC" % out.traces_validated)
    needs_leg(ctx, out)
    cov = out.extra["coverage_of_executed_chains"]
    for dim, need in (("end", ("returned", "raised", "crashed", "declined")), ("crash", ("kill", "intr", "none")), ("exc", ("DataError", "SystemSetupError", "NetError", "LibError")), ("eol", ("lf", "crlf"))):
        for k in need:
            if not cov[dim].get(k):
                out.vacuous.append("%s=%s never observed on the real code" % (dim, k))


# ---------------------------------------------------------------------------------------------------
# needs leg: WHICH document files preparation is asked for ("every document file the challenge needs"): specs/CorpusPrep/Needed.tla
# against the real loader.used_corpora and DefaultTrackPreparator.on_prepare_track over real Track / Task / Parallel objects and the
# real bulk parameter source (corpus / index selection per task)
# ---------------------------------------------------------------------------------------------------
def needs_run_case(tid, case):
    import logging

    from esrally.track import loader, track

    logging.getLogger("esrally.track").setLevel(logging.ERROR)
    files = case["files"]
    corpora = []
    for cname in sorted({f["c"] for f in files}):
        docs = [
            track.Documents(source_format=track.Documents.SOURCE_FORMAT_BULK, document_file=f["f"] + ".json", document_archive=f["f"] + ".json.bz2", number_of_documents=10, compressed_size_in_bytes=10, uncompressed_size_in_bytes=100, target_index=f["i"])
            for f in files
            if f["c"] == cname
        ]
        corpora.append(track.DocumentCorpus(cname, documents=docs))
    n = 0
    schedule = []
    for el in case["s"]:
        leaves = []
        for t in el:
            n += 1
            prm = {"bulk-size": 5, "corpora": list(t["corp"])}
            if "*" not in t["idx"]:
                prm["indices"] = list(t["idx"])
            leaves.append(track.Task("t%d" % n, track.Operation("bulk%d" % n, track.OperationType.Bulk.to_hyphenated_string(), params=prm), clients=1))
        schedule.append(leaves[0] if len(leaves) == 1 and not case.get("par") else track.Parallel(leaves))
    trk = track.Track(name="verif", corpora=corpora, challenges=[track.Challenge("c", default=True, schedule=schedule)])
    by_file = {f["f"] + ".json": f for f in files}
    item = {"id": tid, "files": files, "s": case["s"], "case": case}
    try:
        prepared = []
        for _fn, prm in loader.DefaultTrackPreparator().on_prepare_track(trk, "/nonexistent/data"):
            for d in prm["corpus"].documents:
                prepared.append(by_file[d.document_file])
        item["prepared"] = [x for k, x in enumerate(prepared) if x not in prepared[:k]]
    except tlc.MachineryError:
        raise
    except Exception as ex:  # pylint: disable=broad-except
        item["prepared"] = []
        item["crash"] = "%s: %s" % (type(ex).__name__, ex)
    return item


def needs_cases(seed, n):
    rnd = random.Random(seed)
    cases = []
    for _ in range(n):
        corp = ["a", "b", "c"][: rnd.randint(1, 3)]
        idxs = ["i1", "i2", "i3"][: rnd.randint(1, 3)]
        files = []
        for c in corp:
            for k, i in enumerate(rnd.sample(idxs, rnd.randint(1, len(idxs)))):
                files.append({"c": c, "i": i, "f": "%s%d" % (c, k + 1)})

        def task():
            for _try in range(50):
                t = {"corp": sorted(rnd.sample(corp, rnd.randint(1, len(corp)))), "idx": ["*"] if rnd.random() < 0.3 else sorted(rnd.sample(idxs, rnd.randint(1, len(idxs))))}
                # the real parameter source refuses a task whose selection is empty for EVERY named corpus and skips corpora without a match
                if all(any(f["c"] == c and ("*" in t["idx"] or f["i"] in t["idx"]) for f in files) for c in t["corp"]):
                    return t
            return {"corp": [corp[0]], "idx": ["*"]}

        s = [[task() for _ in range(rnd.choice([1, 1, 2, 3]))] for _ in range(rnd.randint(1, 4))]
        cases.append({"files": files, "s": s, "par": rnd.random() < 0.3})
    return cases


def needs_leg(ctx, out):
    wd = tlc.prepare_workdir("CorpusPrep", "c14needs")
    res = tlc.run_tlc(wd, "MC_Needed", "Needed.quick.cfg", timeout=600, allow_violation=True)
    out.add_tlc(res)
    if not res.ok:
        raise tlc.MachineryError("Needed.tla violates %s" % res.invariant_violated)
    wd2 = tlc.prepare_workdir("CorpusPrep", "c14needspinned")
    res2 = tlc.run_tlc(wd2, "MC_Needed", "Needed.pinned.cfg", timeout=600, allow_violation=True)
    if res2.invariant_violated != "PropertyHolds":
        raise tlc.MachineryError("self-test failed: the variant in which a later schedule item replaces a corpus entry does not violate NeededComplete in the model")
    cases = needs_cases(ctx.seed + 1414, 400 if ctx.quick else 6000)
    # the shortest history of the kind: one corpus, two files, two separate schedule items selecting one file each
    cases.insert(0, {"files": [{"c": "a", "i": "i1", "f": "a1"}, {"c": "a", "i": "i2", "f": "a2"}], "s": [[{"corp": ["a"], "idx": ["i1"]}], [{"corp": ["a"], "idx": ["i2"]}]], "par": False})
    items = [needs_run_case("needs-%d" % k, c) for k, c in enumerate(cases)]
    index = {it["id"]: it for it in items}
    v = tracecheck.validate("CorpusPrep", "TraceNeeded", "TraceNeeded.cfg", [{k: x for k, x in it.items() if k in ("id", "files", "s", "prepared")} for it in items], name="c14needs-trace", timeout=900)
    out.traces_validated += v.accepted(len(items))
    for it in items:
        out.add_case(("needs", it["files"], it["s"], it["case"].get("par")), nontrivial=len(it["s"]) > 1)
    bad = 0
    for tid in v.l1:
        it = index[tid]
        bad += 1
        case = dict(it["case"], needs_leg=True)
        missing = [f["f"] for f in it["files"] if f not in it["prepared"]]
        out.violations.append(Violation("NeededComplete", case, signature={"clauses": ["NeededComplete"], "leg": "needs", "schedule_items": min(len(it["s"]), 3), "crash": bool(it.get("crash"))}, detail="needs leg: files=%s schedule=%s -> prepared=%s (never asked for: some of %s) %s" % ([(f["f"], f["c"], f["i"]) for f in it["files"]], it["s"], [f["f"] for f in it["prepared"]], missing, it.get("crash", ""))))
    for tid in v.l2:
        if tid not in v.l1:
            it = index[tid]
            out.drift.append("needs leg %s: prepared %s for files=%s schedule=%s is not the transcription's result" % (tid, [f["f"] for f in it["prepared"]], [(f["f"], f["c"], f["i"]) for f in it["files"]], it["s"]))
    out.extra["needs_leg"] = {"model_states": res.distinct, "tracks": len(items), "with_several_schedule_items_on_one_corpus": sum(1 for it in items if len(it["s"]) > 1), "violating": bad}
    out.note("needs leg: Needed.tla %d states; %d tracks through the real used_corpora / DefaultTrackPreparator.on_prepare_track, %d violating" % (res.distinct, len(items), bad))
    return bad



def replay(ctx, case):
    from ..core import Outcome

    out = Outcome(ctx.pid)
    if case.get("needs_leg"):
        it = needs_run_case("replay", case)
        v = tracecheck.validate("CorpusPrep", "TraceNeeded", "TraceNeeded.cfg", [{k: x for k, x in it.items() if k in ("id", "files", "s", "prepared")}], name="c14needs-replay")
        print("files=%s schedule=%s prepared=%s %s" % (it["files"], it["s"], [f["f"] for f in it["prepared"]], it.get("crash", "")))
        if v.l1:
            print("VIOLATION property=C14 clause=NeededComplete")
        return 1 if v.l1 else 0
    c = dict(case)
    c["id"] = "replay"
    run_cases([c], out, "replay", tlc.scratch("c14-sandbox"))
    for v in out.violations:
        print("VIOLATION property=C14 clause=%s %s" % (v.clause, v.detail))
    for d in out.drift:
        print("MODEL-DRIFT property=C14 %s" % d)
    return 1 if out.violations else 0
