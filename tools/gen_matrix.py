#!/venv/bin/python
"""Rewrites the seeded-change table of DESIGN.md (between the MATRIX markers) from seeded/*/meta.json and the descriptions below."""
import glob
import json
import os

VERIF = os.path.dirname(os.path.dirname(os.path.abspath(__file__)))

WHAT = {
    "C01-1": ("completed-by client lists initialised once before the loop in Allocator.allocations: every later join point carries them, CompleteCurrentTask is sent during an ordinary later element", ""),
    "C01-2": ("per-step clean-up in Worker.drive() only `if self.sampler is not None`: `complete` stays set after an early CompleteCurrentTask, all following elements are skipped (needs CCT between Drive and wake-up)", ""),
    "C01-3": ("`complete_current_task_sent` memorised before the pending-clients test: the completed-by check runs only for the FIRST join-point message of a step; if that worker does not host (all of) the named task the broadcast never happens (needs the named task split over workers or a third worker arriving first)", "strengthened: clause CompletedByEnds + scenarios W3Split/W3Early"),
    "C01-4": ("CompleteCurrentTask arriving between Drive and the start wake-up makes the worker drive() at once but leaves `start_driving` armed: the stale wake-up drives again without a Drive", "strengthened: clause NoSpuriousFailure; trace validation made total when the recorded state leaves the model's domain (before: machinery failure)"),
    "C01-5": ("receiveMsg_Drive calls drive() directly when the start time has passed, `start_driving` stays set: stale CompleteCurrentTask honoured at the join point, periodic wake-up mistaken for the start signal, drive() blocks in executor_future.result()", "strengthened: blocking waits on a running executor are simulated / diagnosed (before: the check hung); one pool thread per worker"),
    "C01-6": ("Worker.drive's recursive skip became a loop `while complete and not at_joinpoint()`: vacuously true on an all-None padding row, the worker sends a JoinPointReached naming no join point and never runs its last element (over-committed completed-by parallel with uneven rows)", 'check fixed: a state the harness cannot project ends the race with a drift note (before: machinery failure); caught by `ExactlyOnceAtEnd`'),
    "C01-7": ('AsyncExecutor: every task obeys the worker-wide `complete` flag: the first client of the named task to finish cuts its sibling clients short', ''),
    "C01-8": ('Driver.joinpoint_reached no longer resets complete_current_task_sent per step: after the first broadcast no later completed-by element ever broadcasts', 'strengthened: two completed-by elements in a row (scenarios TwoCB/TwoAny, generator)'),
    "C01-9": ('move_to_next_task translates the start time to worker clocks with swapped operands (start - d instead of start + d)', 'NOT caught and not a violation of C01 as stated: with finite clock offsets the start of the next element is shifted by 2d on that worker; barrier, exactly-once, completion and completed-by clauses all hold (the statement has no clause about WHEN an element starts)'),
    "C01-10": ('tasks under `completed-by: any` ignore the worker-wide complete event: the element ends only when its slowest task ends by itself', 'strengthened: action clause CompletedByCuts (a client told to complete does not go on with a task that is not the named one)'),
    "C01-11": ('may_complete_current_task (any): all(...) instead of any(...): the broadcast waits for every worker hosting an any-task', ''),
    "C02-1": ("over-committed client indices wrap at the parallel's own client count instead of max_clients: ragged matrix when another element is wider", ""),
    "C02-2": ("workers per host taken from the first host: a later host with fewer cores gets more workers than cores", ""),
    "C02-3": ("calculate_worker_assignments gives every host but the last ceil(n/hosts) clients and the last 'the remainder': with >= 3 hosts client ids >= n are handed out", ''),
    "C02-4": ('Driver.start_benchmark resets ClientAllocations per host instead of per worker: the k-th worker of a host also gets the rows of the earlier workers', "caught by C01's race simulation; C02 strengthening requested (real start_benchmark leg)"),
    "C02-5": ("client_index_in_task computed modulo max_clients: task-local indices repeat when the parallel's cap is below one sub-task's clients", ''),
    "C02-6": ('start_worker call slipped into the per-client loop: a worker with k clients receives k StartWorker messages', ''),
    "C02-7": ("schedule_for partitions by the parallel's total clients instead of the task's", "caught by C03 (`ExactCover`); C02's matrix is unaffected"),
    "C02-8": ('schedule created only for the first allocation of a task on a worker: clients share one schedule', "caught by C05 (element leg); C02's matrix is unaffected"),
    "C02-9": ('same loop-skip change as C01-6 in Worker.drive (bogus join point on an all-padding column)', 'belongs to the race simulation: caught by C01 after the directed Ragged scenario was added (the generated family had caught C01-6 only by the luck of the draw)'),
    "C02-10": ('update_progress_message runs on every driver wake-up, also after the last join point: IndexError, BenchmarkFailure after BenchmarkComplete', 'belongs to the race simulation: caught by C01 (`NoSpuriousFailure`) once half of the races run with progress reporting on'),
    "C03-1": ("offset table built with character counts instead of tell(): multi-byte corpora > 50,000 lines seek too early", ""),
    "C03-2": ("conflict id drawn with inclusive upper bound: may reference a not-yet-emitted id", ""),
    "C03-3": ("number_of_bulks counts lines instead of documents: with action-and-meta-data lines a group ingests about 2p% instead of p%", ""),
    "C03-4": ("schedule_for partitions the corpus by the parallel element's total clients instead of the task's: a bulk task next to sibling tasks skips partitions", ''),
    "C03-5": ('ingest-percentage limit computed as ceil(all_bulks*(p/100)): float rounding issues one bulk too many for ~40 of 30,000 (bulks, percentage) pairs', 'strengthening requested: exact ceil over the (bulks, percentage) table'),
    "C03-6": ('FileOffsetTable.is_valid compares mtimes the wrong way round: a stale offset table is kept after the corpus file was replaced', 'same change as C14-4 (caught by C14); C03 strengthening requested (table built for an earlier revision of the file)'),
    "C03-7": ('corpus-level `includes-action-and-meta-data` default dropped in the loader: only half of the file is read, action lines sent as documents', 'strengthening requested: corpora loaded by the real loader'),
    "C03-8": ('batch_size and bulk_size swapped when the default reader is created', ''),
    "C03-9": ('create_reader called with (num_docs, num_lines) swapped for files with action-and-meta-data lines', ''),
    "C03-10": ('parameter-source cache keyed by operation (name-equal): two bulk tasks sharing an operation split the corpus between them', 'strengthening requested'),
    "C03-11": ("used_corpora iterates the user's list: a corpus named twice is read twice", 'strengthening requested'),
    "C04-1": ("`throughput_throttled = rest > 0`: latency of a lagging throttled client falls back to service time", ""),
    "C04-2": ("absolute time taken before the throttling wait: the sample no longer carries its issue time", ""),
    "C04-3": ('throttle wait only `if rest > 0.001`: a request can go out up to 1 ms before its scheduled time', 'strengthening requested: sub-millisecond remainders in the time alphabet'),
    "C04-4": ('AsyncIoAdapter builds AsyncExecutor with global_client_index instead of client_id: samples name a client that did not run the request (over-committed parallel)', 'caught by C07 (`FinalRecords`: client id in the stored records) after the harness observes the executing client at the wire; C04 strengthening requested'),
    "C04-5": ('Worker.drive sends the remaining samples at a join point only if the executor future is still set: the last samples are dropped', 'caught by C07 (`SampleConservation`)'),
    "C04-6": ('aiohttp trace config: end handler registered on on_request_chunk_sent: request_end = arrival of the response headers', 'strengthened: wire leg (real client of EsClientFactory.create_async against a scripted loopback server)'),
    "C04-7": ('unit-mismatch check moved out of `weight > 0`: a failed request (0 ops) of a docs/s-throttled task raises before its sample is recorded', ''),
    "C04-8": ('Worker.drive no longer passes buffer_size to Sampler: the queue silently holds 16384 samples', "caught by C07's high-volume leg"),
    "C04-9": ("nested context propagates its request START into the parent's request END: composite service time 0", 'caught by C18 (`SpanEnd`)'),
    "C04-10": ('throttle wait sliced and left early when `complete` is set: the pending request goes out before its scheduled time', 'strengthened: completion event strictly inside a throttle wait'),
    "C05-1": ("UnitAwareScheduler: `weight = 1` slipped under `if self.first_request`: pacing w*C/T instead of C/T from the third request", ""),
    "C05-2": ("loop-control timer restarted inside the schedule generator (after the ramp-up sleep)", ""),
    "C05-3": ('Allocator passes total_clients=sub_task.clients: ramp-up delays in a parallel with >= 2 sub-tasks use the wrong divisor', 'strengthening requested: allocations from the real Allocator with ramp-up'),
    "C05-4": ("requires_time_period_schedule tests the runner's `completed` before explicit iterations: iterations ignored for runners exposing completed/percent_completed", 'strengthening requested: runner objects with completed/percent_completed'),
    "C05-5": ("Task.THROUGHPUT_PATTERN closes the value group before the fraction: '2.5 ops/s' throttles at 2 ops/s, '0.5 pages/s' runs unthrottled", ''),
    "C05-6": ('schedule_for slipped under `if task not in params_per_task`: clients of the same task on one worker share one schedule / loop control', ''),
    "C05-7": ("most_recent_sample_per_client.clear without parentheses: the next task's progress starts at the previous 100% and drops", 'strengthening requested: progress reported by the real Driver across tasks'),
    "C05-8": ('ramp-up wait sliced into whole seconds: client i waits ceil(ramp-up*i/total)', ''),
    "C05-9": ('`any_task_completes_parent` tested instead of `task_completes_parent`: sibling clients of the named task stop early', 'caught by C01 (`CompletedByNamed`)'),
    "C05-10": ('target-interval read as a per-client interval: C clients run at C times the rate', ''),
    "C06-1": ("update_interval without max(): elapsed time goes backwards for out-of-order arrival", ""),
    "C06-2": ("tuple helper uses the sample's own type instead of the sticky task type", ""),
    "C06-3": ("finish_bucket no longer resets `unprocessed` (sibling of the repaired defect)", ""),
    "C06-4": ("`if first_sample.throughput:` - a runner throughput of 0 is treated as none", "strengthened: model and drivers distinguish throughput 0 from None"),
    "C06-5": ('TaskStats created from the first sample in ARRIVAL order instead of the earliest: out-of-order first batch shifts start time and sample type', ''),
    "C06-6": ('calculate() deletes the TaskStats of tasks absent from the current batch: counts are forgotten while the task is still running', 'check fixed: violations reproduced before a failing machinery self-test are reported (before: exit 2 hid 265 violations)'),
    "C06-7": ('Driver.joinpoint_reached replaces the throughput calculator before the final post-processing: the last batch of a task is counted from 0', 'strengthened: driver leg (every calculate() call of the real Driver in simulated races validated against Throughput.tla)'),
    "C06-8": ('calculate() skips samples with total_ops == 0: a task whose requests all fail gets no throughput value', ''),
    "C06-9": ('calculate() tests the stale loop variable `sample.throughput`: runner-supplied throughput recomputed or ordinary tasks get None', 'check fixed: None values are projected instead of crashing the harness'),
    "C06-10": ("throughput unit computed once from the task's first sample: a first failed request labels a docs task ops/s", 'strengthened: mixed units within a task, Unit clause per reported sample'),
    "C06-11": ('per-task grouping with itertools.groupby: all but the last run of a task in a batch dropped', ''),
    "C06-12": ('samples sorted by relative_time instead of absolute_time: out-of-order workers counted late', ''),
    "C07-1": ("join-point flush guarded by executor_future (never true): a sample added between send_samples() and done() is lost", "strengthened: worker wake-up split at the executor preemption point (WWakeupA / executor steps / WWakeupB) in model and harness"),
    "C07-2": ("periodic wake-up ships samples only while busy", "superseded: led to the OverPlain scenarios and the genuine fix 328e366, after which the change no longer breaks the property"),
    "C07-3": ("SamplePostprocessor writes latency / processing_time only `if sample.latency:`: a timing of exactly 0.0 loses its record", ""),
    "C07-4": ("Sample.dependent_timings drops operation_name: service_time records of dependent sub-requests are stored under the parent operation", ""),
    "C07-5": ("hand-over merged into externalize_metrics() with the clear condition inverted: records of intermediate steps are sent again at every later step", ""),
    "C07-6": ('same change as C04-4 (global_client_index as client id)', ''),
    "C07-7": ('Sampler.samples copies and clears the deque without the queue mutex: a sample added between copy and clear is lost', "strengthened: accesses to the sampler's deque outside the queue mutex are preemption points for the executor thread"),
    "C07-8": ('Sampler.samples drains at most 16384 samples per call: the rest is dropped at the join-point flush', 'strengthened: high-volume leg (40,000+ samples queued when the task ends)'),
    "C07-9": ("on_task_finished returns early in test mode without sending TaskFinished: intermediate steps' records never reach race control", ''),
    "C07-10": ('unprocessed samples cleared before the lazy chain is read: carried-over samples dropped from throughput', 'caught by C06 (`Conservation`, driver leg and calculator legs)'),
    "C07-11": ('Composite: mid-stream gather ASSIGNS the timings: sub-requests before a stream group lose their dependent record', 'caught by C18 (`DependentExact`)'),
    "C08-1": ("throughput median through a helper whose sample_type defaults to None: warm-up samples shift the median", ""),
    "C08-2": ("GlobalStats.metrics(task) matches task OR operation name: a task gets another task's metrics when names collide", "strengthened: colliding task/operation names"),
    "C08-3": ("percentile rank rounded to 2 decimals: p99.9/p99.99 deviate from the linear interpolation for >= 1000 samples", "strengthened: exact interpolation promoted from L2 to L1"),
    "C08-4": ('Race.as_dict keeps results only `if v`: zero-valued global metrics vanish on the round trip', ''),
    "C08-5": ('InMemoryMetricsStore.bulk_add replaces the docs instead of extending them: all but the last hand-over lost at race control', 'caught by C07 (`AllSamplesAtRaceControl`); C08 strengthening requested (store filled by several bulk_add hand-overs)'),
    "C08-6": ('error_rate no longer passes operation_type: dependent sub-request timings of composite operations dilute the error rate', 'strengthened: dependent timings judged at L1'),
    "C08-7": ("single_latency takes the sample size from the task's service_time records: wrong percentile set / lost latency results", ''),
    "C08-8": ('encode_float_key formats with .1f: p99.99 collides with p100 for >= 10,000 samples', 'strengthening requested: every percentile threshold crossed, stored key set compared'),
    "C08-9": ('race.json read without encoding=utf-8: non-ASCII races vanish under a non-UTF-8 locale', 'strengthening requested: read-back in a child interpreter with LC_ALL=C'),
    "C08-10": ('get_mean drops sample_type: with the Elasticsearch store the mean includes warm-up samples', 'strengthening requested: query leg for EsMetricsStore'),
    "C08-11": ('zgc_pauses_gc_count read back from the zgc_cycles key', ''),
    "C09-1": ("worker no longer checks the executor's outcome between task rows of an over-committed parallel: the failed future is overwritten", "strengthened: OverPlain scenarios in the fault families"),
    "C09-2": ("race control releases the driver before storing the final samples: a failure in the final hand-over becomes a dead letter", ""),
    "C09-3": ("De Morgan slip `not (cancelled and error)`: results stored after a failure or a cancellation alone", ""),
    "C09-4": ("Worker forwards a BenchmarkFailure only if it does not come from the driver: a driver failure answered to a worker by no_retry (store fault at a step boundary) is dropped", ""),
    "C09-5": ("early returns in execute_single: `on-error: abort` no longer sees an unsuccessful RESULT (success: False), only raised errors", "strengthened: request fault variant `unsuccessful` (runner returns success False under on-error=abort)"),
    "C09-6": ('error behaviour determined once from the first allocation of a worker: a lenient first task makes every other task on that worker ignore request errors under on-error=abort', 'strengthened: tasks with ignore-response-error-level next to strict ones, directed races with both in one executor'),
    "C09-7": ('DriverActor drops BenchmarkFailure once driver.finished(): a store failure while the LAST join point is processed is never reported', ''),
    "C09-8": ('no_retry removed from DriverActor.receiveMsg_WakeupMessage: a store failure in periodic post-processing is retried and swallowed', ''),
    "C09-9": ('AsyncIoAdapter gathers with return_exceptions=True: a failure is reported only when the sibling clients of the worker are done', 'strengthened: directed races where a client fails next to an eternal sibling of the same executor'),
    "C09-10": ('fatal-ConnectionError test behind `if e.errors:`: a connection error with attached retry errors is no longer fatal', 'strengthened: connection error variant with attached errors of earlier attempts'),
    "C09-11": ('Worker wake-up checks executor_future.done() before cancel.is_set()', 'NOT reachable through the actor protocol: `cancel` is only ever set in receiveMsg_ActorExitRequest, after which the worker actor is gone and handles no further wake-up; a user cancellation reaches race control and the driver exits with its workers (modelled as FCancel / DRecvFromRc); the property holds on the changed tree'),
    "C10-1": ("mixing checks by truthiness: warmup-iterations 0 with time-period is loaded", ""),
    "C10-2": ("nested rally.collect resolved against the track root instead of the fragment's directory", "strengthened: two-level includes with the outer part in a sub-directory"),
    "C10-3": ('duplicate-name check fused into the schedule loop with sets: duplicates inside ONE parallel element are loaded', ''),
    "C10-4": ('corpora: with several indices a document set without target-index silently gets the first index', 'strengthening requested: TargetIndexAsWritten at L1'),
    "C10-5": ('completed-by matches the operation name as well as the task name: an unknown completed-by is loaded', ''),
    "C10-6": ("exists_set_param macro uses jinja's boolean default: falsy user parameters (0, false, '') are replaced by the default", 'strengthened: macro in the template alphabet x falsy/truthy/absent parameter values'),
    "C10-7": ('jinja autoescape switched on: & < > quotes in parameters and literals are loaded HTML-escaped', 'strengthened: special characters in names, literals and parameter values'),
    "C10-8": ('unused-parameter check moved before read_track: parameters used only in index bodies / templates are rejected', 'strengthened: parameters used only in side files'),
    "C10-9": ('track params passed as render context instead of env.globals: not visible in imported macros / macro-collected parts', 'strengthened: imported macro files, single-quoted rally.collect'),
    "C10-10": ("base-url variable shadowed in the document-set loop: a later set inherits an earlier sibling's base-url", 'strengthened: base-url per document set in the compared core'),
    "C11-1": ("emptied parallel dropped only if `task.clients == 0`: one with an explicit clients value stays", ""),
    "C11-2": ("single string tag no longer wrapped in a list: tag filter does a substring test", "strengthened: single-string tags and tag alphabets with substrings; projection mismatch is L1/drift instead of a machinery failure"),
    "C11-3": ('removal of an emptied parallel guarded by `task not in tasks_to_remove` (== compares task lists): a second emptied parallel stays', ''),
    "C11-4": ('Allocator.clients = max(..., default=0): an empty filtered schedule gives a 0-row matrix and start_benchmark fails', ''),
    "C11-5": ('TaskNameFilter also matches the operation name', ''),
    "C11-6": ('removal loop dedented out of the per-challenge loop: only the last challenge is filtered', ''),
    "C11-7": ('filter values lower-cased: filters are no longer case-sensitive', ''),
    "C11-8": ('the completed-by task is never filtered out', ''),
    "C11-9": ('filtering collects removals over ALL challenges and compares with Task.__eq__: namesakes in other challenges vanish', 'strengthening requested'),
    "C11-10": ('type: filter values rewritten _ -> -: custom operation types with underscores no longer match', 'strengthening requested'),
    "C12-1": ("MechanicActor children sized by distinct IPs instead of (ip, port) pairs", ""),
    "C12-2": ("departures of daemons 'not awaited' ignored: join-then-leave is never reported", ""),
    "C12-3": ("ProcessLauncher.stop skips storing system metrics for a node whose process is already gone", "strengthened: real ProcessLauncher.stop with node-process conditions (early / late / stubborn)"),
    "C12-4": ('MechanicActor.externally_provisioned only ever set to True: a provisioned cluster after an external one on the same actor gets no StopNodes', 'strengthening requested: multi-lifecycle histories on one MechanicActor'),
    "C12-5": ('StopNodes no longer clears mechanic/nodes: the following ActorExitRequest stops every node a second time (two cooperating sites)', ''),
    "C12-6": ('Dispatcher.send_all_pending no longer resets `pending`: a late convention update re-sends all StartNodes', ''),
    "C12-7": ('stop_engine flushes the metrics store BEFORE stopping the nodes: shutdown metrics missing from the stored results (buffering store)', 'strengthened: buffering system metrics store, clause ShutdownMetricsStored'),
    "C12-8": ('received_responses not reset on StartEngine: confirmations of a failed start count for the next one', 'strengthened: restart after a failed start'),
    "C12-9": ('one NodeMechanicActor per remote ip instead of per (ip, port)', ''),
    "C12-10": ('a failure while starting removes a placeholder child: EngineStarted follows BenchmarkFailure', ''),
    "C12-11": ("stop_engine returns when the race is unknown to the host's race store: install and data directories stay", 'strengthening requested'),
    "C13-1": ("config-base variables merged with setdefault: the first car's base wins over a later car's base", ""),
    "C13-2": ("cleanup skips data paths that string-prefix-match the install dir: a sibling named after the ES home survives", "strengthened: name-prefix sibling data paths in the universe"),
    "C13-3": ("ElasticsearchInstaller.variables updates car.variables in place: node defaults leak into the shared Car, node 2 gets node 1's data paths", 'strengthening requested: several nodes provisioned from one Car object'),
    "C13-4": ('trailing newline of rendered templates no longer forced: a second base providing the same file is glued to the last line', ''),
    "C13-5": ('load_car de-duplication evaluated before anything is appended: a base listed twice by one car is applied twice', ''),
    "C13-6": ("DockerProvisioner merges variables in the wrong order: car variables override Rally's node variables on the docker path", 'strengthening requested: docker provisioning path'),
    "C13-7": ('rendered templates appended without encoding=utf-8: provisioning breaks under a non-UTF-8 locale', 'strengthening requested: child interpreter with LC_ALL=C'),
    "C13-8": ('car params applied only to cars with a config base: a later base-less mixin wins over --car-params', ''),
    "C13-9": ('one Jinja environment per base searching all directories, lookup by base name: same file name in two directories renders the first', 'strengthening requested'),
    "C13-10": ('docker path opens rendered templates with mode w: a later base overwrites instead of appending', ''),
    "C14-1": ("offset table built with encoded line lengths: CRLF corpora >= 50,000 lines get wrong offsets", "strengthened: CRLF variant of the large document"),
    "C14-2": ("_download_http prefers the server's Content-Length over the declared size: a wrong-sized download is renamed to the final name", ""),
    "C14-3": ("offset table not removed before the line-count DataError: a plain retry finds a 'valid' table and accepts the wrong corpus", 'strengthening requested: first run ending with the explicit line-count error'),
    "C14-4": ('FileOffsetTable.is_valid compares mtimes the wrong way round: a stale table survives a replaced document file', ''),
    "C14-5": ('standard-library fallback only when the external tool is missing, not when it fails: a corrupt archive rejected at the CRC leaves an accepted wrong document', 'strengthened: archives of the right size with a damaged payload, content compared'),
    "C14-6": ('`extracted_bytes != uncompressed_size` became `<`: an archive that expands to more than declared is re-inflated forever', 'strengthened: archives expanding to more than declared, livelock end kind'),
    "C14-7": ('download retry loop one iteration short: after 10 failed attempts None is returned and the partial .tmp renamed', ''),
    "C14-8": ('enforce_content_length dropped and the downloaded size not assigned: a cleanly closed short body is accepted when sizes are undeclared', 'strengthened: short bodies with undeclared sizes'),
    "C14-9": ('read timeout dropped from the download: a silent connection blocks for ever', 'strengthening requested'),
    "C14-10": ('offset table validity compares whole seconds', 'strengthening requested'),
    "C15-1": ("walrus unrolled into a truthiness test: a `.0` minor branch is skipped again", ""),
    "C15-2": ("remote branch name cut at the last slash: origin/backport/7.9 becomes 7.9", "strengthened: git leg uses path-like unrelated branch names whose last component looks like the wanted version"),
    "C15-3": ("_latest_major ignores patch/suffix branches: master chosen although a newer major exists as patch branch", ""),
    "C15-4": ('best_match: `major > latest` became `>=`: master chosen although only later minors of the newest major exist', ''),
    "C15-5": ('RallyRepository.update: checkout moved inside the try that swallows SupplyError: a failing checkout leaves the repository on the previous branch', 'strengthened: working copy with uncommitted changes (`UsesBestOrError`)'),
    "C15-6": ("update() records head_revision BEFORE checking out the local branch: a later load checks out the previous branch's commit", 'strengthened: clause RecordedRevisionIsCommitInUse'),
    "C15-7": ('git fetch lost --prune: branches deleted upstream stay as remote-tracking refs and keep being selected', 'strengthened: branches deleted upstream after the clone'),
    "C15-8": ('`current_branch != branch` became `not current_branch.endswith(branch)`: stays on 6.7 although 7 was selected', ''),
    "C15-9": ('git checkout replaced by git switch: tags cannot be checked out, the v-tag fallback fails', ''),
    "C15-10": ('latest_bounded_minor accepts minor branches of an OLDER major', ''),
    "C15-11": ('git clone --depth 1 (single branch): only master is ever seen', ''),
    "C16-1": ("except clauses merged: other TransportErrors are swallowed, slept on and retried", ""),
    "C16-2": ("Retry caches its evaluated parameters on the (shared, registered-once) instance: the first call's settings govern all later calls", ''),
    "C16-3": ('explicit `retry-until-success: false` ignored when the runner was constructed with retry_until_success=True', ''),
    "C16-4": ('HTTP 504 treated like 408 by Retry: swallowed and retried', ''),
    "C16-5": ("`return_value.get('success')` without default: a dict result without the key counts as failure", ''),
    "C16-6": ('retry settings read with params.pop: gone from the shared params dict on the second invocation', 'strengthening requested: histories reusing one params dict, ParamsUntouched'),
    "C16-7": ('await dropped before asyncio.sleep after connection errors: no pause', ''),
    "C16-8": ('retry-wait-period read with `or 0.5`: an explicit 0 becomes 0.5', ''),
    "C16-9": ('retry-until-success also forces retry-on-timeout', ''),
    "C17-1": ("all 5xx status codes retryable", ""),
    "C17-2": ("retry branch logs e.body.get('error',{}).get('reason'): a 429/5xx with a str body or a string `error` raises AttributeError instead of retrying", 'strengthening requested: error body shapes in the fault alphabet'),
    "C17-3": ("bulk_index passes a lazy generator into guarded(): retries send nothing and 'succeed'", ''),
    "C17-4": ('bulk_index hands guarded() a functools.partial: error paths using target.__name__ raise AttributeError', ''),
    "C17-5": ('bulk helper called with max_retries=2: 429s retried underneath guarded() with foreign sleeps', ''),
    "C17-6": ('SSLError (a ConnectionError subclass) raised at once instead of retried', 'strengthening requested: concrete classes of connection errors'),
    "C17-7": ('bulk item errors classified only over the first ten items', ''),
    "C17-8": ('bulk items classified against [503, 429] only: 502/504 items are unretryable', ''),
    "C17-9": ('ConnectionTimeout not retried for bulk_index / index', ''),
    "C18-1": ("__exit__ propagates the child's timing only when no exception is in flight: failed sub-requests are not spanned", "strengthened: exceptional exits of nested contexts / failing sub-requests (which also exposed the genuine defect fixed by f822262)"),
    "C18-2": ("run_stream: `pending, streams = streams, []` before awaiting a mid-list group: a failing stream's siblings are neither cancelled nor awaited", ''),
    "C18-3": ("one RequestTiming per operation type kept on the shared Composite runner: overlapping sub-requests overwrite each other's context", ''),
    "C18-4": ('on_request_exception stops the timer only if no request_end exists yet: a later wire request ending with an exception no longer extends the end', 'strengthened: wire leg'),
    "C18-5": ('same change as C04-6 (end stamped at the response headers)', 'strengthened: wire leg'),
    "C18-6": ("max-connections semaphore cached on the shared Composite runner: clients wait for each other's slots", 'strengthening requested: cross-client independence with the limit reached'),
    "C18-7": ('absolute_time of a sub-request taken at construction, before it waits for a connection', 'strengthening requested: absolute_time and request_start denote the same instant'),
    "C18-8": ("nested context is a ChainMap over the parent: a sub-request reads the parent's start as its own", ''),
    "C18-9": ('update_request_start compares with request_end: overlapping requests overwrite the start', ''),
    "C19-1": ("flat-object member key taken as the last path segment: dotted composite source names collapse", "strengthened: dotted member names inside requested flat objects"),
    "C19-2": ("fast-path error count = number of DISTINCT (status, reason) pairs", ""),
    "C19-3": ("requested object never left at end_map: later scalars pollute the extracted after_key", ""),
    "C19-4": ('simple_stats no longer counts items with _shards.failed > 0 as errors (with errors: true)', ''),
    "C19-5": ('SearchAfterExtractor uses findall(...)[-1] over the whole response: a _source field named sort/resort swallows the real sort array', ''),
    "C19-6": ("hits-total helper falls back with `or`: an object-shaped total of 0 becomes None / 'relation'", 'strengthened: hits.total shapes x values x relations'),
    "C19-7": ('detailed_stats: `_shards.failed > 0` overwrites the status check: an error item with _shards.failed 0 counts as success in the detailed path', 'strengthened: bulk items status x _shards x op types'),
    "C19-8": ('search_after cursor decoded as latin-1: non-ASCII sort values become mojibake', ''),
    "C19-9": ('flat-object numbers normalised through float: integers above 2^53 change', ''),
    "C19-10": ('cursor extraction decodes only the last 4096 bytes of the page', ''),
    "C19-11": ('parse() stops at hits.hits: properties serialised after the hits array fall back to defaults', ''),
    "C20-1": ("transform throughput direction flag lost in a de-duplication refactoring", ""),
    "C20-2": ("threshold computed before the percentage branch: +0.00% coloured", ""),
    "C20-3": ("`n / d` instead of `n / abs(d)`: the repaired negative-baseline defect re-introduced", ""),
    "C20-4": ('ingest-pipeline comparison lines guarded by truthiness: a baseline value of 0 drops the line', ''),
    "C20-5": ('neutral colour hoisted above the plain/rich switch: neutral cells reach the report file with colour codes', ''),
    "C20-6": ('processing-time comparison lines read the contender from service_time', ''),
    "C20-7": ('per-field disk usage formatted with bytes_to_human_value: baseline, contender and diff scaled to different units', ''),
    "C20-8": ("GlobalStats.metrics(task) matches the operation name too: per-task comparison lines show another task's values", 'strengthened: colliding task/operation names in the compared races'),
    "C20-9": ('ML processing-time loop uses break instead of continue: lines of later jobs vanish', ''),
    "C20-10": ('De Morgan slip in per-field disk usage: a stat that is 0 on one side is dropped', ''),
    "C20-11": ('report file opened without encoding=utf-8: truncated under a non-UTF-8 locale', 'strengthened: locale leg (child interpreter under LC_ALL=C)'),
}


NOT_A_VIOLATION = {"C01-9", "C09-11"}  # adjudicated: the change does not break the property as stated (see the note in its row)


def main():
    rows = []
    def natural(path):
        a, b = os.path.basename(os.path.dirname(path)).split("-")
        return (a, int(b))

    for path in sorted(glob.glob(os.path.join(VERIF, "seeded", "*", "meta.json")), key=natural):
        m = json.load(open(path))
        sid = m["seed"]
        what, note = WHAT.get(sid, (m.get("what", "(see seeded/%s/README.md)" % sid), ""))
        if m.get("status") == "superseded":
            caught = "- (superseded)"
        elif sid in NOT_A_VIOLATION:
            caught = "- (does not violate the statement)"
        elif m.get("caught_by"):
            caught = ", ".join(m["caught_by"])
        else:
            caught = "**missed**"
        clauses = ""
        for p in m.get("caught_by", []):
            for ln in m["checks"][p]["lines"]:
                if ln.startswith("VIOLATION") and "clause=" in ln:
                    clauses = ln.split("clause=")[1].split(" ")[0]
                    break
            if clauses:
                break
        rows.append("| %s | %s | %s%s | %s |" % (sid, what, caught, (" (`%s`)" % clauses[:70]) if clauses else "", note))
    table = "| Seed | What it changes / what it needs | Caught by (quick tier) | Notes |\n|---|---|---|---|\n" + "\n".join(rows) + "\n"
    p = os.path.join(VERIF, "DESIGN.md")
    s = open(p).read()
    a, b = "<!-- MATRIX-BEGIN -->", "<!-- MATRIX-END -->"
    if a not in s:
        raise SystemExit("markers missing in DESIGN.md")
    s = s[: s.index(a) + len(a)] + "\n" + table + s[s.index(b) :]
    open(p, "w").write(s)
    print("%d seeds, %d missed" % (len(rows), sum(1 for r in rows if "**missed**" in r)))


if __name__ == "__main__":
    main()
