#!/venv/bin/python
"""Rewrites the seeded-change table of DESIGN.md (between the MATRIX markers) from seeded/*/meta.json and the descriptions below."""
import glob
import json
import os

VERIF = os.path.dirname(os.path.dirname(os.path.abspath(__file__)))

WHAT = {
    "C01-1": ("completed-by client lists initialised once before the loop in Allocator.allocations: every later join point carries them, CompleteCurrentTask is sent during an ordinary later element", ""),
    "C01-2": ("per-step clean-up in Worker.drive() only `if self.sampler is not None`: `complete` stays set after an early CompleteCurrentTask, all following elements are skipped (needs CCT between Drive and wake-up)", ""),
    "C01-3": ("`complete_current_task_sent` memorised before the pending-clients test: the completed-by check runs only for the FIRST join-point message of a step; if that worker does not host (all of) the named task the broadcast never happens (needs the named task split over workers or a third worker arriving first)", "strengthened: clause CompletedByEnds + scenarios W3Split/W3Early"),
    "C01-4": ("CompleteCurrentTask arriving between Drive and the start wake-up makes the worker drive() at once but leaves `start_driving` armed: the stale wake-up drives again without a Drive", "strengthened: clause NoSpuriousFailure; trace validation made total when the recorded state leaves the model's domain (before: machinery failure)"),
    "C01-5": ("receiveMsg_Drive calls drive() directly when the start time has passed, `start_driving` stays set: stale CompleteCurrentTask honoured at the join point, periodic wake-up mistaken for the start signal, drive() blocks in executor_future.result()", "strengthened: blocking waits on a running executor are simulated / diagnosed (before: the check hung); one pool thread per worker"),
    "C02-1": ("over-committed client indices wrap at the parallel's own client count instead of max_clients: ragged matrix when another element is wider", ""),
    "C02-2": ("workers per host taken from the first host: a later host with fewer cores gets more workers than cores", ""),
    "C02-3": ("calculate_worker_assignments gives every host but the last ceil(n/hosts) clients and the last 'the remainder': with >= 3 hosts client ids >= n are handed out", ''),
    "C02-4": ('Driver.start_benchmark resets ClientAllocations per host instead of per worker: the k-th worker of a host also gets the rows of the earlier workers', "caught by C01's race simulation; C02 strengthening requested (real start_benchmark leg)"),
    "C03-1": ("offset table built with character counts instead of tell(): multi-byte corpora > 50,000 lines seek too early", ""),
    "C03-2": ("conflict id drawn with inclusive upper bound: may reference a not-yet-emitted id", ""),
    "C03-3": ("number_of_bulks counts lines instead of documents: with action-and-meta-data lines a group ingests about 2p% instead of p%", ""),
    "C03-4": ("schedule_for partitions the corpus by the parallel element's total clients instead of the task's: a bulk task next to sibling tasks skips partitions", ''),
    "C03-5": ('ingest-percentage limit computed as ceil(all_bulks*(p/100)): float rounding issues one bulk too many for ~40 of 30,000 (bulks, percentage) pairs', 'strengthening requested: exact ceil over the (bulks, percentage) table'),
    "C04-1": ("`throughput_throttled = rest > 0`: latency of a lagging throttled client falls back to service time", ""),
    "C04-2": ("absolute time taken before the throttling wait: the sample no longer carries its issue time", ""),
    "C04-3": ('throttle wait only `if rest > 0.001`: a request can go out up to 1 ms before its scheduled time', 'strengthening requested: sub-millisecond remainders in the time alphabet'),
    "C04-4": ('AsyncIoAdapter builds AsyncExecutor with global_client_index instead of client_id: samples name a client that did not run the request (over-committed parallel)', 'caught by C07 (`FinalRecords`: client id in the stored records) after the harness observes the executing client at the wire; C04 strengthening requested'),
    "C05-1": ("UnitAwareScheduler: `weight = 1` slipped under `if self.first_request`: pacing w*C/T instead of C/T from the third request", ""),
    "C05-2": ("loop-control timer restarted inside the schedule generator (after the ramp-up sleep)", ""),
    "C05-3": ('Allocator passes total_clients=sub_task.clients: ramp-up delays in a parallel with >= 2 sub-tasks use the wrong divisor', 'strengthening requested: allocations from the real Allocator with ramp-up'),
    "C05-4": ("requires_time_period_schedule tests the runner's `completed` before explicit iterations: iterations ignored for runners exposing completed/percent_completed", 'strengthening requested: runner objects with completed/percent_completed'),
    "C06-1": ("update_interval without max(): elapsed time goes backwards for out-of-order arrival", ""),
    "C06-2": ("tuple helper uses the sample's own type instead of the sticky task type", ""),
    "C06-3": ("finish_bucket no longer resets `unprocessed` (sibling of the repaired defect)", ""),
    "C06-4": ("`if first_sample.throughput:` - a runner throughput of 0 is treated as none", "strengthened: model and drivers distinguish throughput 0 from None"),
    "C06-5": ('TaskStats created from the first sample in ARRIVAL order instead of the earliest: out-of-order first batch shifts start time and sample type', ''),
    "C06-6": ('calculate() deletes the TaskStats of tasks absent from the current batch: counts are forgotten while the task is still running', 'check fixed: violations reproduced before a failing machinery self-test are reported (before: exit 2 hid 265 violations)'),
    "C07-1": ("join-point flush guarded by executor_future (never true): a sample added between send_samples() and done() is lost", "strengthened: worker wake-up split at the executor preemption point (WWakeupA / executor steps / WWakeupB) in model and harness"),
    "C07-2": ("periodic wake-up ships samples only while busy", "superseded: led to the OverPlain scenarios and the genuine fix 328e366, after which the change no longer breaks the property"),
    "C07-3": ("SamplePostprocessor writes latency / processing_time only `if sample.latency:`: a timing of exactly 0.0 loses its record", ""),
    "C07-4": ("Sample.dependent_timings drops operation_name: service_time records of dependent sub-requests are stored under the parent operation", ""),
    "C07-5": ("hand-over merged into externalize_metrics() with the clear condition inverted: records of intermediate steps are sent again at every later step", ""),
    "C08-1": ("throughput median through a helper whose sample_type defaults to None: warm-up samples shift the median", ""),
    "C08-2": ("GlobalStats.metrics(task) matches task OR operation name: a task gets another task's metrics when names collide", "strengthened: colliding task/operation names"),
    "C08-3": ("percentile rank rounded to 2 decimals: p99.9/p99.99 deviate from the linear interpolation for >= 1000 samples", "strengthened: exact interpolation promoted from L2 to L1"),
    "C08-4": ('Race.as_dict keeps results only `if v`: zero-valued global metrics vanish on the round trip', ''),
    "C08-5": ('InMemoryMetricsStore.bulk_add replaces the docs instead of extending them: all but the last hand-over lost at race control', 'caught by C07 (`AllSamplesAtRaceControl`); C08 strengthening requested (store filled by several bulk_add hand-overs)'),
    "C09-1": ("worker no longer checks the executor's outcome between task rows of an over-committed parallel: the failed future is overwritten", "strengthened: OverPlain scenarios in the fault families"),
    "C09-2": ("race control releases the driver before storing the final samples: a failure in the final hand-over becomes a dead letter", ""),
    "C09-3": ("De Morgan slip `not (cancelled and error)`: results stored after a failure or a cancellation alone", ""),
    "C09-4": ("Worker forwards a BenchmarkFailure only if it does not come from the driver: a driver failure answered to a worker by no_retry (store fault at a step boundary) is dropped", ""),
    "C09-5": ("early returns in execute_single: `on-error: abort` no longer sees an unsuccessful RESULT (success: False), only raised errors", "strengthened: request fault variant `unsuccessful` (runner returns success False under on-error=abort)"),
    "C10-1": ("mixing checks by truthiness: warmup-iterations 0 with time-period is loaded", ""),
    "C10-2": ("nested rally.collect resolved against the track root instead of the fragment's directory", "strengthened: two-level includes with the outer part in a sub-directory"),
    "C10-3": ('duplicate-name check fused into the schedule loop with sets: duplicates inside ONE parallel element are loaded', ''),
    "C10-4": ('corpora: with several indices a document set without target-index silently gets the first index', 'strengthening requested: TargetIndexAsWritten at L1'),
    "C11-1": ("emptied parallel dropped only if `task.clients == 0`: one with an explicit clients value stays", ""),
    "C11-2": ("single string tag no longer wrapped in a list: tag filter does a substring test", "strengthened: single-string tags and tag alphabets with substrings; projection mismatch is L1/drift instead of a machinery failure"),
    "C11-3": ('removal of an emptied parallel guarded by `task not in tasks_to_remove` (== compares task lists): a second emptied parallel stays', ''),
    "C11-4": ('Allocator.clients = max(..., default=0): an empty filtered schedule gives a 0-row matrix and start_benchmark fails', ''),
    "C12-1": ("MechanicActor children sized by distinct IPs instead of (ip, port) pairs", ""),
    "C12-2": ("departures of daemons 'not awaited' ignored: join-then-leave is never reported", ""),
    "C12-3": ("ProcessLauncher.stop skips storing system metrics for a node whose process is already gone", "strengthened: real ProcessLauncher.stop with node-process conditions (early / late / stubborn)"),
    "C12-4": ('MechanicActor.externally_provisioned only ever set to True: a provisioned cluster after an external one on the same actor gets no StopNodes', 'strengthening requested: multi-lifecycle histories on one MechanicActor'),
    "C12-5": ('StopNodes no longer clears mechanic/nodes: the following ActorExitRequest stops every node a second time (two cooperating sites)', ''),
    "C13-1": ("config-base variables merged with setdefault: the first car's base wins over a later car's base", ""),
    "C13-2": ("cleanup skips data paths that string-prefix-match the install dir: a sibling named after the ES home survives", "strengthened: name-prefix sibling data paths in the universe"),
    "C13-3": ("ElasticsearchInstaller.variables updates car.variables in place: node defaults leak into the shared Car, node 2 gets node 1's data paths", 'strengthening requested: several nodes provisioned from one Car object'),
    "C13-4": ('trailing newline of rendered templates no longer forced: a second base providing the same file is glued to the last line', ''),
    "C14-1": ("offset table built with encoded line lengths: CRLF corpora >= 50,000 lines get wrong offsets", "strengthened: CRLF variant of the large document"),
    "C14-2": ("_download_http prefers the server's Content-Length over the declared size: a wrong-sized download is renamed to the final name", ""),
    "C14-3": ("offset table not removed before the line-count DataError: a plain retry finds a 'valid' table and accepts the wrong corpus", 'strengthening requested: first run ending with the explicit line-count error'),
    "C14-4": ('FileOffsetTable.is_valid compares mtimes the wrong way round: a stale table survives a replaced document file', ''),
    "C15-1": ("walrus unrolled into a truthiness test: a `.0` minor branch is skipped again", ""),
    "C15-2": ("remote branch name cut at the last slash: origin/backport/7.9 becomes 7.9", "strengthened: git leg uses path-like unrelated branch names whose last component looks like the wanted version"),
    "C15-3": ("_latest_major ignores patch/suffix branches: master chosen although a newer major exists as patch branch", ""),
    "C15-4": ('best_match: `major > latest` became `>=`: master chosen although only later minors of the newest major exist', ''),
    "C15-5": ('RallyRepository.update: checkout moved inside the try that swallows SupplyError: a failing checkout leaves the repository on the previous branch', 'strengthened: working copy with uncommitted changes (`UsesBestOrError`)'),
    "C16-1": ("except clauses merged: other TransportErrors are swallowed, slept on and retried", ""),
    "C16-2": ("Retry caches its evaluated parameters on the (shared, registered-once) instance: the first call's settings govern all later calls", ''),
    "C16-3": ('explicit `retry-until-success: false` ignored when the runner was constructed with retry_until_success=True', ''),
    "C17-1": ("all 5xx status codes retryable", ""),
    "C17-2": ("retry branch logs e.body.get('error',{}).get('reason'): a 429/5xx with a str body or a string `error` raises AttributeError instead of retrying", 'strengthening requested: error body shapes in the fault alphabet'),
    "C17-3": ("bulk_index passes a lazy generator into guarded(): retries send nothing and 'succeed'", ''),
    "C18-1": ("__exit__ propagates the child's timing only when no exception is in flight: failed sub-requests are not spanned", "strengthened: exceptional exits of nested contexts / failing sub-requests (which also exposed the genuine defect fixed by f822262)"),
    "C18-2": ("run_stream: `pending, streams = streams, []` before awaiting a mid-list group: a failing stream's siblings are neither cancelled nor awaited", ''),
    "C18-3": ("one RequestTiming per operation type kept on the shared Composite runner: overlapping sub-requests overwrite each other's context", ''),
    "C19-1": ("flat-object member key taken as the last path segment: dotted composite source names collapse", "strengthened: dotted member names inside requested flat objects"),
    "C19-2": ("fast-path error count = number of DISTINCT (status, reason) pairs", ""),
    "C19-3": ("requested object never left at end_map: later scalars pollute the extracted after_key", ""),
    "C19-4": ('simple_stats no longer counts items with _shards.failed > 0 as errors (with errors: true)', ''),
    "C19-5": ('SearchAfterExtractor uses findall(...)[-1] over the whole response: a _source field named sort/resort swallows the real sort array', ''),
    "C20-1": ("transform throughput direction flag lost in a de-duplication refactoring", ""),
    "C20-2": ("threshold computed before the percentage branch: +0.00% coloured", ""),
    "C20-3": ("`n / d` instead of `n / abs(d)`: the repaired negative-baseline defect re-introduced", ""),
    "C20-4": ('ingest-pipeline comparison lines guarded by truthiness: a baseline value of 0 drops the line', ''),
    "C20-5": ('neutral colour hoisted above the plain/rich switch: neutral cells reach the report file with colour codes', ''),
}


def main():
    rows = []
    for path in sorted(glob.glob(os.path.join(VERIF, "seeded", "*", "meta.json"))):
        m = json.load(open(path))
        sid = m["seed"]
        what, note = WHAT.get(sid, (m.get("what", "(see seeded/%s/README.md)" % sid), ""))
        if m.get("status") == "superseded":
            caught = "- (superseded)"
        elif m.get("caught_by"):
            caught = ", ".join(m["caught_by"])
        else:
            caught = "**missed**"
        clauses = ""
        for p in m.get("caught_by", []):
            for ln in m["checks"][p]["lines"]:
                if ln.startswith("VIOLATION") and "clause=" in ln:
                    clauses = ln.split("clause=")[1].split(" ")[0]
                    break
            if clauses:
                break
        rows.append("| %s | %s | %s%s | %s |" % (sid, what, caught, (" (`%s`)" % clauses[:70]) if clauses else "", note))
    table = "| Seed | What it changes / what it needs | Caught by (quick tier) | Notes |\n|---|---|---|---|\n" + "\n".join(rows) + "\n"
    p = os.path.join(VERIF, "DESIGN.md")
    s = open(p).read()
    a, b = "<!-- MATRIX-BEGIN -->", "<!-- MATRIX-END -->"
    if a not in s:
        raise SystemExit("markers missing in DESIGN.md")
    s = s[: s.index(a) + len(a)] + "\n" + table + s[s.index(b) :]
    open(p, "w").write(s)
    print("%d seeds, %d missed" % (len(rows), sum(1 for r in rows if "**missed**" in r)))


if __name__ == "__main__":
    main()
