#!/venv/bin/python
"""Rewrites the as-built table of DESIGN.md (between the ASBUILT markers) from MANIFEST.json, harness/manifest_gen.py and evidence/*.json."""
import json
import os
import sys

VERIF = os.path.dirname(os.path.dirname(os.path.abspath(__file__)))
sys.path.insert(0, VERIF)
from harness import manifest_gen  # noqa: E402


def main():
    m = json.load(open(os.path.join(VERIF, "MANIFEST.json")))
    rows = []
    for c in m["checks"]:
        pid = c["property_id"]
        ev = {}
        try:
            ev = json.load(open(os.path.join(VERIF, "evidence", pid + ".json")))
        except Exception:  # pylint: disable=broad-except
            pass
        cov = ev.get("coverage", {})
        spec = manifest_gen.SPEC_DIRS.get(pid, "?")
        kf = ", ".join(sorted(cov.get("known_findings_reobserved", {}) or {})) or "-"
        rows.append(
            "| %s | `specs/%s` | %s | %s | %s | %s | %s | %.0f s | %s |"
            % (
                pid,
                spec,
                c.get("engine", "tlc"),
                "{:,}".format(cov.get("states", 0)),
                "{:,}".format(cov.get("evaluations", 0)),
                "{:,}".format(cov.get("traces_validated_against_impl", 0)),
                cov.get("conformance_rejections", "?"),
                ev.get("wall_s", 0),
                kf,
            )
        )
    table = (
        "| Prop. | Specification | Engines | TLC states (quick) | Cases executed on the real code | Traces / cases accepted by TLC | L2 rejections | Wall | Known findings re-observed |\n"
        "|---|---|---|---|---|---|---|---|---|\n" + "\n".join(rows) + "\n"
    )
    p = os.path.join(VERIF, "DESIGN.md")
    s = open(p).read()
    a, b = "<!-- ASBUILT-BEGIN -->", "<!-- ASBUILT-END -->"
    s = s[: s.index(a) + len(a)] + "\n" + table + s[s.index(b) :]
    open(p, "w").write(s)
    print("as-built table: %d rows" % len(rows))


if __name__ == "__main__":
    main()
