#!/venv/bin/python
"""Verify a seeded change produced by an independent sub-agent and run the checks against it.

usage: seed_mutant.py <out-dir with patch.diff, demo.py, README.md> <seed id> <property id> [<more property ids to run>...]
Steps: scratch worktree of /repo HEAD -> apply patch -> repo test suite (must match baseline) -> demo on /repo (must pass) and on the
worktree (must fail) -> ./check <pid> --tier quick with VERIF_REPO=<worktree> -> store under /verif/seeded/<seed id>/ -> remove worktree.
"""
import json
import os
import shutil
import subprocess
import sys
import time

VERIF = os.path.dirname(os.path.dirname(os.path.abspath(__file__)))


def sh(cmd, env=None, cwd=None, timeout=3600):
    e = dict(os.environ)
    if env:
        e.update(env)
    p = subprocess.run(cmd, shell=True, cwd=cwd, env=e, stdout=subprocess.PIPE, stderr=subprocess.STDOUT, timeout=timeout)
    return p.returncode, p.stdout.decode("utf-8", "replace")


def main():
    src, sid, pid = sys.argv[1], sys.argv[2], sys.argv[3]
    pids = [pid] + sys.argv[4:]
    wt = "/tmp/seedwt_%s" % sid
    home = "/tmp/seedhome_%s" % sid
    sh("git -C /repo worktree remove --force %s" % wt)
    rc, out = sh("git -C /repo worktree add --detach %s" % wt)
    if rc:
        print(out)
        return 2
    meta = {"seed": sid, "property": pid, "source": src, "repo_head": sh("git -C /repo rev-parse --short HEAD")[1].strip()}
    try:
        rc, out = sh("git -C %s apply %s" % (wt, os.path.join(src, "patch.diff")))
        if rc:
            print("patch does not apply:", out)
            meta["status"] = "patch-does-not-apply"
            return 2
        rc, out = sh(
            "/venv/bin/python -m pytest -q -p no:cacheprovider --timeout=900 --ignore=tests/client/factory_test.py --ignore=tests/utils/git_test.py --ignore=tests/utils/net_test.py -q tests 2>&1 | tail -4",
            cwd=wt,
            env={"PYTHONPATH": wt},
        )
        meta["test_suite_tail"] = out.strip().splitlines()[-2:]
        demo = os.path.join(src, "demo.py")
        env0 = {"RALLY_HOME": home, "PYTHONPATH": "/repo"}
        env1 = {"RALLY_HOME": home, "PYTHONPATH": wt}
        runner = "/venv/bin/python -m pytest -q -p no:cacheprovider" if "def test_" in open(demo).read() and "__main__" not in open(demo).read() else "/venv/bin/python"
        rc0, out0 = sh("%s %s" % (runner, demo), env=env0, cwd="/tmp")
        rc1, out1 = sh("%s %s" % (runner, demo), env=env1, cwd="/tmp")
        meta["demo_on_repo_exit"] = rc0
        meta["demo_on_change_exit"] = rc1
        meta["demo_on_change_tail"] = out1.strip().splitlines()[-3:]
        meta["checks"] = {}
        for p in pids:
            t0 = time.time()
            rcc, outc = sh("./check %s --tier quick" % p, env={"VERIF_REPO": wt, "VERIF_EVIDENCE_DIR": "/var/tmp/seed_evidence"}, cwd=VERIF)
            lines = [ln for ln in outc.splitlines() if ln.startswith(("VIOLATION", "OK ", "FAIL", "MACHINERY", "MODEL-DRIFT", "KNOWN-FINDING"))]
            meta["checks"][p] = {"exit": rcc, "wall_s": round(time.time() - t0, 1), "lines": [ln[:300] for ln in lines[:6]]}
            # evidence/replays written by this run belong to the mutant, not to /repo: restore them
            sh("git checkout -- evidence/%s.json" % p, cwd=VERIF)
            sh("git clean -fdq replays/%s" % p, cwd=VERIF)
        dst = os.path.join(VERIF, "seeded", sid)
        os.makedirs(dst, exist_ok=True)
        for fn in os.listdir(src):
            if os.path.abspath(src) != os.path.abspath(dst) and os.path.isfile(os.path.join(src, fn)) and os.path.getsize(os.path.join(src, fn)) < 200000:
                shutil.copy(os.path.join(src, fn), os.path.join(dst, fn))
        meta["status"] = "confirmed" if rc0 == 0 and rc1 != 0 else "demo-not-confirmed"
        meta["caught_by"] = [p for p, r in meta["checks"].items() if r["exit"] == 1]
        with open(os.path.join(dst, "meta.json"), "w") as f:
            json.dump(meta, f, indent=1)
        print(json.dumps(meta, indent=1))
    finally:
        sh("git -C /repo worktree remove --force %s" % wt)
        shutil.rmtree(home, ignore_errors=True)
    return 0


if __name__ == "__main__":
    sys.exit(main())
